"""C07 control demo (c1): the read/decode/parse/feed/firewall path behaves exactly
as the reference implementation: (A) unit-level oracle digests recorded on the
unmodified tree, (B) end-to-end runs of the real SocketDriver over a loopback
TCP connection with hostile input cut at arbitrary byte boundaries."""
import os, sys, time, socket, tempfile, traceback

sys.path.insert(0, os.getcwd())
TMP = tempfile.mkdtemp(prefix='c07demo_')
with open(os.path.join(TMP, 'bot.conf'), 'w') as fd:
    fd.write("""
supybot.directories.data: %(d)s/data
supybot.directories.conf: %(d)s/conf
supybot.directories.log: %(d)s/logs
supybot.directories.backup: %(d)s/backup
supybot.directories.data.tmp: %(d)s/tmp
supybot.log.stdout: False
supybot.log.level: INFO
supybot.nick: bot
supybot.drivers.poll: 0.05
""" % {'d': TMP})
import supybot
assert os.path.realpath(supybot.__file__).startswith(os.path.realpath(os.getcwd())), supybot.__file__
import supybot.registry as registry
registry.open_registry(os.path.join(TMP, 'bot.conf'))
import supybot.log as log
import supybot.conf as conf
conf.supybot.flush.setValue(False)
import supybot.world as world
import supybot.irclib as irclib
import supybot.drivers as drivers
import supybot.ircmsgs as ircmsgs
import supybot.utils as utils
from supybot.utils.str import decode_raw_line
import random, hashlib

lsock = socket.socket(); lsock.bind(('127.0.0.1', 0)); lsock.listen(5)
PORT = lsock.getsockname()[1]
conf.registerNetwork('test', ssl=False)
conf.supybot.networks.test.servers.setValue(['127.0.0.1:%d' % PORT])

escaped = []
def pump(n=6):
    for _ in range(n):
        try:
            drivers.run()
        except Exception as e:
            escaped.append(repr(e))
            traceback.print_exc()

def drain():
    data = b''
    while True:
        try:
            chunk = srv.recv(65536)
        except (BlockingIOError, socket.error):
            break
        if not chunk:
            break
        data += chunk
    return data

def send(data):
    srv.sendall(data)
    time.sleep(0.05)
    pump()

def ping(token):
    drain()
    send(b'PING :' + token + b'\r\n')
    return (b'PONG :' + token + b'\r\n') in drain()

def alive():
    return drivers._drivers.get(NAME) is driver and driver.irc is irc \
        and irc.driver is driver and driver.connected

problems = []
def check(label):
    tok = ('t%d' % len(label)).encode() + str(time.time()).encode()
    ok_ping = ping(tok)
    if escaped:
        problems.append('%s: exception escaped drivers.run(): %s' % (label, escaped[-1]))
        del escaped[:]
    if not alive():
        problems.append('%s: driver no longer registered/connected' % label)
    if not ok_ping:
        problems.append('%s: PING not answered' % label)


EXPECT = {
    'parse': 'e1b1fad2ebc0a7b1db82',
    'tags': '7d7198d1dfee9c4944ef',
    'channel': '4019ce2d366b7e977002',
    'firewall': '7813b3e911b1da4f18b3',
    'state': '4fd1ef1eb695e0c39a75',
}
SHOW = '--record' in sys.argv
def digest(name, obj):
    h = hashlib.sha256(repr(obj).encode('utf-8', 'backslashreplace')).hexdigest()[:20]
    if SHOW:
        print('RECORD', name, h)
    elif EXPECT[name] != h:
        problems.append('oracle %r differs from the reference implementation '
                        '(%s != %s)' % (name, h, EXPECT[name]))

# ---------------------------------------------------------------- corpus
HAND = [
    b'', b' ', b'\r', b'\t\x0b\x0c', b'\xc2\xa0', b':', b': ', b':a', b':a ', b'@', b'@ ', b'@a', b'@a ',
    b'@a :p', b'@a :p ', b'@a :p C', b'@a=1;b;c= :p C x :y z', b'@=;=;;= C', b'@a=\\ C', b'@a=\\:\\s\\\\\\r\\n\\x C',
    b'@time C', b'@time= C', b'@time=\\ C', b'@time=2020 C', b'@time=2020-01-01T00:00:00.000Z C',
    b'@time=2020-01-01T00:00:00.000Z', b'@time=2020-01-01T00:00:00Z C', b'@time=2020-01-01T00:00:00.000+01:00 C',
    b'@time=0001-01-01T00:00:00.000Z C', b'@time=9999-12-31T23:59:59.999999Z C', b'@time=2020-13-01T00:00:00.000Z C',
    b'@time=2020-02-30T00:00:00.000Z C', b'@x;time=2021-06-01T12:00:00.5Z;y=z :n!u@h PRIVMSG #c :hi',
    b'@time=1;time=2020-01-01T00:00:00.000Z C', b'PING', b'PING :', b'PING x', b'PING :x y', b'PING x y :z',
    b'  PING   x  ', b':srv PING :x\r', b'\xff\xfe PING x', b'PING \xff\xfe', b'PING :\xe2\x82', b'\xe2\x82\xac',
    b':\xc3\xa9!\xc3\xa9@\xc3\xa9 PRIVMSG \xc3\xa9 :\xc3\xa9', b':n!u@h', b':n!u@h ', b':n!u@h  :', b':n!u@h :x',
    b':a@b!c PRIVMSG x', b':a!b PRIVMSG x', b':!@ PRIVMSG x', b':a!b@c!d@e PRIVMSG x', b':a!!@@ X', b'::: :::',
    b'001', b':srv 001', b':srv 001 :', b':srv 001 bot', b':srv 005', b':srv 005 bot', b':srv 005 bot :x',
    b':srv 005 bot CHANTYPES CHANNELLEN= PREFIX=(ov NICKLEN=abc MAXLIST=b MODES= STATUSMSG :are supported',
    b':srv 353', b':srv 353 bot', b':srv 353 bot = #c', b':srv 353 bot = #c :', b':srv 353 bot @ #c :@a +b c!d@e  ',
    b':srv 353 a b c d e f', b'MODE', b':n!u@h MODE #c', b':n!u@h MODE #c +ooo', b':n!u@h MODE #c +b-b+k',
    b':n!u@h MODE #c +l x', b':n!u@h MODE bot +i', b'KICK', b':n!u@h KICK #c', b':n!u@h KICK #c bot', b':n!u@h KICK #nope x,y',
    b'CAP', b'CAP *', b'CAP * LS', b'CAP * LS :', b'CAP * LS * :', b'CAP * LS * * :', b'CAP * ACK :', b'CAP * ACK', b'CAP * NAK :x',
    b'CAP * NEW', b'CAP * DEL :x=y', b'CAP * FOO :x', b'CAP * LIST :', b'AUTHENTICATE', b'AUTHENTICATE +', b'AUTHENTICATE :\xff',
    b'AUTHENTICATE ' + b'A' * 400, b':srv 903 bot :ok', b':srv 904 bot', b':srv 908', b':srv 43X bot', b':srv 433', b':srv 433 * bot :in use',
    b':n!u@h JOIN', b':n!u@h JOIN #c', b':bot!u@h JOIN #c,#d', b':n!u@h PART', b':bot!u@h PART #d', b':n!u@h QUIT', b':n!u@h NICK', b':n!u@h NICK :',
    b':bot!u@h NICK bot2', b':bot2!u@h NICK bot', b':n!u@h CHGHOST', b':bot!u@h CHGHOST a', b':srv 332 bot #nope :t', b':srv 332 bot', b':srv 329 bot #c x',
    b':srv 324 bot #c +lk', b':srv 367 bot #c', b':srv 352 bot', b':srv 354 bot 1 a b c d e f g', b':srv 315 bot', b':n!u@h TOPIC', b':n!u@h TOPIC #c',
    b'BATCH', b'BATCH x', b'BATCH +', b'BATCH +r', b'BATCH -nope', b'@batch=nope :n!u@h PRIVMSG #c :x', b':n!u@h AWAY', b'ERROR', b'ERROR :nothing special',
    b':n!u@h NOTICE bot :raise', b':n!u@h NOTICE @#c :raise', b':n!u@h PRIVMSG +#c :x', b':n!u@h PRIVMSG', b':n!u@h PRIVMSG :', b':n!u@h TAGMSG #c',
    b'FAIL', b'FAIL X', b'WARN * Y :z', b'NOTE', b':srv 421 bot FOO :Unknown command', b':srv 999 ' + b'x ' * 300, b'x' * 2000, b'\x00', b'PING \x00', b'PING :a\x00b',
    b':srv 002 bot :x', b':srv 002 bot :', b':srv 004 bot', b':srv 004 bot a', b':srv 004 bot a b c d e', b':srv 375 bot', b':srv 376 bot',
]
rng = random.Random(20260930)
ATOMS = [b' ', b' ', b' ', b':', b'@', b'!', b';', b'=', b'#', b',', b'+', b'-', b'*', b'\\', b'\r', b'\t', b'\x01', b'\x07',
         b'\xff', b'\xc3', b'\xa9', b'\xe2\x82\xac', b'\xf0\x9f\x98\x80', b'\xed\xa0\x80', b'%s', b'%', b'a', b'bot', b'srv', b'n!u@h',
         b'#c', b'PING', b'PRIVMSG', b'NOTICE', b'MODE', b'KICK', b'JOIN', b'CAP', b'LS', b'ACK', b'NEW', b'AUTHENTICATE', b'353', b'005', b'001',
         b'433', b'time', b'batch', b'label', b'2020-01-01T00:00:00.000Z', b'CHANTYPES', b'PREFIX=(ov)@+', b'sts', b'sasl', b'raise', b'0', b'-1', b'']
RANDOM = [b''.join(rng.choice(ATOMS) for _ in range(rng.randint(0, 12))) for _ in range(1500)]
CORPUS = HAND + RANDOM

# ---------------------------------------------------------------- (A) units
def parsed(raw):
    msg = drivers.parseMsg(decode_raw_line(raw))
    if msg is None:
        return None
    t = msg.time if 'time' in msg.server_tags else 'now'
    assert isinstance(msg.time, float)
    return (msg.prefix, msg.command, msg.args, sorted(msg.server_tags.items(), key=repr),
            msg.nick, msg.user, msg.host, t, str(msg))
digest('parse', [parsed(raw) for raw in CORPUS])
for raw in CORPUS:            # the two halves of the pipeline agree with the direct constructor
    text = decode_raw_line(raw)
    assert isinstance(text, str)
    try:
        direct = ircmsgs.IrcMsg(text.strip()) if text.strip() else None
    except ircmsgs.MalformedIrcMsg:
        direct = None
    via = drivers.parseMsg(text)
    if (direct is None) != (via is None) or (direct is not None and
            (direct.prefix, direct.command, direct.args, direct.server_tags) !=
            (via.prefix, via.command, via.args, via.server_tags)):
        problems.append('parseMsg disagrees with IrcMsg() on %r' % raw)
tagstrings = ['', ';', '=', '==', 'a', 'a=', 'a=b', 'a=b=c', 'a;a=1;a', '=v', 'a=\\', 'a=\\\\', 'a=\\:', 'a=\\s\\r\\n', 'a=\\q',
              'k1;k2=;k3=x y', '+draft/x=1;vendor.tld/y', 'time', 'time=', 'a=é', ';;a', 'a=;b=\\;c=\\\\\\']
tagstrings += [''.join(rng.choice(['a', 'b', ';', '=', '\\', ':', 's', 'r', 'n', ' ', '+', '/']) for _ in range(rng.randint(0, 10))) for _ in range(800)]
digest('tags', [sorted(ircmsgs._parse_server_tags(t).items(), key=repr) for t in tagstrings])

irc = irclib.Irc('test')
chan = []
def channels(label):
    P = lambda target, command='PRIVMSG': ircmsgs.IrcMsg(command=command, args=(target, 'x'))
    for m in [ircmsgs.IrcMsg(command='PING'), ircmsgs.IrcMsg(command='PING', args=('',)), P('#c'),
              P('@#c'), P('+@#c'), P('@+', 'NOTICE'), P(' #c'), P('#c d'), P('#c,#d'), P('#c\x07'), P('@#c', 'NOTICE'), P('+#c', 'TAGMSG'),
              P('bot'), ircmsgs.IrcMsg(command='MODE', args=('@#c', '+o')), ircmsgs.IrcMsg(command='JOIN', args=('&c,#d',)),
              ircmsgs.IrcMsg(command='JOIN', args=('&c',)), ircmsgs.IrcMsg(command='KICK', args=('!' + 'c' * 49, 'x')),
              ircmsgs.IrcMsg(command='KICK', args=('!' + 'c' * 50, 'x')), ircmsgs.IrcMsg(command='353', args=('bot', '=', '#c', 'a b'))]:
        m.channel = 'unset'
        irc._setMsgChannel(m)
        chan.append((label, m.command, m.args[:1], m.channel))
channels('default')
irc.state.supported['statusmsg'] = '@+'
channels('statusmsg')
conf.supybot.protocols.irc.strictRfc.setValue(True)
channels('strict')
conf.supybot.protocols.irc.strictRfc.setValue(False)
irc.state.supported['chantypes'] = None
irc.state.supported['channellen'] = None
irc.state.supported['statusmsg'] = None
channels('valueless tokens')
irc.state.supported['chantypes'] = '&'
irc.state.supported['channellen'] = 2
channels('chantypes &')
irc.state.supported.clear()
digest('channel', chan)

calls = []
real_exception = log.exception
class OwnLog(object):
    def exception(self, *args):
        calls.append(('own',) + args)
class Box(log.Firewalled):
    __firewalled__ = {'plain': None, 'handled': lambda self, *a, **k: ('handler', a, sorted(k.items())),
                      'badhandler': lambda self, *a, **k: 1 // 0, 'fine': None, 'base': None}
    def plain(self, x): raise KeyError(x)
    def handled(self, x, y=2): raise ValueError(x)
    def badhandler(self): raise RuntimeError('first')
    def fine(self, x): return ('fine', x)
    def base(self): raise SystemExit(3)
class Loud(Box):
    log = OwnLog()
    def plain(self, x): raise IndexError(x)
fw = []
log.exception = lambda *args: calls.append(('main',) + args)
try:
    for cls in (Box, Loud):
        b = cls()
        fw.append((cls.__name__, b.plain(1), b.handled('%s', y=3), b.badhandler(), b.fine(4), b.plain.__name__, b.plain.__doc__))
        try:
            b.base()
            fw.append('base swallowed')
        except SystemExit as e:
            fw.append(('base passed', e.code))
    log.testing = True
    try:
        Box().plain(5)
        fw.append('testing swallowed')
    except KeyError as e:
        fw.append(('testing raised', e.args))
    finally:
        log.testing = False
finally:
    log.exception = real_exception
fw.append(calls)
digest('firewall', fw)
assert Box().plain('%s %r') is None      # and with the real logger

# ---------------------------------------------------------------- (B) end to end
irc.addCallback(type('Faulty', (irclib.IrcCallback,), {
    'doNotice': lambda self, irc, msg: 1 // 0 if 'raise' in msg.args[-1] else None,
    'inFilter': lambda self, irc, msg: 1 // 0 if msg.command == 'TAGMSG' else msg,
    'do353': lambda self, irc, msg: {}[msg.args[9]]})())
driver = drivers.newDriver(irc)
NAME = driver.name()
(srv, _) = lsock.accept()
srv.setblocking(False)
pump()
check('baseline')
send(b':srv 001 bot :Welcome\r\n:srv 376 bot :End of MOTD\r\n')
drain()
stream = b''
tokens = []
order = list(CORPUS)
rng.shuffle(order)
for (i, raw) in enumerate(order):
    if b'\n' in raw or raw.upper().startswith(b'ERROR') or b'sts' in raw:
        continue                     # keep this run on one connection
    stream += raw + rng.choice([b'\r\n', b'\n', b'\r\n', b'\r\r\n'])
    if i % 25 == 0:
        tok = b'tok%d' % i
        tokens.append(tok)
        stream += rng.choice([b'', b':srv ', b'@a=b ', b'@time=2020-01-01T00:00:00.000Z :srv ']) + b'PING :' + tok + b'\r\n'
answers = b''
pos = 0
sizes = [1, 2, 3, 5, 7, 64, 500, 1023, 1024, 1024, 1025, 2048, 4096]
while pos < len(stream):
    n = rng.choice(sizes)
    srv.sendall(stream[pos:pos + n])
    pos += n
    time.sleep(0.002)
    pump(3)
    answers += drain()
pump(10)
answers += drain()
got = [line[6:] for line in answers.split(b'\r\n') if line.startswith(b'PONG :tok')]
if got != tokens:
    problems.append('end to end: PINGs answered %r, expected %r' % (got[:5] + ['...'], tokens[:5] + ['...']))
if driver.inbuffer != b'':
    problems.append('end to end: %r left in the input buffer' % driver.inbuffer)
check('after the hostile stream')
digest('state', (irc.nick, irc.prefix, irc.server, sorted(irc.state.channels.keys()),
                 sorted((k, sorted(v.users), sorted(v.ops), v.topic, sorted(v.modes.items()))
                        for (k, v) in irc.state.channels.items()),
                 sorted(irc.state.supported.items(), key=repr), sorted(irc.state.capabilities_ls.items(), key=repr),
                 sorted(irc.state.nicksToHostmasks.items())))

# a line cut inside a multi-byte character, and an unterminated line kept for later
drain()
for piece in (b':n!u@h PRIVMSG #c :caf\xc3', b'\xa9 \xe2\x82', b'\xac\r', b'\nPING :spl', b'it'):
    srv.sendall(piece); time.sleep(0.02); pump(3)
if b'PONG :split' in drain() or driver.inbuffer != b'PING :split':
    problems.append('partial line: answered early or buffer is %r' % driver.inbuffer)
last = [m for m in irc.state.history if m.command == 'PRIVMSG'][-1]
if last.args != ('#c', 'café €'):
    problems.append('split multi-byte characters decoded as %r' % (last.args,))
send(b'\n')
if b'PONG :split\r\n' not in drain():
    problems.append('partial line: not answered once completed')

# lines that follow the one that made us reconnect belong to the old connection
driver.currentDelay = 0.2
conn = driver.conn
send(b'PING :before\r\nERROR :Closing link: bye\r\nPING :after\r\n:srv 001 other :x\r\nPING :tail-without-newline')
lsock.settimeout(3)
try:
    (srv2, _) = lsock.accept()
except socket.timeout:
    srv2 = None
if srv2 is None or driver.conn is conn:
    problems.append('ERROR :Closing link did not reconnect')
else:
    old = drain()
    srv = srv2
    srv.setblocking(False)
    time.sleep(0.05); pump()
    new = drain()
    if b'PONG :after' in old + new or b'PONG :tail' in old + new or irc.nick != 'bot' or driver.inbuffer != b'':
        problems.append('lines after the reconnecting one were processed: %r %r %r' % (old, new, driver.inbuffer))
    if not new.startswith(b'CAP LS :302\r\nNICK :bot\r\nUSER '):
        problems.append('new connection does not start with the registration: %r' % new)
    check('after reconnection')

if problems:
    print('FAIL')
    for p in problems:
        print('  ' + p)
    code = 1
else:
    print('PASS')
    code = 0
sys.stdout.flush()
import shutil; shutil.rmtree(TMP, ignore_errors=True)
os._exit(code)
