#!/usr/bin/env python
"""Equivalence demo for the C17 controls (atomic flushes of the databases and
of the configuration).

It drives utils.file.AtomicFile, the four ircdb databases, registry.close /
open_registry, world.flush and dbi.FlatfileMapping through normal, edge and
error paths, with and without tmp/backup directories, while recording

  * every file-system operation performed below the scratch directory
    (open, write, flush, seek, truncate, close, replace/rename, remove,
    copy, copy2, move, getsize, exists, mkdir/makedirs), in order, with
    arguments,
  * the state of the whole scratch directory before and after each of those
    operations during a flush (i.e. what a crash at that instant leaves),
  * return values, exceptions (class and message), log calls (level, raw
    format string, arguments) and the final bytes of every file,

and compares a digest of all of it with the one recorded on the unmodified
tree.  It also checks the property itself on every intermediate state: the
target file is, in its entirety, the old or the new version.
"""
import os
import sys

if os.environ.get('PYTHONHASHSEED') != '0':
    # Sets are written in iteration order: make that order reproducible.
    env = dict(os.environ)
    env['PYTHONHASHSEED'] = '0'
    os.execve(sys.executable, [sys.executable] + sys.argv, env)

import re
import io
import json
import time
import codecs
import shutil
import hashlib
import builtins
import tempfile
import traceback

EXPECTED = '41faa6e2f94182dd706cf82978eafc7902b33dae6994a2a5d26f6dfb9b148ac3'

ROOT = os.path.dirname(os.path.dirname(os.path.dirname(os.path.abspath(__file__))))
sys.path.insert(0, ROOT)
os.chdir(ROOT)

T = tempfile.mkdtemp(prefix='c17demo')
T = os.path.realpath(T)

EVENTS = []          # everything observable, in order
FAILURES = []        # violations of the property itself
RECORDING = [False]  # record fs operations only inside scenarios
SNAPSHOTS = [False]  # take a directory snapshot around every fs operation
WATCH = [None]       # the file whose intermediate states are checked
INITIAL = [None]     # its content when the scenario started
OBSERVED = []        # (label, content) seen during the scenario

FAKE_NOW = 1700000000.75
real_time = time.time

_token = re.compile(r'[0-9a-f]{40}')
_address = re.compile(r' at 0x[0-9a-f]+')


def norm(x):
    """Makes a value JSON-able and independent of the scratch directory."""
    if isinstance(x, bytes):
        return 'b:' + norm(x.decode('latin1'))
    if isinstance(x, str):
        return _address.sub('', _token.sub('<R>', x.replace(T, '<T>')))
    if isinstance(x, (int, float, bool)) or x is None:
        return repr(x)
    if isinstance(x, (list, tuple)):
        return [norm(y) for y in x]
    if isinstance(x, dict):
        return [[norm(k), norm(v)] for (k, v) in x.items()]
    if isinstance(x, (set, frozenset)):
        return ['set'] + [norm(y) for y in x]  # iteration order on purpose
    if isinstance(x, BaseException):
        return ['exn', x.__class__.__name__, norm(x.args)]
    return norm(repr(x))


def ev(*args):
    EVENTS.append(norm(args))


def inside(path):
    try:
        path = os.fspath(path)
    except TypeError:
        return False
    if isinstance(path, bytes):
        path = path.decode()
    return os.path.abspath(path).startswith(T)


def tree():
    """(normalized relative name, bytes) of every file below T, sorted."""
    result = []
    for (dirpath, dirnames, filenames) in os.walk(T):
        if dirpath == T and 'logs' in dirnames:
            dirnames.remove('logs')  # timestamps
        dirnames.sort()
        for name in sorted(filenames):
            full = os.path.join(dirpath, name)
            try:
                with real_open(full, 'rb') as fd:
                    data = fd.read()
            except EnvironmentError as e:
                data = b'<unreadable %s>' % e.__class__.__name__.encode()
            result.append((norm(full), data.replace(T.encode(), b'<T>')))
        if not dirnames and not filenames:
            result.append((norm(dirpath) + '/', b''))
    result.sort()
    return result


def snapshot(label):
    if not SNAPSHOTS[0]:
        return
    t = tree()
    h = hashlib.sha256()
    for (name, data) in t:
        h.update(name.encode() + b'\0' + hashlib.sha256(data).digest())
    ev('state', label, h.hexdigest()[:16])
    if WATCH[0] is not None:
        try:
            with real_open(WATCH[0], 'rb') as fd:
                data = fd.read()
        except FileNotFoundError:
            data = None
        if not OBSERVED or OBSERVED[-1][1] != data:
            OBSERVED.append((label, data))


def op(name, *args):
    """Decorator-less wrapper: records the operation and the states around."""
    ev('fs', name, *args)


real_open = builtins.open


class FileProxy(object):
    """Records what is done to a file opened below T."""
    def __init__(self, fd, path):
        object.__setattr__(self, '_p_fd', fd)
        object.__setattr__(self, '_p_path', path)

    def _rec(self, name, *args):
        if RECORDING[0]:
            snapshot('before %s' % name)
            ev('fs', name, self._p_path, *args)

    def _after(self, name):
        if RECORDING[0]:
            snapshot('after %s' % name)

    def write(self, data):
        self._rec('write', data)
        try:
            return self._p_fd.write(data)
        finally:
            self._after('write')

    def writelines(self, lines):
        lines = list(lines)
        self._rec('writelines', lines)
        try:
            return self._p_fd.writelines(lines)
        finally:
            self._after('writelines')

    def flush(self):
        self._rec('flush')
        try:
            return self._p_fd.flush()
        finally:
            self._after('flush')

    def truncate(self, *args):
        self._rec('truncate', *args)
        try:
            return self._p_fd.truncate(*args)
        finally:
            self._after('truncate')

    def seek(self, *args):
        self._rec('seek', *args)
        return self._p_fd.seek(*args)

    def close(self):
        if not self._p_fd.closed:
            self._rec('close')
            try:
                return self._p_fd.close()
            finally:
                self._after('close')
        return self._p_fd.close()

    def __iter__(self):
        return iter(self._p_fd)

    def __next__(self):
        return next(self._p_fd)

    def __enter__(self):
        self._p_fd.__enter__()
        return self

    def __exit__(self, *args):
        self.close()

    def __getattr__(self, name):
        return getattr(self._p_fd, name)

    def __setattr__(self, name, value):
        setattr(self._p_fd, name, value)


def patched_open(file, mode='r', *args, **kwargs):
    if not (RECORDING[0] and isinstance(file, (str, bytes)) and inside(file)):
        return real_open(file, mode, *args, **kwargs)
    snapshot('before open')
    ev('fs', 'open', file, mode, args, kwargs)
    try:
        fd = real_open(file, mode, *args, **kwargs)
    except BaseException as e:
        ev('fs', 'open failed', e)
        raise
    finally:
        snapshot('after open')
    return FileProxy(fd, norm(file))


builtins.open = patched_open
io.open = patched_open


def wrap(module, name, paths=1):
    real = getattr(module, name)
    label = '%s.%s' % (module.__name__, name)

    def wrapper(*args, **kwargs):
        if not (RECORDING[0] and any(inside(a) for a in args[:paths])):
            return real(*args, **kwargs)
        mutating = name not in ('getsize', 'exists')
        if mutating:
            snapshot('before %s' % label)
        try:
            result = real(*args, **kwargs)
        except BaseException as e:
            ev('fs', label, args, kwargs, 'raised', e)
            raise
        else:
            ev('fs', label, args, kwargs, 'returned', result)
            return result
        finally:
            if mutating:
                snapshot('after %s' % label)
    wrapper.real = real
    setattr(module, name, wrapper)
    return real


real_replace = wrap(os, 'replace', 2)
wrap(os, 'rename', 2)
wrap(os, 'remove')
wrap(os, 'unlink')
wrap(os, 'mkdir')
wrap(os, 'makedirs')
wrap(os.path, 'getsize')
wrap(os.path, 'exists')
wrap(shutil, 'copy', 2)
wrap(shutil, 'copy2', 2)
wrap(shutil, 'copyfile', 2)
wrap(shutil, 'move', 2)

###
# Bootstrap the bot's configuration in the scratch directory.
###
for d in ('conf', 'data', 'data/tmp', 'backup', 'logs', 'work', 'alt-tmp',
          'alt-backup'):
    os.makedirs(os.path.join(T, d))
with real_open(os.path.join(T, 'boot.conf'), 'w') as fd:
    fd.write('supybot.directories.conf: %s\n' % os.path.join(T, 'conf'))
    fd.write('supybot.directories.data: %s\n' % os.path.join(T, 'data'))
    fd.write('supybot.directories.data.tmp: %s\n'
             % os.path.join(T, 'data', 'tmp'))
    fd.write('supybot.directories.backup: %s\n' % os.path.join(T, 'backup'))
    fd.write('supybot.directories.log: %s\n' % os.path.join(T, 'logs'))
    fd.write('supybot.log.stdout: False\n')
    fd.write('supybot.log.level: CRITICAL\n')

import supybot
assert os.path.realpath(os.path.dirname(supybot.__file__)) == \
    os.path.realpath(os.path.join(ROOT, 'src')), supybot.__file__
from supybot import registry
registry.open_registry(os.path.join(T, 'boot.conf'))
from supybot import conf, log, utils, world, ircutils
from supybot import ircdb, dbi, unpreserve
import supybot.utils.file as ufile

AtomicFile = ufile.AtomicFile

###
# Log calls: level, raw format, arguments.
###
for level in ('debug', 'info', 'warning', 'error', 'critical', 'exception'):
    def make(level):
        def logger(fmt, *args, **kwargs):
            kwargs.pop('exc_info', None)
            ev('log', level, fmt, args, kwargs)
        return logger
    setattr(log, level, make(level))

registry_messages = []
def _registry_exception(s):
    ev('registry.exception', s)
def _registry_error(s):
    ev('registry.error', s)
registry.exception = _registry_exception
registry.error = _registry_error


class scenario(object):
    """Context manager: names a scenario, freezes the clock, records fs
    operations, catches and records whatever escapes."""
    def __init__(self, name, snapshots=False, watch=None):
        self.name = name
        self.snapshots = snapshots
        self.watch = watch

    def __enter__(self):
        ev('scenario', self.name)
        time.time = lambda: FAKE_NOW
        RECORDING[0] = True
        SNAPSHOTS[0] = self.snapshots
        WATCH[0] = self.watch
        del OBSERVED[:]
        if self.watch is not None:
            INITIAL[0] = get(self.watch)
        return self

    def __exit__(self, exc_type, exc_value, tb):
        import gc
        tb = None
        gc.collect()
        RECORDING[0] = False
        SNAPSHOTS[0] = False
        if WATCH[0] is not None:
            # The property: whenever we might have died, the file was, in its
            # entirety, the version before or the version after.
            final = get(WATCH[0])
            allowed = [INITIAL[0], final]
            if INITIAL[0] is None:
                allowed.append(b'')  # the writability test creates it
            for (label, data) in OBSERVED:
                if data not in allowed:
                    FAILURES.append('%s: torn %s at %s: %r' % (
                        self.name, norm(WATCH[0]), label, data))
            ev('watched', len(OBSERVED))
        WATCH[0] = None
        time.time = real_time
        if exc_type is not None:
            if not issubclass(exc_type, Exception):
                return False
            ev('escaped', exc_value)
        ev('end', self.name, tree())
        return True


def work(name):
    return os.path.join(T, 'work', name)


def put(path, data):
    with real_open(path, 'wb') as fd:
        fd.write(data)


def get(path):
    try:
        with real_open(path, 'rb') as fd:
            return fd.read()
    except FileNotFoundError:
        return None


def clean_work():
    for d in ('work', 'data/tmp', 'backup', 'alt-tmp', 'alt-backup', 'conf'):
        full = os.path.join(T, d)
        shutil.rmtree(full)
        os.makedirs(full)


def reset_defaults():
    AtomicFile.default.tmpDir = conf.supybot.directories.data.tmp
    AtomicFile.default.backupDir = conf.supybot.directories.backup
    AtomicFile.default.makeBackupIfSmaller = True
    AtomicFile.default.allowEmptyOverwrite = True
    conf.supybot.directories.data.tmp.setValue(os.path.join(T, 'data', 'tmp'))
    conf.supybot.directories.backup.setValue(os.path.join(T, 'backup'))


###
# 1. AtomicFile itself.
###
SIZES = {'none': None, 'empty': b'', 'small': b'old\n', 'large': b'O' * 5000}
NEW = {'empty': '', 'small': 'new line\n', 'large': 'N' * 9000 + '\n',
       'unicode': 'caf\xe9 \u2603\n'}


def atomic_case(old, new, mode, tmpDir, backupDir, backupIfSmaller,
                allowEmpty, how):
    clean_work()
    target = work('target.db')
    if SIZES[old] is not None:
        put(target, SIZES[old])
    data = NEW[new]
    encoded = data.encode('utf8')
    name = 'atomic %s' % ((old, new, mode, tmpDir, backupDir,
                           backupIfSmaller, allowEmpty, how),)
    kwargs = {}
    if tmpDir == 'given':
        kwargs['tmpDir'] = os.path.join(T, 'alt-tmp')
    elif tmpDir == 'none':
        AtomicFile.default.tmpDir = None
    elif tmpDir == 'callable':
        AtomicFile.default.tmpDir = lambda: os.path.join(T, 'alt-tmp')
    if backupDir == 'given':
        kwargs['backupDir'] = os.path.join(T, 'alt-backup')
    elif backupDir == 'none':
        AtomicFile.default.backupDir = None
    elif backupDir == 'devnull':
        conf.supybot.directories.backup.setValue('/dev/null')
    if backupIfSmaller is not None:
        kwargs['makeBackupIfSmaller'] = backupIfSmaller
    if allowEmpty is not None:
        kwargs['allowEmptyOverwrite'] = allowEmpty
    with scenario(name, snapshots=True, watch=target):
        fd = AtomicFile(target, mode, **kwargs)
        ev('attrs', fd.filename, fd.tempFilename, fd.backupDir,
           fd.makeBackupIfSmaller, fd.allowEmptyOverwrite, fd.rolledback,
           fd.closed, sorted(vars(fd)))
        payload = encoded if mode == 'wb' else data
        if how == 'lines':
            ev('ret', fd.writelines([payload[:3], payload[3:]]))
        else:
            half = len(payload) // 2
            ev('ret', fd.write(payload[:half]))
            ev('ret', fd.flush())
            ev('ret', fd.tell())
            ev('ret', fd.write(payload[half:]))
        if how == 'rollback':
            ev('ret', fd.rollback())
            ev('attrs', fd.rolledback, fd.closed)
            ev('ret', fd.rollback())
            try:
                fd.close()
            except Exception as e:
                ev('raised', e)
        elif how == 'with-error':
            try:
                with fd as same:
                    ev('same', same is fd)
                    raise KeyError('boom')
            except KeyError as e:
                ev('raised', e)
            ev('attrs', fd.rolledback, fd.closed)
        elif how == 'with':
            with fd as same:
                ev('same', same is fd)
            ev('attrs', fd.rolledback, fd.closed)
        elif how == 'del':
            del fd
        elif how == 'xdev':
            # The temporary file "is on another file system".
            wrapper = os.replace
            def failing(src, dst, *args, **kwargs):
                if os.path.dirname(src) != os.path.dirname(dst):
                    ev('fs', 'os.replace EXDEV', src, dst)
                    raise OSError(18, 'Invalid cross-device link')
                return wrapper(src, dst, *args, **kwargs)
            os.replace = failing
            try:
                ev('ret', fd.close())
            finally:
                os.replace = wrapper
        elif how == 'twice':
            ev('ret', fd.close())
            try:
                ev('ret', fd.close())
            except Exception as e:
                ev('raised', e)
            ev('ret', fd.rollback())
        else:
            ev('ret', fd.close())
            ev('attrs', fd.rolledback, fd.closed)
    reset_defaults()


def atomic_scenarios():
    # The full cross product of sizes, with the default configuration.
    for old in ('none', 'empty', 'small', 'large'):
        for new in ('empty', 'small', 'large'):
            for allowEmpty in (None, False):
                atomic_case(old, new, 'w', 'default', 'default', None,
                            allowEmpty, 'close')
    # tmp and backup directories.
    for tmpDir in ('default', 'given', 'none', 'callable'):
        for backupDir in ('default', 'given', 'none', 'devnull'):
            for backupIfSmaller in (None, False):
                atomic_case('large', 'small', 'w', tmpDir, backupDir,
                            backupIfSmaller, None, 'close')
            atomic_case('small', 'large', 'w', tmpDir, backupDir, None, None,
                        'close')
    # Ways of ending.
    for how in ('lines', 'rollback', 'with', 'with-error', 'del', 'xdev',
                'twice'):
        for tmpDir in ('default', 'none'):
            atomic_case('large', 'small', 'w', tmpDir, 'default', None, None,
                        how)
            atomic_case('none', 'small', 'w', tmpDir, 'none', None, False,
                        how)
    atomic_case('small', 'unicode', 'w', 'default', 'default', None, None,
                'close')
    atomic_case('large', 'unicode', 'wb', 'given', 'given', None, None,
                'close')
    atomic_case('large', 'empty', 'wb', 'none', 'none', True, False, 'xdev')
    atomic_case('large', 'empty', 'wb', 'none', 'none', True, True, 'twice')
    # Errors.
    clean_work()
    for (mode, kwargs) in [('a', {}), ('r', {}), ('w+', {}), ('wt', {}),
                           ('rb', {'tmpDir': os.path.join(T, 'nowhere')})]:
        with scenario('atomic bad mode %s' % mode):
            AtomicFile(work('x'), mode, **kwargs)
    with scenario('atomic missing tmpDir'):
        AtomicFile(work('x'), tmpDir=os.path.join(T, 'nowhere'))
    with scenario('atomic missing directory'):
        AtomicFile(os.path.join(T, 'nowhere', 'x'), tmpDir=None)
    with scenario('atomic target is a directory', snapshots=True):
        os.mkdir(work('adir'))
        fd = AtomicFile(work('adir'))
        fd.write('x')
        try:
            fd.close()
        except Exception as e:
            ev('raised', e.__class__.__name__)
        ev('attrs', fd.rolledback, fd.closed)
    clean_work()
    with scenario('atomic missing backupDir', snapshots=True):
        put(work('t'), b'a long enough old version\n')
        fd = AtomicFile(work('t'), backupDir=os.path.join(T, 'nowhere'))
        fd.write('x')
        try:
            fd.close()
        except Exception as e:
            ev('raised', e.__class__.__name__)
        ev('now', get(work('t')))
    clean_work()
    with scenario('atomic unencodable', snapshots=True):
        put(work('t'), b'old\n')
        fd = AtomicFile(work('t'), encoding='ascii')
        fd.write('fine\n')
        try:
            fd.write('caf\xe9\n')
        except Exception as e:
            ev('raised', e.__class__.__name__)
        fd.rollback()
        ev('now', get(work('t')))
    with scenario('atomic encoding given', snapshots=True):
        fd = AtomicFile(work('t'), encoding='latin1')
        fd.write('caf\xe9\n')
        fd.close()
        ev('now', get(work('t')))
    clean_work()
    with scenario('other helpers'):
        ev('ret', ufile.sanitizeName('a/b'), ufile.sanitizeName('.'),
           ufile.sanitizeName('..'))
        ufile.touch(work('touched'))
        fd = open(work('lines'), 'w')
        ufile.writeLine(fd, 'one')
        ufile.writeLine(fd, 'two\n')
        ufile.writeLine(fd, '# three')
        ufile.writeLine(fd, '   ')
        fd.close()
        ev('ret', ufile.readLines(work('lines')))
        ev('ret', ufile.contents(work('lines')))
        with open(work('lines')) as fd:
            ev('ret', list(ufile.nonCommentNonEmptyLines(fd)))
        with open(work('lines')) as fd:
            ev('ret', list(ufile.chunks(fd, 3)))
        ev('ret', len(ufile.mktemp()), ufile.mktemp('.suffix')[-7:])
        try:
            ufile.open_mkdir(work('sub/dir/file'), 'r')
        except ValueError as e:
            ev('raised', e)
        fd = ufile.open_mkdir(work('sub/dir/file'), 'w')
        fd.write('x')
        fd.close()


###
# 2. ircdb.
###
def reset_creators():
    ev('creators', ircdb.IrcUserCreator.u, ircdb.IrcChannelCreator.name,
       ircdb.IrcNetworkCreator.name)
    ircdb.IrcUserCreator.u = None
    ircdb.IrcChannelCreator.name = None
    ircdb.IrcNetworkCreator.name = None


def make_users(db, n, big=False):
    for i in range(1, n + 1):
        u = ircdb.IrcUser(hashed=True)
        u.id = i
        u.name = 'User%s[x]' % i
        if i % 2:
            u.hashed = bool(i % 4 == 1)
            u.password = 'salt%s|%s' % (i, hashlib.sha1(b'%d' % i).hexdigest())
        if i % 3 == 0:
            u.secure = True
        if i % 4 == 0:
            u.ignore = True
        u.addCapability('cap%s' % i)
        u.addCapability('-anti%s' % i)
        if i == 1:
            u.addCapability('owner')
        u.addHostmask('nick%s!user@host%s.example' % (i, i))
        u.addHostmask('*!*@ip%s.example' % i)
        if i % 2 == 0:
            u.nicks['NetA'] = ['Nick%s' % i, 'alt{%s}' % i]
            u.nicks['netb'] = ['n%s' % i]
            u.gpgkeys.append('0xDEADBEEF%s' % i)
        if big:
            for j in range(40):
                u.addCapability('plugin%s.command%s' % (i, j))
        db.users[i] = u
        db.nextId = max(db.nextId, i)


def dump_users(db):
    out = []
    for (id, u) in sorted(db.users.items()):
        out.append((id, u.name, u.ignore, u.secure, u.hashed, u.password,
                    list(u.capabilities), list(u.hostmasks),
                    sorted(u.nicks.items()), list(u.gpgkeys)))
    return out


def users_scenarios(tmp):
    clean_work()
    filename = os.path.join(T, 'conf', 'users.conf')
    if tmp == 'none':
        AtomicFile.default.tmpDir = None
        AtomicFile.default.backupDir = None
    elif tmp == 'devnull':
        conf.supybot.directories.backup.setValue('/dev/null')
    db = ircdb.UsersDictionary()
    with scenario('users %s: flush without filename' % tmp):
        ev('ret', db.flush())
        ev('ret', db.reload())
    with scenario('users %s: open missing file' % tmp):
        ev('ret', db.open(filename))
        ev('attrs', db.filename, db.noFlush)
    reset_creators()
    make_users(db, 3)
    with scenario('users %s: first flush' % tmp, snapshots=True,
                  watch=filename):
        ev('ret', db.flush())
    first = get(filename)
    make_users(db, 7, big=True)
    with scenario('users %s: larger flush' % tmp, snapshots=True,
                  watch=filename):
        ev('ret', db.flush())
    larger = get(filename)
    with scenario('users %s: larger flush again, watched' % tmp,
                  snapshots=True, watch=filename):
        ev('ret', db.flush())
    with scenario('users %s: noFlush' % tmp):
        db.noFlush = True
        ev('ret', db.flush())
        db.noFlush = False
    for i in (4, 5, 6, 7):
        del db.users[i]
    db.users[2].capabilities = ircdb.UserCapabilitySet()
    with scenario('users %s: smaller flush (backup)' % tmp, snapshots=True,
                  watch=filename):
        ev('ret', db.flush())
    smaller = get(filename)
    ev('sizes', len(first), len(larger), len(smaller))
    with scenario('users %s: xdev flush' % tmp, snapshots=True,
                  watch=filename):
        wrapper = os.replace
        def failing(src, dst, *args, **kwargs):
            if os.path.dirname(src) != os.path.dirname(dst):
                raise OSError(18, 'Invalid cross-device link')
            return wrapper(src, dst, *args, **kwargs)
        os.replace = failing
        try:
            ev('ret', db.flush())
        finally:
            os.replace = wrapper
    with scenario('users %s: reload' % tmp, snapshots=True,
                  watch=filename):
        ev('ret', db.reload())
        ev('users', dump_users(db), db.nextId, db.noFlush)
    reset_creators()
    with scenario('users %s: newUser, setUser, delUser' % tmp):
        u = db.newUser()
        u.name = 'fresh'
        u.addHostmask('fresh!fresh@fresh.example')
        ev('ret', db.setUser(u))
        u2 = db.newUser()
        u2.name = 'FRESH'
        try:
            db.setUser(u2)
        except Exception as e:
            ev('raised', e)
        u2.name = 'line\nbreak'
        try:
            db.setUser(u2)
        except Exception as e:
            ev('raised', e)
        ev('ret', db.delUser(u2.id))
        ev('ret', db.setUser(u, flush=False))
        ev('users', dump_users(db), db.nextId)
    with scenario('users %s: a second instance loads the file' % tmp):
        db2 = ircdb.UsersDictionary()
        ev('ret', db2.open(filename))
        ev('users', dump_users(db2) == dump_users(db), db2.nextId)
    reset_creators()
    with scenario('users %s: flush failing in the middle' % tmp,
                  snapshots=True, watch=filename):
        class Broken(ircdb.IrcUser):
            def preserve(self, fd, indent=''):
                fd.write(indent + 'name half\n')
                raise IOError(28, 'No space left on device')
        b = Broken()
        db.users[2] = b
        try:
            db.flush()
        except Exception as e:
            ev('raised', e)
        del b, db.users[2]
    with scenario('users %s: corrupted file' % tmp):
        put(filename, b'user 1\n  name foo\n  bogus line\n\nuser 2\n  name b\n')
        db3 = ircdb.UsersDictionary()
        ev('ret', db3.open(filename))
        ev('users', dump_users(db3), db3.noFlush, get(filename))
    reset_creators()
    with scenario('users %s: unreadable file' % tmp):
        os.remove(filename)
        os.mkdir(filename)
        db4 = ircdb.UsersDictionary()
        ev('ret', db4.open(filename))
        ev('ret', db4.reload())
        ev('attrs', db4.noFlush)
        os.rmdir(filename)
    reset_creators()
    with scenario('users %s: close' % tmp, snapshots=True):
        world.flushers.append(db.flush)
        ev('ret', db.close())
        ev('attrs', db.flush in world.flushers, len(db.users))
        ev('ret', db.close())
    reset_defaults()


def make_channels(db):
    for (i, name) in enumerate(['#Foo', '#foo[bar]', '&LOCAL', '#zzz',
                                '#\xe9t\xe9']):
        c = ircdb.IrcChannel()
        c.lobotomized = bool(i % 2)
        c.defaultAllow = not (i % 3 == 0)
        c.addCapability('op')
        c.addCapability('-voice')
        c.addCapability('plugin.cmd%s' % i)
        c.bans['*!*@bad%s.example' % i] = 0
        c.bans['*!*@later%s.example' % i] = 2000000000 + i
        c.bans['*!*@sooner%s.example' % i] = 1900000000 - i
        c.ignores['idiot%s!*@*' % i] = 0
        c.ignores['IDIOT%s!*@*' % i] = 1800000000
        db.channels[name] = c


def dump_channels(db):
    return [(name, c.lobotomized, c.defaultAllow, list(c.capabilities),
             list(c.bans.items()), list(c.ignores.items()))
            for (name, c) in db.channels.items()]


def channels_scenarios(tmp):
    clean_work()
    filename = os.path.join(T, 'conf', 'channels.conf')
    if tmp == 'none':
        AtomicFile.default.tmpDir = None
        AtomicFile.default.backupDir = None
    db = ircdb.ChannelsDictionary()
    with scenario('channels %s: no filename' % tmp):
        ev('ret', db.flush())
        ev('ret', db.reload())
    with scenario('channels %s: open missing' % tmp):
        ev('ret', db.open(filename))
        ev('attrs', db.filename, db.noFlush)
    reset_creators()
    make_channels(db)
    with scenario('channels %s: first flush' % tmp, snapshots=True,
                  watch=filename):
        ev('ret', db.flush())
    first = get(filename)
    with scenario('channels %s: noFlush' % tmp):
        db.noFlush = True
        ev('ret', db.flush())
        db.noFlush = False
    with scenario('channels %s: setChannel/getChannel' % tmp, snapshots=True,
                  watch=filename):
        c = db.getChannel('#NEW{chan}')
        c.addBan('x!y@z', 123456)
        ev('ret', db.setChannel('#NEW{chan}', c))
    second = get(filename)
    del db.channels['#zzz']
    del db.channels['&LOCAL']
    with scenario('channels %s: smaller flush' % tmp, snapshots=True,
                  watch=filename):
        ev('ret', db.flush())
    third = get(filename)
    with scenario('channels %s: same again, watched' % tmp, snapshots=True,
                  watch=filename):
        ev('ret', db.flush())
    ev('sizes', len(first), len(second), len(third))
    with scenario('channels %s: reload' % tmp, snapshots=True,
                  watch=filename):
        ev('ret', db.reload())
        ev('channels', dump_channels(db), db.noFlush)
    reset_creators()
    with scenario('channels %s: corrupted' % tmp):
        put(filename, b'channel #a\n  lobotomized False\n  ban onlyone\n\n')
        db2 = ircdb.ChannelsDictionary()
        ev('ret', db2.open(filename))
        ev('channels', dump_channels(db2), db2.noFlush, get(filename))
    reset_creators()
    with scenario('channels %s: unreadable' % tmp):
        os.remove(filename)
        os.mkdir(filename)
        db3 = ircdb.ChannelsDictionary()
        ev('ret', db3.open(filename))
        ev('ret', db3.reload())
        os.rmdir(filename)
    reset_creators()
    with scenario('channels %s: close' % tmp, snapshots=True):
        world.flushers.append(db.flush)
        ev('ret', db.close())
        ev('attrs', db.flush in world.flushers, len(db.channels))
    reset_defaults()


def networks_scenarios(tmp):
    clean_work()
    filename = os.path.join(T, 'conf', 'networks.conf')
    if tmp == 'none':
        AtomicFile.default.tmpDir = None
        AtomicFile.default.backupDir = None
    db = ircdb.NetworksDictionary()
    with scenario('networks %s: no filename' % tmp):
        ev('ret', db.flush())
        ev('ret', db.reload())
    with scenario('networks %s: open missing' % tmp):
        ev('ret', db.open(filename))
    reset_creators()
    for (i, name) in enumerate(['LiberaChat', 'oftc', 'Net[1]', 'empty']):
        net = db.getNetwork(name)
        if name != 'empty':
            net.addStsPolicy('irc%s.example' % i, 'duration=%s,port=6697' % i)
            net.addStsPolicy('Alt%s.example' % i, 'duration=1')
            net.lastDisconnectTimes['irc%s.example' % i] = 1700000000 - i
            net.lastDisconnectTimes['a%s.example' % i] = 1600000000 + i
    with scenario('networks %s: first flush' % tmp, snapshots=True,
                  watch=filename):
        ev('ret', db.flush())
    first = get(filename)
    with scenario('networks %s: noFlush' % tmp):
        db.noFlush = True
        ev('ret', db.flush())
        db.noFlush = False
    with scenario('networks %s: setNetwork' % tmp, snapshots=True,
                  watch=filename):
        ev('ret', db.setNetwork('OFTC', ircdb.IrcNetwork()))
    second = get(filename)
    with scenario('networks %s: same, watched' % tmp, snapshots=True,
                  watch=filename):
        ev('ret', db.flush())
    ev('sizes', len(first), len(second))
    with scenario('networks %s: reload' % tmp, snapshots=True,
                  watch=filename):
        ev('ret', db.reload())
        ev('networks', [(name, sorted(n.stsPolicies.items()),
                         sorted(n.lastDisconnectTimes.items()))
                        for (name, n) in db.networks.items()], db.noFlush)
    reset_creators()
    with scenario('networks %s: corrupted' % tmp):
        put(filename, b'network a\n  stsPolicy onlyone\n\n')
        db2 = ircdb.NetworksDictionary()
        ev('ret', db2.open(filename))
        ev('networks', len(db2.networks), db2.noFlush, get(filename))
    reset_creators()
    with scenario('networks %s: unreadable' % tmp):
        os.remove(filename)
        os.mkdir(filename)
        db3 = ircdb.NetworksDictionary()
        ev('ret', db3.open(filename))
        ev('ret', db3.reload())
        os.rmdir(filename)
    reset_creators()
    with scenario('networks %s: close' % tmp, snapshots=True):
        world.flushers.append(db.flush)
        ev('ret', db.close())
        ev('attrs', db.flush in world.flushers, len(db.networks))
    reset_defaults()


def ignores_scenarios(tmp):
    clean_work()
    filename = os.path.join(T, 'conf', 'ignores.conf')
    if tmp == 'none':
        AtomicFile.default.tmpDir = None
        AtomicFile.default.backupDir = None
    db = ircdb.IgnoresDB()
    with scenario('ignores %s: no filename' % tmp):
        ev('ret', db.flush())
        ev('ret', db.reload())
    with scenario('ignores %s: open missing' % tmp):
        try:
            db.open(filename)
        except EnvironmentError as e:
            ev('raised', e.__class__.__name__)
        ev('ret', db.reload())
    db.add('forever!*@*')
    db.add('Future!*@host', FAKE_NOW + 100)
    db.add('exact!*@host', FAKE_NOW)
    db.add('past!*@host', FAKE_NOW - 100)
    db.add('intexp!*@host', int(FAKE_NOW) + 1)
    for i in range(30):
        db.add('bulk%s!*@*' % i, 0)
    with scenario('ignores %s: first flush' % tmp, snapshots=True,
                  watch=filename):
        ev('ret', db.flush())
    first = get(filename)
    for i in range(30):
        db.remove('bulk%s!*@*' % i)
    with scenario('ignores %s: smaller flush' % tmp, snapshots=True,
                  watch=filename):
        ev('ret', db.flush())
    second = get(filename)
    with scenario('ignores %s: same, watched' % tmp, snapshots=True,
                  watch=filename):
        ev('ret', db.flush())
    ev('sizes', len(first), len(second))
    with scenario('ignores %s: reload' % tmp):
        ev('ret', db.reload())
        ev('ignores', list(db.hostmasks.items()))
    with scenario('ignores %s: bad lines' % tmp):
        put(filename, b'# comment\n\nok!*@* 12.5\nnotahostmask 3\n'
                      b'x!y@z notanumber\nlast!*@*\n')
        ev('ret', db.reload())
        ev('ignores', list(db.hostmasks.items()))
    with scenario('ignores %s: all expired -> empty file' % tmp,
                  snapshots=True, watch=filename):
        db.hostmasks.clear()
        db.add('past!*@host', FAKE_NOW - 1)
        ev('ret', db.flush())
        ev('now', get(filename))
    with scenario('ignores %s: close' % tmp, snapshots=True):
        world.flushers.append(db.flush)
        ev('ret', db.close())
        ev('attrs', db.flush in world.flushers, len(db.hostmasks))
    reset_defaults()


###
# 3. registry and world.
###
class Unserializable(registry.String):
    def serialize(self):
        raise RuntimeError('cannot serialize')


class Surrogate(registry.String):
    broken = False
    def serialize(self):
        if Surrogate.broken:
            return 'lone \udcff surrogate'
        return super(Surrogate, self).serialize()


class Picky(registry.Integer):
    """Accepts its default only when asked the first time."""
    instances = 0
    def __init__(self, *args, **kwargs):
        Picky.instances += 1
        if Picky.instances > 1:
            raise RuntimeError('cannot instantiate')
        super(Picky, self).__init__(*args, **kwargs)


def build_registry():
    Picky.instances = 0
    root = registry.Group()
    root.setName('demo')
    registry._cache.clear()
    a = root.register('alpha', registry.String('first value', 'Help of '
        'alpha, long enough to be wrapped over several lines by textwrap: '
        + 'word ' * 30))
    root.register('beta', registry.Integer(7, ''))
    root.register('gamma', registry.Boolean(True, 'Help of gamma.',
                                            showDefault=False))
    secret = root.register('secret', registry.String('hunter2',
                                                     'A private value.',
                                                     private=True))
    group = root.register('group', registry.Group('Help of a mere group.'))
    group.register('inner', registry.SpaceSeparatedListOfStrings(
        ['x', 'y', 'back\\slash'], 'Inner help.'))
    group.register('multi', registry.String('line1\nline2\ttab \\ end\\',
                                            'Multi-line value.'))
    group.register('uni', registry.String('caf\xe9 \u2603', 'Unicode.'))
    root.register('broken', Unserializable('zzz', 'Cannot be serialized.'))
    root.register('picky', Picky(3, 'Default cannot be instantiated.'))
    root.register('after', registry.Float(2.5, 'After the broken ones.'))
    root.register('middle', Surrogate('fine', 'Sometimes unencodable.'))
    chan = root.register('chan', registry.String('dflt', 'Per channel.'))
    chan.register('#Foo.Bar', registry.String('special', 'Per channel.'))
    chan.register('#back\\', registry.String('bs', 'Per channel.'))
    return root


def registry_scenarios(tmp):
    clean_work()
    filename = work('demo.conf')
    if tmp == 'none':
        AtomicFile.default.tmpDir = None
        AtomicFile.default.backupDir = None
    root = build_registry()
    with scenario('registry %s: first close' % tmp, snapshots=True,
                  watch=filename):
        ev('ret', registry.close(root, filename))
    first = get(filename)
    with scenario('registry %s: close again' % tmp, snapshots=True,
                  watch=filename):
        ev('ret', registry.close(root, filename))
    again = get(filename)
    with scenario('registry %s: close again, watched 2' % tmp,
                  snapshots=True, watch=filename):
        ev('ret', registry.close(root, filename))
    with scenario('registry %s: public close (smaller)' % tmp,
                  snapshots=True, watch=filename):
        ev('ret', registry.close(root, filename, private=False))
    with scenario('registry %s: open' % tmp):
        ev('ret', registry.open_registry(filename, clear=True))
        ev('cache', list(registry._cache.items()),
           registry._lastModified > 0)
    with scenario('registry %s: open without clear' % tmp):
        put(work('extra.conf'), b'# comment\n\n\ndemo.extra: one \\\ntwo\\\\\n'
                                b'demo.colon\\: x: y: z\n  demo.sp :  v  \n')
        ev('ret', registry.open_registry(work('extra.conf')))
        ev('cache', list(registry._cache.items()))
    for (i, bad) in enumerate([b'nocolon\n', b'a: 1\nstill no colon\n',
                               b'a\\: b\n', b'trailing: \\\n',
                               b'esc: \\x\n']):
        with scenario('registry %s: invalid file %s' % (tmp, i)):
            put(work('bad.conf'), bad)
            before = registry._lastModified
            try:
                registry.open_registry(work('bad.conf'), clear=True)
            finally:
                ev('cache', list(registry._cache.items()),
                   registry._lastModified == before)
    with scenario('registry %s: missing file' % tmp):
        try:
            registry.open_registry(work('nothing.conf'))
        except EnvironmentError as e:
            ev('raised', e.__class__.__name__)
    with scenario('registry %s: write failure keeps the old file' % tmp,
                  snapshots=True, watch=filename):
        Surrogate.broken = True
        try:
            registry.close(root, filename)
        except Exception as e:
            ev('raised', e.__class__.__name__)
        Surrogate.broken = False
    with scenario('registry %s: the real configuration' % tmp,
                  snapshots=True):
        ev('ret', registry.close(conf.supybot, work('bot.conf')))
        ev('ret', registry.close(conf.supybot, work('bot-public.conf'),
                                 private=False))
        ev('ret', registry.close(conf.users, work('userdata.conf')))
    with scenario('registry %s: the real configuration loads' % tmp):
        ev('ret', registry.open_registry(work('bot.conf'), clear=True))
        ev('cache', len(registry._cache),
           hashlib.sha256(json.dumps(norm(list(registry._cache.items())))
                          .encode()).hexdigest())
    reset_defaults()


def world_scenarios():
    clean_work()
    saved = world.flushers[:]
    calls = []
    def good():
        calls.append('good')
    def bad():
        calls.append('bad')
        raise RuntimeError('flusher failed')
    def worse():
        calls.append('worse')
        raise EnvironmentError(28, 'No space left on device')
    with scenario('world: flush', snapshots=True):
        world.flushers[:] = [world._flushUserData, good, bad, good, worse]
        ev('ret', world.flush())
        ev('calls', calls)
        ev('now', get(os.path.join(T, 'conf', 'userdata.conf')))
    with scenario('world: debugFlush off'):
        del calls[:]
        world.flushers[:] = [good]
        ev('ret', world.debugFlush('message'))
        ev('ret', world.debugFlush())
        ev('calls', calls)
    with scenario('world: debugFlush on'):
        conf.supybot.debug.flushVeryOften.setValue(True)
        ev('ret', world.debugFlush('message'))
        ev('ret', world.debugFlush())
        ev('ret', world.debugFlush(''))
        ev('calls', calls)
        conf.supybot.debug.flushVeryOften.setValue(False)
    with scenario('world: upkeep flushes'):
        del calls[:]
        world.flushers[:] = [good, bad]
        for (flush, starting, dying) in [(True, False, False),
                                         (False, False, False),
                                         (True, True, False),
                                         (True, False, True)]:
            conf.supybot.flush.setValue(flush)
            world.starting = starting
            world.dying = dying
            ev('ret', isinstance(world.upkeep(), int), list(calls))
        conf.supybot.flush.setValue(True)
        world.starting = False
        world.dying = False
    world.flushers[:] = saved


###
# 4. dbi.
###
class DemoRecord(dbi.Record):
    __fields__ = ['text', ('count', (int, 0)), ('tags', eval)]


def dbi_scenarios(tmp):
    clean_work()
    filename = work('flat.db')
    if tmp == 'none':
        AtomicFile.default.tmpDir = None
        AtomicFile.default.backupDir = None
    with scenario('dbi %s: create and add' % tmp, snapshots=True):
        m = dbi.FlatfileMapping(filename, maxSize=10**4)
        ev('attrs', m.maxSize, m.currentId)
        for i in range(8):
            ev('ret', m.add('record %s: with, colon' % i))
        ev('ret', list(m))
    with scenario('dbi %s: remove' % tmp, snapshots=True):
        ev('ret', m.remove(2))
        ev('ret', m.remove(5))
        ev('ret', m.remove(99))
        ev('ret', list(m))
        ev('now', get(filename))
    before = get(filename)
    with scenario('dbi %s: vacuum' % tmp, snapshots=True,
                  watch=filename):
        ev('ret', m.vacuum())
        ev('now', get(filename))
    after = get(filename)
    put(filename, before)
    with scenario('dbi %s: vacuum, watched' % tmp, snapshots=True,
                  watch=filename):
        ev('ret', m.vacuum())
    with scenario('dbi %s: vacuum, xdev' % tmp, snapshots=True):
        put(filename, before)
        WATCH[0] = filename
        INITIAL[0] = before
        wrapper = os.replace
        def failing(src, dst, *args, **kwargs):
            if os.path.dirname(src) != os.path.dirname(dst):
                raise OSError(18, 'Invalid cross-device link')
            return wrapper(src, dst, *args, **kwargs)
        os.replace = failing
        try:
            ev('ret', m.vacuum())
        finally:
            os.replace = wrapper
    with scenario('dbi %s: set' % tmp, snapshots=True):
        ev('ret', m.set(3, 'replaced 3'))
        ev('ret', m.set(42, 'never given out'))
        ev('ret', m.set(3, 'replaced again'))
        ev('ret', list(m))
        ev('now', get(filename))
    with scenario('dbi %s: get' % tmp):
        for id in (3, 0, 1, 2, 42, 8, 9):
            try:
                ev('ret', m.get(id))
            except dbi.NoRecordError as e:
                ev('raised', e)
        ev('ret', m._canonicalId(7), m._canonicalId(None),
           m._joinLine(7, 's'), m._joinLine(None, 's'),
           m._splitLine('0007:a:b\r\n'))
    with scenario('dbi %s: flush and close' % tmp, snapshots=True):
        ev('ret', m.flush())
        ev('ret', m.remove(0))
        ev('ret', m.close())
        ev('now', get(filename))
    with scenario('dbi %s: reopen' % tmp, snapshots=True):
        m2 = dbi.FlatfileMapping(filename)
        ev('attrs', m2.maxSize, m2.currentId)
        ev('ret', m2.add('after reopen'))
        ev('ret', list(m2))
    with scenario('dbi %s: invalid file' % tmp):
        put(work('bad.db'), b'not a number\n')
        dbi.FlatfileMapping(work('bad.db'))
    with scenario('dbi %s: vacuum of a missing file' % tmp):
        m3 = dbi.FlatfileMapping(work('gone.db'))
        os.remove(work('gone.db'))
        m3.vacuum()
    with scenario('dbi %s: vacuum of only the counter' % tmp, snapshots=True):
        m4 = dbi.FlatfileMapping(work('tiny.db'))
        ev('ret', m4.vacuum())
        ev('ret', m4.set(1, 'x'))
        ev('ret', m4.remove(1))
        ev('ret', m4.vacuum())
        ev('now', get(work('tiny.db')))
    with scenario('dbi %s: DB' % tmp, snapshots=True):
        db = dbi.DB(work('records.db'), Record=DemoRecord)
        ids = [db.add(DemoRecord(text='t%s' % i, count=i, tags=['a', i]))
               for i in range(5)]
        ev('ret', ids)
        db.remove(ids[1])
        r = db.get(ids[2])
        r.text = 'changed, "quoted"'
        ev('ret', db.set(ids[2], r))
        ev('ret', db.size(), [(x.id, x.text, x.count, x.tags) for x in db])
        ev('ret', [x.id for x in db.select(lambda x: x.count > 2)])
        ev('ret', db.flush(), db.vacuum(), db.close())
        ev('now', get(work('records.db')))
        try:
            db.get(ids[1])
        except dbi.NoRecordError as e:
            ev('raised', e)
    reset_defaults()


def main():
    reset_defaults()
    atomic_scenarios()
    for tmp in ('default', 'none', 'devnull'):
        users_scenarios(tmp)
    for tmp in ('default', 'none'):
        channels_scenarios(tmp)
        networks_scenarios(tmp)
        ignores_scenarios(tmp)
        registry_scenarios(tmp)
        dbi_scenarios(tmp)
    world_scenarios()


code = 1
try:
    main()
    blob = json.dumps(EVENTS, sort_keys=True).encode()
    digest = hashlib.sha256(blob).hexdigest()
    if '--dump' in sys.argv:
        with real_open(sys.argv[sys.argv.index('--dump') + 1], 'w') as fd:
            for e in EVENTS:
                fd.write(json.dumps(e) + '\n')
    if '--record' in sys.argv:
        print(digest, len(EVENTS))
    if FAILURES:
        print('FAIL: property violated')
        for f in FAILURES[:20]:
            print('  ', f)
    elif digest != EXPECTED:
        print('FAIL: digest %s over %d events, expected %s'
              % (digest, len(EVENTS), EXPECTED))
    else:
        print('PASS (%d observations, digest %s)' % (len(EVENTS), digest[:16]))
        code = 0
except BaseException:
    traceback.print_exc()
    print('FAIL: demo crashed')
finally:
    time.time = real_time
    shutil.rmtree(T, ignore_errors=True)
    sys.stdout.flush()
    sys.stderr.flush()
    os._exit(code)
