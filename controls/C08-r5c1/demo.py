"""C08 control demo: the CAP/SASL registration machinery behaves exactly as
before.

Two kinds of evidence:
 1. an oracle for the property itself, checked on every bot output of every
    run (only advertised+wanted capabilities requested; echo-message never
    without labeled-response; credentials only after 'sasl' was acknowledged
    and the server invited the exchange; at most one CAP END per connection
    and none while a request or an authentication is outstanding; conformant
    servers always get the bot to the end of the MOTD or to a deliberate
    abort);
 2. a digest of the complete behaviour (every message sent, the FSM state,
    the capability sets and the SASL bookkeeping after every server message)
    over scripted edge cases and seeded pseudo-random server behaviours, for
    seven SASL configurations, across resets.  The digest is compared with
    the one recorded on the unmodified tree.
"""
import os, sys, base64, hashlib, random, tempfile
sys.path.insert(0, os.getcwd())
import supybot
import supybot.log as log
import supybot.conf as conf
import supybot.world as world
import supybot.ircdb as ircdb
import supybot.irclib as irclib
import supybot.ircmsgs as ircmsgs
import supybot.ircutils as ircutils
from supybot.drivers import Server

from cryptography.hazmat.primitives.asymmetric import ec
from cryptography.hazmat.primitives.asymmetric.utils import Prehashed
from cryptography.hazmat.primitives import hashes, serialization
from cryptography.exceptions import InvalidSignature

EXPECTED_DIGEST = 'b2ecd487e9d1059ae6f11e40e086daa434f1306f1437998e3cdd51bfcad87312'

conf.supybot.log.stdout.setValue(False)
States = irclib.IrcStateFsm.States

failures = []
def check(name, cond, detail=''):
    if not cond:
        if name not in failures:
            print('%-70s VIOLATED' % name)
            if detail:
                print(detail)
        failures.append(name)

# --------------------------------------------------------------------------
# key material
tmp = tempfile.mkdtemp(prefix='c08c1')
private_key = ec.generate_private_key(ec.SECP256R1())
public_key = private_key.public_key()
KEY_PATH = os.path.join(tmp, 'ecdsa.pem')
with open(KEY_PATH, 'wb') as fd:
    fd.write(private_key.private_bytes(
        serialization.Encoding.PEM,
        serialization.PrivateFormat.TraditionalOpenSSL,
        serialization.NoEncryption()))
MISSING_KEY = os.path.join(tmp, 'missing.pem')

LONG_PASSWORD = 'p' * 285         # PLAIN string of 300 bytes = 400 base64 chars
CONFIGS = [
    ('none', {}, ''),
    ('plain', dict(username='jilles', password='sesame'), ''),
    ('plain400', dict(username='jilles', password=LONG_PASSWORD), ''),
    ('external', dict(mechanisms=['external']), '/nonexistent/cert.pem'),
    ('ecdsa', dict(username='jilles', password='sesame',
                   ecdsa_key=KEY_PATH), ''),
    ('ecdsa-nokey', dict(username='jilles', password='sesame',
                         ecdsa_key=MISSING_KEY), ''),
    ('list', dict(username='jilles', password='sesame',
                  mechanisms=['external', 'plain']), '/nonexistent/cert.pem'),
    ('required', dict(username='jilles', password='sesame', required=True),
     ''),
]
assert len(base64.b64encode(
    b'\0'.join([b'jilles', b'jilles', LONG_PASSWORD.encode()]))) == 400

# --------------------------------------------------------------------------
class Driver:
    """Stands for drivers.Socket: reconnect() resets the Irc object."""
    def __init__(self, irc, run, secure=False):
        self.irc = irc
        self.run = run
        self.reconnects = 0
        self.ssl = secure
        self.currentServer = Server('irc.example.org', 6667, 0, False)
        irc.driver = self
    def anyCertValidationEnabled(self):
        return self.ssl
    def reconnect(self, wait=False, reset=True, server=None):
        self.reconnects += 1
        self.run.on_reconnect(wait, server)
        if reset:
            self.irc.reset()
    def die(self):
        pass


class Run:
    """One Irc object, its transcript and the property monitor."""
    def __init__(self, name, config, oracle=True, secure=False):
        (cfgname, sasl, certfile) = config
        self.name = name
        self.oracle = oracle
        self.network = 'c08c1' + str(len(ALL_RUNS))
        conf.registerNetwork(self.network)
        nc = conf.supybot.networks.get(self.network)
        for (k, v) in sasl.items():
            getattr(nc.sasl, k).setValue(v)
        nc.certfile.setValue(certfile)
        self.required = sasl.get('required', False)
        self.transcript = ['== %s [%s]' % (name, cfgname)]
        random.seed(20260930)
        self.irc = irclib.Irc(self.network)
        self.driver = Driver(self.irc, self, secure)
        self.wants_sasl = bool(self.irc.sasl_next_mechanisms)
        self.new_connection()
        self.last_challenge = None
        ALL_RUNS.append(self)
        self.drain()

    # -- monitor ------------------------------------------------------------
    def new_connection(self):
        self.advertised = set()
        self.requested = set()
        self.answered = set()
        self.sasl_acked = False
        self.cap_ends = 0
        self.mech_requested = False     # AUTHENTICATE <mech> sent ...
        self.invited = False            # ... and the server answered
        self.sasl_open = False
        self.response_sent = False      # ... and we answered that
        self.new_during_negotiation = False
        self.pending = []               # conformant answers not yet given
        self.srv_mech = None
        self.srv_step = 0
        self.srv_nick = None
        self.srv_user = None
        self.srv_registered = False
        self.srv_capneg = False

    def on_reconnect(self, wait, server):
        self.transcript.append('!! reconnect wait=%r server=%r' %
                               (wait, server))
        self.new_connection()

    def wanted(self):
        w = set(irclib.Irc.REQUEST_CAPABILITIES)
        if self.wants_sasl:
            w.add('sasl')
        return w

    def observe_fed(self, line):
        m = ircmsgs.IrcMsg(line)
        if m.command == 'CAP' and len(m.args) >= 3:
            sub = m.args[1].upper()
            names = [c.lstrip('=~').split('=')[0] for c in m.args[-1].split()]
            if sub in ('LS', 'NEW'):
                self.advertised.update(names)
                if sub == 'NEW' and not self.cap_ends:
                    self.new_during_negotiation = True
            elif sub in ('ACK', 'NAK'):
                self.answered.update(names)
                if sub == 'ACK' and 'sasl' in names:
                    self.sasl_acked = True
            elif sub == 'DEL':
                self.answered.update(names)
        elif m.command == 'AUTHENTICATE':
            if self.mech_requested:
                self.invited = True
            self.last_challenge = m.args[0]
        elif m.command in ('903', '904', '905', '906', '907'):
            if m.command == '903' and not self.response_sent:
                # not the end of anything: we did not answer yet (the bot
                # ignores it, too)
                return
            self.sasl_open = False
            self.mech_requested = False
            self.invited = False

    def observe_sent(self, line):
        m = ircmsgs.IrcMsg(line)
        tag = self.name
        if m.command == 'CAP' and m.args[0] == 'REQ':
            caps = m.args[1].split()
            if self.oracle:
                check('requests only advertised capabilities',
                      set(caps) <= self.advertised,
                      '%s: %r not in %r' % (tag, caps, self.advertised))
                check('requests only wanted capabilities',
                      set(caps) <= self.wanted(), '%s: %r' % (tag, caps))
            check('echo-message only with labeled-response',
                  'echo-message' not in caps or 'labeled-response' in caps
                  or 'labeled-response' in self.irc.state.capabilities_ack,
                  '%s: %r' % (tag, caps))
            self.requested.update(caps)
        elif m.command == 'CAP' and m.args[0] == 'END':
            self.cap_ends += 1
            check('at most one CAP END per connection', self.cap_ends == 1, tag)
            # (known limitation of the unmodified tree, not checked here: a
            # CAP NEW received during the SASL exchange is requested at once
            # and CAP END follows the 903 without waiting for its ACK)
            if self.oracle and not self.new_during_negotiation:
                check('no CAP END while a CAP REQ is outstanding',
                      self.requested <= self.answered,
                      '%s: %r' % (tag, self.requested - self.answered))
                check('no CAP END during a SASL exchange',
                      not self.sasl_open, tag)
        elif m.command == 'AUTHENTICATE':
            arg = m.args[0]
            if arg.lower() in conf.ValidSaslMechanism.validStrings:
                if self.oracle:
                    check('SASL only after CAP ACK sasl', self.sasl_acked, tag)
                self.mech_requested = True
                self.invited = False
                self.response_sent = False
                self.sasl_open = True
            elif arg != '*':
                if self.oracle:
                    check('credentials only after CAP ACK sasl',
                          self.sasl_acked, tag)
                    check('credentials only when invited by the server',
                          self.invited, tag)
                self.response_sent = True

    # -- plumbing -----------------------------------------------------------
    def normalise(self, line):
        if line.startswith('@'):
            line = line.split(' ', 1)[1]
        m = ircmsgs.IrcMsg(line)
        if m.command == 'AUTHENTICATE' and len(m.args[0]) > 80 and \
                self.irc.sasl_current_mechanism == 'ecdsa-nist256p-challenge':
            # signatures are randomised: record whether they verify
            try:
                public_key.verify(base64.b64decode(m.args[0]),
                                  base64.b64decode(self.last_challenge),
                                  ec.ECDSA(Prehashed(hashes.SHA256())))
                line = 'AUTHENTICATE <valid signature>'
            except Exception as e:
                line = 'AUTHENTICATE <INVALID signature>'
        return line

    def snapshot(self):
        irc = self.irc
        st = irc.state
        return 'fsm=%s req=%s ack=%s nak=%s ls=%s auth=%r cur=%r next=%r ' \
               'sent=%r after=%r nick=%s rc=%d' % (
            st.fsm.state.name, sorted(st.capabilities_req),
            sorted(st.capabilities_ack), sorted(st.capabilities_nak),
            sorted(st.capabilities_ls.items(), key=repr),
            irc.sasl_authenticated, irc.sasl_current_mechanism,
            irc.sasl_next_mechanisms, irc.sasl_response_sent,
            irc.afterConnect, irc.nick, self.driver.reconnects)

    def drain(self):
        out = []
        while True:
            m = self.irc.takeMsg()
            if m is None:
                break
            line = self.normalise(str(m).rstrip('\r\n'))
            self.transcript.append('C: ' + line)
            self.observe_sent(line)
            self.server_react(line)
            out.append(line)
        return out

    def feed(self, line):
        self.transcript.append('S: ' + line)
        self.observe_fed(line)
        self.irc.feedMsg(ircmsgs.IrcMsg(line))
        out = self.drain()
        self.transcript.append('   ' + self.snapshot())
        return out

    def script(self, *lines):
        for line in lines:
            self.feed(line)
        return self

    # -- a conformant server, used by the random walks -------------------
    LS = 'multi-prefix sasl=PLAIN,EXTERNAL,ECDSA-NIST256P-CHALLENGE ' \
         'echo-message labeled-response server-time foo'
    def server_react(self, line):
        """Queues the answers a conformant server gives to `line`."""
        m = ircmsgs.IrcMsg(line)
        p = self.pending
        nick = self.srv_nick or '*'
        if m.command == 'CAP':
            sub = m.args[0].upper()
            if sub == 'LS':
                self.srv_capneg = True
                p.append(':srv CAP * LS :' + self.LS)
            elif sub == 'REQ':
                self.srv_capneg = not self.srv_registered
                known = set(c.split('=')[0] for c in self.LS.split())
                req = m.args[1].split()
                verb = 'ACK' if set(req) <= known else 'NAK'
                p.append(':srv CAP * %s :%s' % (verb, ' '.join(req)))
            elif sub == 'END':
                self.srv_capneg = False
        elif m.command == 'NICK':
            self.srv_nick = m.args[0]
        elif m.command == 'USER':
            self.srv_user = m.args[0]
        elif m.command == 'AUTHENTICATE':
            arg = m.args[0]
            if arg == '*':
                self.srv_mech = None
                p.append(':srv 906 %s :SASL authentication aborted' % nick)
            elif self.srv_mech is None:
                if arg in ('PLAIN', 'EXTERNAL', 'ECDSA-NIST256P-CHALLENGE'):
                    (self.srv_mech, self.srv_step) = (arg, 0)
                    p.append('AUTHENTICATE +')
                else:
                    p.append(':srv 908 %s PLAIN,EXTERNAL :are available' % nick)
                    p.append(':srv 904 %s :SASL authentication failed' % nick)
            elif self.srv_mech == 'ECDSA-NIST256P-CHALLENGE' \
                    and self.srv_step == 0:
                self.srv_step = 1
                p.append('AUTHENTICATE ' +
                         base64.b64encode(bytes(range(7, 39))).decode())
            elif len(arg) == 400:
                pass            # more to come
            else:
                ok = self.srv_mech != 'EXTERNAL'    # no certificate here
                self.srv_mech = None
                if ok:
                    p.append(':srv 900 %s %s!u@h acct :You are now logged in '
                             'as acct' % (nick, nick))
                    p.append(':srv 903 %s :SASL authentication successful'
                             % nick)
                else:
                    p.append(':srv 904 %s :SASL authentication failed' % nick)
        if not self.srv_registered and self.srv_nick and self.srv_user \
                and not self.srv_capneg:
            self.srv_registered = True
            n = self.srv_nick
            p += [':srv 001 %s :Welcome' % n,
                  ':srv 002 %s :Your host is srv, running version x-1' % n,
                  ':srv 003 %s :This server was created today' % n,
                  ':srv 004 %s srv x-1 iow bklmnt' % n,
                  ':srv 005 %s NETWORK=demo CHANTYPES=# :are supported' % n,
                  ':srv 375 %s :- srv Message of the day -' % n,
                  ':srv 372 %s :- hi' % n,
                  ':srv 376 %s :End of /MOTD command.' % n]

    def conformant(self, steps=60):
        """Lets the conformant server answer until nothing is pending."""
        for _ in range(steps):
            if not self.pending:
                break
            self.feed(self.pending.pop(0))
        return self

    def expect_connected(self):
        ok = self.irc.state.fsm.state == States.CONNECTED
        if self.required and not self.irc.sasl_authenticated:
            ok = ok or self.driver.reconnects > 0
        check('conformant server: end of MOTD or deliberate abort', ok,
              '%s: %s\n%s' % (self.name, self.irc.state.fsm.state,
                              '\n'.join(self.transcript[-25:])))
        return self


ALL_RUNS = []
CAP_POOL = sorted(irclib.Irc.REQUEST_CAPABILITIES) + [
    'sasl', 'sasl=PLAIN', 'sasl=EXTERNAL,PLAIN', 'sasl=', 'sasl=SCRAM-SHA-256',
    'sasl=ecdsa-nist256p-challenge,plain', 'foo', 'draft/bar=1',
    '~multi-prefix', '=away-notify', '~=batch', 'foo=a=b']

def random_line(rng, run):
    nick = run.irc.nick
    def caps(lo=1, hi=6, values=True):
        pool = CAP_POOL if values else [c.split('=')[0].lstrip('~=')
                                        for c in CAP_POOL]
        return ' '.join(rng.sample(pool, rng.randint(lo, hi)))
    def requested():
        req = sorted(run.irc.state.capabilities_req)
        if not req or rng.random() < 0.15:
            return caps(values=False)
        if rng.random() < 0.6:
            return ' '.join(req)
        return ' '.join(rng.sample(req, rng.randint(1, len(req))))
    kind = rng.choice([
        'ls', 'ls', 'lsmulti', 'ack', 'ack', 'ack', 'nak', 'new', 'del',
        'auth+', 'auth+', 'authdata', 'auth400', '900', '901', '902', '903',
        '903', '904', '905', '906', '907', '908', '001', '002', '003', '004',
        '005', '375', '376', '422', '432', '433', '437', 'ping', 'error',
        'badls', 'emptyls'])
    if kind == 'ls':
        return ':srv CAP * LS :' + caps(0 if rng.random() < .1 else 1, 10)
    if kind == 'lsmulti':
        return ':srv CAP * LS * :' + caps(1, 8)
    if kind == 'emptyls':
        return ':srv CAP * LS :'
    if kind == 'badls':
        return rng.choice([':srv CAP * LS', ':srv CAP * LS x :foo',
                           ':srv CAP * ACK', ':srv CAP * NAK a :b c',
                           ':srv CAP * NEW', ':srv CAP * DEL'])
    if kind == 'ack':
        return ':srv CAP * ACK :' + requested()
    if kind == 'nak':
        return ':srv CAP * NAK :' + requested()
    if kind == 'new':
        return ':srv CAP %s NEW :%s' % (nick, caps(1, 4))
    if kind == 'del':
        return ':srv CAP %s DEL :%s' % (nick, caps(1, 4, rng.random() < .3))
    if kind == 'auth+':
        return 'AUTHENTICATE +'
    if kind == 'authdata':
        return 'AUTHENTICATE ' + base64.b64encode(
            bytes(rng.randrange(256) for _ in range(rng.choice([1, 32, 33])))
            ).decode()
    if kind == 'auth400':
        return 'AUTHENTICATE ' + 'QUJD' * 100
    if kind == '900':
        return ':srv 900 %s %s!u@h acct :You are now logged in as acct' % (
            nick, nick)
    if kind == '908':
        return ':srv 908 %s PLAIN,EXTERNAL :are available SASL mechanisms' \
            % nick
    if kind in ('901', '902', '903', '904', '905', '906', '907'):
        return ':srv %s %s :sasl numeric' % (kind, nick)
    if kind == '004':
        return ':srv 004 %s srv x-1 iow bklmnt' % nick
    if kind == '005':
        return ':srv 005 %s CHANTYPES=# NICKLEN=30 :are supported' % nick
    if kind in ('001', '002', '003', '375', '376', '422'):
        return ':srv %s %s :some text here x-1' % (kind, nick)
    if kind in ('432', '433', '437'):
        return ':srv %s * %s :nick problem' % (kind, nick)
    if kind == 'ping':
        return 'PING :' + rng.choice(['srv', '12345', 'a b', ''])
    if kind == 'error':
        return 'ERROR :' + rng.choice([
            'Closing Link: 127.0.0.1 (Registration timed out)',
            'Trying to reconnect too fast.', 'Banned'])
    raise AssertionError(kind)

# --------------------------------------------------------------------------
# 1. scripted edge cases (one Irc per script and configuration)
LS_ALL = ':srv CAP * LS :' + ' '.join(
    sorted(irclib.Irc.REQUEST_CAPABILITIES) + ['sasl=PLAIN,EXTERNAL'])
SCRIPTS = [
    ('empty LS', [':srv CAP * LS :']),
    ('nothing wanted', [':srv CAP * LS :foo bar=1']),
    ('echo-message alone', [':srv CAP * LS :echo-message']),
    ('echo-message, labeled-response refused', [
        ':srv CAP * LS :echo-message labeled-response multi-prefix',
        ':srv CAP * NAK :echo-message labeled-response multi-prefix',
        ':srv CAP * NEW :echo-message']),
    ('echo-message after labeled-response', [
        ':srv CAP * LS :labeled-response',
        ':srv CAP * ACK :labeled-response',
        ':srv 001 supybot :hi', ':srv 376 supybot :end',
        ':srv CAP supybot NEW :echo-message',
        ':srv CAP supybot ACK :echo-message',
        ':srv CAP supybot DEL :labeled-response',
        ':srv CAP supybot NEW :echo-message=x']),
    ('everything, one ACK', [
        LS_ALL,
        ':srv CAP * ACK :' + ' '.join(
            ['echo-message', 'labeled-response'] +
            sorted(irclib.Irc.REQUEST_CAPABILITIES -
                   set(['echo-message', 'labeled-response'])) + ['sasl']),
        'AUTHENTICATE +', ':srv 900 supybot supybot!u@h acct :logged in',
        ':srv 903 supybot :ok', ':srv 001 supybot :hi',
        ':srv 376 supybot :end']),
    ('multi-line LS, modifiers, values', [
        ':srv CAP * LS * :~multi-prefix =away-notify ~=batch foo=a=b',
        ':srv CAP * LS * :sasl=EXTERNAL,PLAIN draft/bar=1 =',
        ':srv CAP * LS :server-time sasl=PLAIN',
        ':srv CAP * ACK :away-notify batch',
        ':srv CAP * ACK :multi-prefix',
        ':srv CAP * NAK :server-time',
        ':srv CAP * ACK :sasl',
        'AUTHENTICATE +', ':srv 904 supybot :failed',
        'AUTHENTICATE +', ':srv 903 supybot :ok',
        ':srv 375 supybot :motd', ':srv 376 supybot :end']),
    ('sasl with empty mechanism list', [
        ':srv CAP * LS :sasl= multi-prefix',
        ':srv CAP * ACK :multi-prefix sasl',
        ':srv 001 supybot :hi', ':srv 422 supybot :no motd']),
    ('sasl advertised with foreign mechanisms only', [
        ':srv CAP * LS :sasl=SCRAM-SHA-512,FOO',
        ':srv CAP * ACK :sasl', ':srv 376 supybot :end']),
    ('sasl refused', [
        ':srv CAP * LS :sasl multi-prefix',
        ':srv CAP * NAK :multi-prefix sasl',
        ':srv 376 supybot :end']),
    ('sasl: all mechanisms fail, 908', [
        ':srv CAP * LS :sasl', ':srv CAP * ACK :sasl',
        ':srv 908 supybot PLAIN :are available', ':srv 904 supybot :failed',
        'AUTHENTICATE +', ':srv 905 supybot :too long',
        'AUTHENTICATE +', ':srv 906 supybot :aborted',
        ':srv 907 supybot :already', ':srv 904 supybot :failed',
        ':srv 904 supybot :failed', ':srv 376 supybot :end']),
    ('unsolicited 903 and AUTHENTICATE', [
        ':srv 903 supybot :ok', 'AUTHENTICATE +',
        ':srv CAP * LS :sasl', ':srv 903 supybot :ok',
        ':srv CAP * ACK :sasl', ':srv 903 supybot :premature',
        'AUTHENTICATE +', ':srv 903 supybot :ok', ':srv 903 supybot :again',
        ':srv CAP * ACK :sasl', ':srv 376 supybot :end']),
    ('unrequested ACK', [
        ':srv CAP * LS :multi-prefix', ':srv CAP * ACK :multi-prefix foo',
        ':srv CAP * LS :multi-prefix', ':srv CAP * ACK :multi-prefix',
        ':srv 376 supybot :end']),
    ('server ignores CAP', [
        ':srv 001 supybot :hi', ':srv 005 supybot NETWORK=x :are supported',
        ':srv 375 supybot :motd', ':srv 376 supybot :end',
        ':srv CAP supybot LS :multi-prefix sasl=PLAIN',
        ':srv CAP supybot ACK :multi-prefix sasl',
        'AUTHENTICATE +', ':srv 903 supybot :ok',
        ':srv CAP supybot DEL :sasl multi-prefix=x foo',
        ':srv CAP supybot NEW :sasl=PLAIN multi-prefix',
        ':srv CAP supybot ACK :multi-prefix sasl']),
    ('DEL of a requested capability before its ACK', [
        ':srv CAP * LS :multi-prefix away-notify',
        ':srv CAP * DEL :away-notify',
        ':srv CAP * ACK :multi-prefix', ':srv CAP * NAK :away-notify',
        ':srv 376 supybot :end']),
    ('DEL after ACK, before the others are answered', [
        ':srv CAP * LS * :multi-prefix', ':srv CAP * LS :away-notify',
        ':srv CAP * ACK :away-notify', ':srv CAP * DEL :away-notify',
        ':srv CAP * ACK :multi-prefix', ':srv 376 supybot :end']),
    ('nick in use during negotiation', [
        ':srv 433 * supybot :in use', ':srv CAP * LS :multi-prefix',
        ':srv 433 * supybot` :in use', ':srv 437 * supybot_ :unavailable',
        ':srv 432 * x :erroneous', ':srv 433 * y :in use',
        ':srv CAP * ACK :multi-prefix', 'PING :abc', 'PING :',
        ':srv 001 supybot1 :hi', ':srv 376 supybot1 :end',
        ':srv 433 * supybot :in use']),
    ('malformed CAP messages', [
        ':srv CAP * LS', ':srv CAP * LS x :foo', ':srv CAP * ACK',
        ':srv CAP * NAK a :b', ':srv CAP * NEW', ':srv CAP * DEL',
        ':srv CAP * LS :multi-prefix', ':srv CAP * ACK :multi-prefix',
        ':srv 376 supybot :end']),
    ('ERROR and reset in the middle of SASL', [
        ':srv CAP * LS :sasl=PLAIN multi-prefix',
        ':srv CAP * ACK :multi-prefix sasl', 'AUTHENTICATE +',
        'ERROR :Closing Link: (Ping timeout)',
        ':srv CAP * LS :sasl=PLAIN', ':srv CAP * ACK :sasl',
        'AUTHENTICATE +', ':srv 903 supybot :ok', ':srv 376 supybot :end',
        'ERROR :Trying to reconnect too fast.',
        ':srv CAP * LS :', ':srv 376 supybot :end']),
    ('server challenge in chunks (ecdsa)', [
        ':srv CAP * LS :sasl', ':srv CAP * ACK :sasl', 'AUTHENTICATE +',
        'AUTHENTICATE ' + 'QUJD' * 100, 'AUTHENTICATE ' + 'QUJD' * 100,
        'AUTHENTICATE +', ':srv 904 supybot :failed',
        'AUTHENTICATE +', 'AUTHENTICATE ' + 'QUJD' * 100,
        'AUTHENTICATE QUJD', ':srv 903 supybot :ok',
        ':srv 376 supybot :end']),
]
UNCHECKED_SCRIPTS = [
    # sts: behaviour recorded in the digest only (the bot reconnects in the
    # middle of the handler, which the simple monitor above does not follow)
    ('sts without value', False, [
        ':srv CAP * LS :multi-prefix sts sasl', ':srv CAP * LS :multi-prefix',
        ':srv CAP * ACK :multi-prefix', ':srv 376 supybot :end']),
    ('sts over an insecure connection', False, [
        ':srv CAP * LS * :multi-prefix sts=port=6697,duration=100',
        ':srv CAP * LS :away-notify',
        ':srv CAP * LS :multi-prefix', ':srv CAP * ACK :multi-prefix',
        ':srv 376 supybot :end']),
    ('sts with a bad policy', False, [
        ':srv CAP * LS :~sts=duration=100 =sts=port=x multi-prefix',
        ':srv CAP * ACK :multi-prefix', ':srv 376 supybot :end']),
    ('sts over a secure connection', True, [
        ':srv CAP * LS :multi-prefix sts=duration=100,port=6697 sts=port=1',
        ':srv CAP * ACK :multi-prefix', ':srv CAP * NEW :sts=duration=0',
        ':srv 376 supybot :end']),
]

for config in CONFIGS:
    for (title, lines) in SCRIPTS:
        Run(title, config).script(*lines)
    for (title, secure, lines) in UNCHECKED_SCRIPTS:
        Run(title, config, oracle=False, secure=secure).script(*lines)

# 2. conformant server, with every configuration, three connections each
for config in CONFIGS:
    run = Run('conformant server', config)
    for connection in range(3):
        run.conformant().expect_connected()
        if connection == 0:
            # sasl goes away and comes back
            nick = run.irc.nick
            run.script(':srv CAP %s DEL :sasl' % nick,
                       ':srv CAP %s NEW :sasl=PLAIN' % nick)
            run.conformant()
        run.driver.reconnect()
        run.drain()

# 3. seeded pseudo-random server behaviour: a conformant answer or a random
#    message of the alphabet, in any order, with a reset now and then
for (i, config) in enumerate(CONFIGS):
    for seed in range(12):
        rng = random.Random(1000 * i + seed)
        run = Run('random walk %d' % seed, config)
        p_conformant = rng.choice([0.3, 0.6, 0.85])
        for step in range(70):
            if run.pending and rng.random() < p_conformant:
                run.feed(run.pending.pop(0))
            elif rng.random() < 0.03:
                run.driver.reconnect()
                run.drain()
            else:
                run.feed(random_line(rng, run))
        # whatever happened, a conformant server that picks up from here
        # (new connection) gets the bot registered
        run.driver.reconnect()
        run.drain()
        run.conformant().expect_connected()

# 4. the helpers in ircutils
h = hashlib.sha256()
for n in (0, 1, 2, 3, 298, 299, 300, 301, 302, 599, 600, 601, 900):
    data = bytes((7 * k + n) % 256 for k in range(n))
    chunks = list(ircutils.authenticate_generator(data))
    h.update(repr(chunks).encode())
    check('authenticate_generator: chunk sizes',
          all(len(c) == 400 for c in chunks[:-1]) and
          (chunks[-1] == '+' or 0 < len(chunks[-1]) < 400), repr(n))
    check('authenticate_generator(base64ify=False)',
          list(ircutils.authenticate_generator('x' * n, base64ify=False)) ==
          [('x' * n)[k:k+400] or '+' for k in range(0, n + 1, 400)], repr(n))
    decoder = ircutils.AuthenticateDecoder()
    for (k, chunk) in enumerate(chunks):
        check('AuthenticateDecoder: not ready before the last chunk',
              not decoder.ready, repr((n, k)))
        decoder.feed(ircmsgs.IrcMsg(command='AUTHENTICATE', args=(chunk,)))
    check('AuthenticateDecoder: ready after the last chunk', decoder.ready,
          repr(n))
    check('AuthenticateDecoder: round trip', decoder.get() == data, repr(n))

for run in ALL_RUNS:
    h.update('\n'.join(run.transcript).encode('utf-8', 'replace'))
    h.update(b'\n')
digest = h.hexdigest()
nlines = sum(len(r.transcript) for r in ALL_RUNS)
print('%d Irc objects, %d transcript lines, digest %s' % (
    len(ALL_RUNS), nlines, digest))
if os.environ.get('C08_DUMP'):
    with open(os.environ['C08_DUMP'], 'w') as fd:
        for run in ALL_RUNS:
            fd.write('\n'.join(run.transcript) + '\n')
check('behaviour digest equals the one of the unmodified tree',
      digest == EXPECTED_DIGEST, 'expected %s' % EXPECTED_DIGEST)

if failures:
    print('FAIL')
    sys.stdout.flush()
    os._exit(1)
print('PASS')
sys.stdout.flush()
os._exit(0)
