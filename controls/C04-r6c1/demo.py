#!/usr/bin/env python
"""Equivalence demo for a behaviour-preserving refactor of the sender
recognition code (src/ircdb.py, src/ircutils.py, plugins/User/plugin.py).

Runs four groups of scenarios against the supybot sources of the current
working directory and compares a digest of everything observable (return
values, exception types and arguments, log calls, replies sent by the bot,
bytes of the users file) with the digest recorded on the unmodified tree.

  python _mutants/c1/demo.py            -> prints PASS / FAIL
  python _mutants/c1/demo.py --record   -> prints the digests (to paste below)
"""
import os
import sys
import time
import random
import shutil
import hashlib
import tempfile
import traceback

EXPECTED = {
    'glob': '760ad55d1eb8ba64709afbca5e216330',
    'user': '4da96e7f519c34bcc24a2abea0d578a2',
    'db': '2bf96c252a3fb5af3fc0a8056d10a870',
    'plugin': '2cfa4dcfcb4de01a185bbbedfe1892b0',
}

if os.environ.get('PYTHONHASHSEED') != '0':
    # Iteration order of the hostmask sets (which mask of several is reported
    # as the matching one) depends on string hashing: pin it.
    os.environ['PYTHONHASHSEED'] = '0'
    os.execv(sys.executable, [sys.executable] + sys.argv)

ROOT = os.getcwd()
sys.path.insert(0, ROOT)     # ./supybot -> ./src
SCRATCH = tempfile.mkdtemp(prefix='c04demo-')


def bootstrap():
    for d in ('data', 'conf', 'logs', 'backup', 'tmp', 'web'):
        os.makedirs(os.path.join(SCRATCH, d))
    regfile = os.path.join(SCRATCH, 'conf', 'bot.conf')
    with open(regfile, 'w') as fd:
        fd.write("""
supybot.directories.data: %(b)s/data
supybot.directories.data.tmp: %(b)s/tmp
supybot.directories.data.web: %(b)s/web
supybot.directories.conf: %(b)s/conf
supybot.directories.log: %(b)s/logs
supybot.directories.backup: %(b)s/backup
supybot.reply.whenNotCommand: True
supybot.log.stdout: False
supybot.log.stdout.level: CRITICAL
supybot.log.level: CRITICAL
supybot.log.plugins.individualLogfiles: False
supybot.protocols.irc.throttleTime: 0
supybot.reply.whenAddressedBy.chars: @
supybot.networks.test.server: should.not.need.this
supybot.networks.test.ssl: False
supybot.nick: bot
supybot.abuse.flood.command: False
supybot.abuse.flood.command.invalid: False
supybot.databases.users.allowUnregistration: True
""" % {'b': SCRATCH})
    import supybot
    assert os.path.realpath(os.path.dirname(supybot.__file__)) == \
        os.path.realpath(os.path.join(ROOT, 'src')), supybot.__file__
    import supybot.registry as registry
    registry.open_registry(regfile)
    import supybot.log
    import supybot.conf as conf
    conf.supybot.flush.setValue(False)
    return conf


conf = bootstrap()
import supybot.log as log
import supybot.ircdb as ircdb
import supybot.utils as utils
import supybot.world as world
import supybot.ircmsgs as ircmsgs
import supybot.ircutils as ircutils

_salts = [0]
_realSaltHash = utils.saltHash
def _saltHash(password, salt=None, hash='sha'):
    # deterministic salts, so that the users file can be compared
    if salt is None:
        _salts[0] += 1
        salt = 'salt%04d' % _salts[0]
    return _realSaltHash(password, salt=salt, hash=hash)
utils.saltHash = _saltHash
utils.gen.saltHash = _saltHash


class Trace(object):
    """Ordered record of everything observed in one scenario group."""
    def __init__(self):
        self.lines = []

    def add(self, *items):
        self.lines.append(repr(items))

    def call(self, label, f, *args, **kwargs):
        try:
            r = f(*args, **kwargs)
        except AssertionError as e:
            self.add(label, 'raised', 'AssertionError', str(e))
            return None
        except Exception as e:
            self.add(label, 'raised', type(e).__name__, canon(e.args))
            return e
        self.add(label, 'returned', canon(r))
        return r

    def digest(self):
        h = hashlib.sha256()
        for line in self.lines:
            h.update(line.encode('utf-8', 'backslashreplace'))
            h.update(b'\n')
        return h.hexdigest()[:32]


def canon(x):
    """A stable description of a value, including its type."""
    if isinstance(x, ircdb.IrcUser):
        return ('IrcUser', x.id, x.name)
    if isinstance(x, (set, frozenset)):
        return (type(x).__name__, sorted((canon(y) for y in x), key=repr))
    if isinstance(x, dict):
        return ('dict', [(canon(k), canon(v)) for (k, v) in x.items()])
    if isinstance(x, (list, tuple)):
        return (type(x).__name__, [canon(y) for y in x])
    if isinstance(x, float):
        return ('float', repr(x))
    return (type(x).__name__, repr(x).replace(SCRATCH, '<scratch>'))


class FakeClock(object):
    """Stands in for the `time` module inside ircdb (settable clock)."""
    def __init__(self, now):
        self.now = now

    def time(self):
        return self.now

    def __getattr__(self, name):
        return getattr(time, name)


class LogSpy(object):
    """Records every call made to the logger of a module."""
    def __init__(self, trace, label):
        self.trace = trace
        self.label = label

    def __getattr__(self, name):
        def f(*args, **kwargs):
            self.trace.add('log', self.label, name, canon(args),
                           canon(sorted(kwargs.items())))
        return f


###
# Group 1: glob matching, pattern intersection, case folding.
###
SPECIAL = '[]\\^{}|~'
ALPHA = 'aAbBzZkK'
OTHER = '.-_09`'
WILD = '*?'


def randPart(rng, wild, n=None):
    n = rng.randint(1, 5) if n is None else n
    pool = SPECIAL * 2 + ALPHA + OTHER + (WILD * 4 if wild else '')
    return ''.join(rng.choice(pool) for _ in range(n))


def randMask(rng, wild):
    return '%s!%s@%s' % (randPart(rng, wild), randPart(rng, wild),
                         randPart(rng, wild))


def groupGlob():
    t = Trace()
    rng = random.Random(0xC04)
    fixedPatterns = [
        '*!*@*', '*', '', '?', '**', '*?*', 'a', 'A', '[', '{', ']', '}',
        '\\', '|', '^', '~', 'nick!user@host', 'NICK!USER@HOST',
        'n[c]k!u\\r@h^st', 'N{C}K!U|R@H~ST', '*!*@*.example.com',
        '*!*@*.EXAMPLE.com', '?ick!*@host', 'nick!user@host\n',
        'k!k@k', 'K!k@k', 's!ſ@s', 'i!i@İ', 'é!É@é',
        'a.b!c+d@e(f)', 'a$!^b@c$', '$', '.', '.*', '\\*', 'foo!bar@baz ',
        '*!*@\n', 'a\nb!c@d', '*!~*@*', '*!^*@*', '[a-z]!x@y', '{a-z}!x@y',
    ]
    fixedMasks = [
        'nick!user@host', 'NICK!USER@HOST', 'n{c}k!u|r@h~st',
        'N[C]K!U\\R@H^ST', 'a!b@c.example.com', 'a!b@C.EXAMPLE.COM',
        'Nick!user@host', 'nick!user@host\n', 'nick!user@host\n\n',
        'k!k@k', 'K!k@k', 'K!K@K', 's!s@s', 'ſ!s@s', 'i!i@i',
        'é!é@é', 'É!É@É', 'a.b!c+d@e(f)', 'aXb!c+d@e(f)', 'a$!^b@c$',
        'a$!~b@c$', '', 'x', '*!*@*', 'a\nb!c@d', 'foo!bar@baz ',
        'z!~z@z', 'z!^z@z', '[a-z]!x@y', 'b!x@y', '{A-Z}!x@y',
    ]
    patterns = fixedPatterns + [randMask(rng, True) for _ in range(160)] + \
        [randPart(rng, True, rng.randint(0, 6)) for _ in range(40)]
    masks = fixedMasks + [randMask(rng, False) for _ in range(120)]
    # derive matching candidates from patterns so that positives are common
    for p in patterns[:120]:
        s = ''.join(rng.choice('xX[{') if c == '?' else
                    (rng.choice(['', 'y', 'Y}', '|\\']) if c == '*' else
                     rng.choice([c, c.swapcase(),
                                 ircutils.toLower(c), c]))
                    for c in p)
        masks.append(s)
    for p in patterns:
        for m in masks:
            t.add('eq', p, m, ircutils.hostmaskPatternEqual(p, m))
    # twice more, now answered by the memo tables (and after they overflowed)
    for p in patterns[::3]:
        for m in masks[::2]:
            t.add('eq2', p, m, ircutils.hostmaskPatternEqual(p, m))
    for p in patterns:
        for q in patterns[::2]:
            t.add('meet', p, q, ircutils.hostmaskPatternsIntersect(p, q),
                  ircutils.hostmaskPatternsIntersect(q, p))
    for s in patterns + masks:
        t.add('lower', s, ircutils.toLower(s),
              ircutils.toLower(s, 'rfc1459'), ircutils.toLower(s, 'ascii'),
              ircutils.isUserHostmask(s))
    t.call('lower-bad', ircutils.toLower, 'abc', 'strict-rfc1459')
    t.call('lower-bad2', ircutils.toLower, 'abc', '')
    for a in masks[:40]:
        for b in masks[:40]:
            t.add('streq', a, b, ircutils.strEqual(a, b))
    t.call('streq-bad', ircutils.strEqual, 'a', 1)
    for m in masks:
        if ircutils.isUserHostmask(m):
            t.add('split', m, ircutils.splitHostmask(m),
                  ircutils.nickFromHostmask(m), ircutils.userFromHostmask(m),
                  ircutils.hostFromHostmask(m))
    t.call('eq-bad1', ircutils.hostmaskPatternEqual, None, 'a!b@c')
    t.call('eq-bad2', ircutils.hostmaskPatternEqual, 'a!b@c', None)
    t.call('eq-bad3', ircutils.hostmaskPatternEqual, ['a'], 'a')
    t.call('meet-bad1', ircutils.hostmaskPatternsIntersect, None, 'a')
    t.call('meet-bad2', ircutils.hostmaskPatternsIntersect, 'a', 5)
    # IrcSet / IrcString are what the hostmask sets are made of
    s = ircutils.IrcSet(['Foo[x]!a@b', 'foo{x}!a@b', 'BAR!a@b'])
    t.add('ircset', sorted(s), len(s), 'FOO{X}!A@B' in s, 'bar!a@B' in s,
          'baz' in s)
    t.call('ircset-remove', s.remove, 'FOO[X]!a@b')
    t.call('ircset-remove2', s.remove, 'FOO[X]!a@b')
    t.add('ircset', sorted(s))
    return t


###
# Group 2: one IrcUser (hostmasks, logins, timeouts, secure flag).
###
class Buf(object):
    def __init__(self):
        self.parts = []

    def write(self, s):
        self.parts.append(s)


def userState(u):
    buf = Buf()
    u.preserve(buf, indent=' ')
    text = ''.join(buf.parts).split(os.linesep)
    hm = sorted(x for x in text if x.startswith(' hostmask'))
    rest = [x for x in text if not x.startswith(' hostmask')]
    return (u.id, u.name, u.secure, canon(u.auth), hm, rest,
            sorted(str(h) for h in u.hostmasks))


def groupUser():
    t = Trace()
    clock = FakeClock(1000.0)
    ircdb.time = clock
    spy = LogSpy(t, 'ircdb')
    realLog = ircdb.log
    ircdb.log = spy
    timeoutVar = conf.supybot.databases.users.timeoutIdentification
    try:
        rng = random.Random(4)
        prefixes = ['nick!user@host', 'NICK!USER@HOST', 'n[a]!u@h', 'n{a}!u@h',
                    'other!x@y.example.com', 'o!x@Y.EXAMPLE.COM', 'q!q@q']
        masks = ['nick!*@host', '*!*@*.example.com', 'n[a]!*@*', 'N{A}!U@H',
                 '*!*@*', 'ab!c@d', '?!?@?', 'q!q@q']
        for secure in (False, True):
            for timeout in (0, 50, 3):
                timeoutVar.setValue(timeout)
                u = ircdb.IrcUser(name='u%s' % timeout, secure=secure)
                u.id = 7
                for step in range(90):
                    op = rng.randrange(10)
                    p = rng.choice(prefixes)
                    m = rng.choice(masks)
                    if op == 0:
                        t.call('addHostmask', u.addHostmask, m)
                    elif op == 1:
                        t.call('removeHostmask', u.removeHostmask,
                               rng.choice([m, m.upper(), m.lower()]))
                    elif op in (2, 3):
                        t.call('addAuth', u.addAuth, p)
                    elif op == 4:
                        clock.now += rng.choice([0.5, 1, 2, 3, 49, 50, 51])
                        t.add('tick', clock.now)
                    elif op == 5 and rng.random() < 0.3:
                        t.call('clearAuth', u.clearAuth)
                    elif op == 6:
                        t.call('checkNoAuth', u.checkHostmask, p,
                               useAuth=False)
                    else:
                        t.call('check', u.checkHostmask, p)
                    t.add('state', userState(u))
        # error paths of addHostmask
        u = ircdb.IrcUser(name='err')
        t.call('addHostmask-nomask', u.addHostmask, 'justanick')
        t.call('addHostmask-short', u.addHostmask, '*!*@*')
        t.call('addHostmask-short2', u.addHostmask, 'a!?@b')
        t.call('addHostmask-ok', u.addHostmask, 'a!b@c')
        t.call('addHostmask-dup', u.addHostmask, 'A!B@C')
        t.call('removeHostmask-missing', u.removeHostmask, 'x!y@z')
        t.add('state', userState(u))
        # secure user: login refused without a matching mask
        u = ircdb.IrcUser(name='sec', secure=True)
        t.call('sec-addAuth', u.addAuth, 'a!b@c')
        u.addHostmask('*!bb@cc')
        t.call('sec-addAuth2', u.addAuth, 'A!bb@cc')
        t.call('sec-addAuth3', u.addAuth, 'a!BB@cc')
        t.call('sec-addAuth4', u.addAuth, 'A!bb@cc')
        t.call('sec-addAuth5', u.addAuth, 'A!bb@ccc')
        t.add('state', userState(u))
        # duplicates in the login list collapse on the last one
        u = ircdb.IrcUser(name='dups')
        for (i, p) in enumerate(['a!a@a', 'b!b@b', 'a!a@a', 'c!c@c', 'b!b@b',
                                 'A!a@a']):
            clock.now += 1
            u.addAuth(p)
            t.add('dups', canon(u.auth))
        # expired entries are dropped whether or not the lookup succeeds
        timeoutVar.setValue(10)
        u = ircdb.IrcUser(name='exp')
        u.auth = [(clock.now - 100, 'a!a@a'), (clock.now - 5, 'b!b@b'),
                  (clock.now - 100, 'c!c@c'), (clock.now - 100, 'a!a@a'),
                  (clock.now - 10, 'd!d@d'), (clock.now - 10.5, 'e!e@e')]
        t.call('exp-check', u.checkHostmask, 'b!b@b')
        t.add('exp', canon(u.auth))
        u.auth = [(clock.now - 100, 'a!a@a'), (clock.now - 5, 'b!b@b'),
                  (clock.now - 100, 'c!c@c')]
        t.call('exp-check2', u.checkHostmask, 'zz!b@b')
        t.add('exp', canon(u.auth))
        u.auth = [(clock.now - 5, 'b!b@b'), (clock.now - 100, 'c!c@c')]
        t.call('exp-check3', u.checkHostmask, 'b!b@b')
        t.add('exp', canon(u.auth))
        u.auth = [(clock.now - 100, 'c!c@c'), ('bogus', 'x!x@x')]
        t.call('exp-check4', u.checkHostmask, 'q!q@q')
        t.add('exp', canon(u.auth))
        # capabilities of ignored users (same class, same module)
        u = ircdb.IrcUser(name='ign', ignore=True, capabilities=['admin'])
        for cap in ('admin', '-admin', '#c,op', '#c,-op', 'owner'):
            t.call('ign-cap', u._checkCapability, cap)
        u.ignore = False
        for cap in ('admin', '-admin', '#c,op', 'owner'):
            t.call('cap', u._checkCapability, cap)
    finally:
        ircdb.time = time
        ircdb.log = realLog
        timeoutVar.setValue(0)
    return t


###
# Group 3: the users database (caches, uniqueness, file format).
###
def dbState(users):
    return [(id, userState(u)) for (id, u) in sorted(users.users.items())]


def readFile(path):
    try:
        with open(path, 'rb') as fd:
            return fd.read()
    except IOError as e:
        return 'unreadable'


def fileState(path):
    """users.conf, with the (unordered) hostmask lines of a record sorted."""
    data = readFile(path)
    if not isinstance(data, bytes):
        return data
    out = []
    block = []
    for line in data.split(os.linesep.encode()):
        if line.startswith(b'  hostmask '):
            block.append(line)
        else:
            out.extend(sorted(block))
            block = []
            out.append(line)
    out.extend(sorted(block))
    return out


def groupDb():
    t = Trace()
    clock = FakeClock(5000.0)
    ircdb.time = clock
    realLog = ircdb.log
    ircdb.log = LogSpy(t, 'ircdb')
    timeoutVar = conf.supybot.databases.users.timeoutIdentification
    dbfile = os.path.join(SCRATCH, 'conf', 'demo-users.conf')
    try:
        for seed in range(14):
            rng = random.Random(1000 + seed)
            users = ircdb.UsersDictionary()
            realUsers = ircdb.users
            ircdb.users = users      # clearAuth and addNick use the global
            try:
                if seed % 3 != 2:
                    users.filename = dbfile + str(seed)
                if seed % 4 == 1:
                    # tiny caches: they empty themselves all the time
                    users._hostmaskCache.max = 3
                    users._nameCache.max = 3
                timeoutVar.setValue([0, 20, 5][seed % 3])
                names = ['Alice', 'bob', 'CAROL', 'dave', 'a!b@c', 'ALICE',
                         'Bob', 'x y', 'bad\nname']
                prefixes = ['al!ice@home', 'AL!ICE@HOME', 'bob!b@work.example',
                            'bob!b@WORK.example', 'c[x]!c@c', 'c{x}!c@c',
                            'dave!d@d.example.org', 'eve!e@e', 'a!b@c']
                masks = ['al!*@home', '*!ice@*', 'bob!*@*.example',
                         '*!*@work.example', 'c[x]!*@*', 'C{X}!c@c',
                         '*!*@*.example.org', 'dave!d@*', '*!*@*.org',
                         'eve!e@e', '???!*@*', 'a!b@c', '*!b@*']
                for step in range(170):
                    ids = sorted(users.users.keys())
                    op = rng.randrange(20)
                    p = rng.choice(prefixes)
                    m = rng.choice(masks)
                    uid = rng.choice(ids) if ids else 1
                    if op == 0 or not ids:
                        u = t.call('newUser', users.newUser)
                        u.name = rng.choice(names)
                        if rng.random() < 0.5:
                            u.secure = True
                        if rng.random() < 0.5:
                            u.setPassword('pw%s' % u.id, hashed=False)
                            u.hashed = False
                        t.call('setUser-new', users.setUser, u)
                        if isinstance(users.users.get(u.id), ircdb.IrcUser) \
                           and not users.users[u.id].name.strip():
                            pass
                    elif op in (1, 2, 3):
                        u = users.users[uid]
                        r = t.call('addHostmask', u.addHostmask, m)
                        if r is None:
                            r = t.call('setUser', users.setUser, u,
                                       flush=rng.random() < 0.7)
                            if isinstance(r, Exception) and \
                               rng.random() < 0.8:
                                # what the plugin does on a refusal
                                t.call('undo', u.removeHostmask, m)
                    elif op == 4:
                        u = users.users[uid]
                        if u.hostmasks and rng.random() < 0.8:
                            m = rng.choice(sorted(u.hostmasks))
                        t.call('removeHostmask', u.removeHostmask, m)
                        t.call('setUser', users.setUser, u)
                    elif op in (5, 6):
                        u = users.users[uid]
                        r = t.call('addAuth', u.addAuth, p)
                        if not isinstance(r, Exception):
                            t.call('setUser-noflush', users.setUser, u,
                                   flush=False)
                    elif op == 7:
                        u = users.users[uid]
                        t.call('clearAuth', u.clearAuth)
                        if rng.random() < 0.7:
                            t.call('setUser', users.setUser, u)
                    elif op == 8:
                        clock.now += rng.choice([1, 4, 5, 6, 19, 20, 21])
                        t.add('tick', clock.now)
                    elif op == 9 and rng.random() < 0.5:
                        t.call('delUser', users.delUser, uid)
                    elif op == 10:
                        u = users.users[uid]
                        u.name = rng.choice(names)
                        t.call('rename', users.setUser, u)
                    elif op == 11:
                        # in-place change without setUser: the state the
                        # 'multiple matches' repair exists for
                        u = users.users[uid]
                        u.hostmasks.add(m)
                        t.add('inplace', uid, m)
                    elif op == 12:
                        which = rng.randrange(5)
                        if which == 0:
                            t.call('invalidate-id', users.invalidateCache,
                                   uid)
                        elif which == 1:
                            t.call('invalidate-mask', users.invalidateCache,
                                   hostmask=p)
                        elif which == 2:
                            t.call('invalidate-name', users.invalidateCache,
                                   uid, name='whatever')
                        elif which == 3:
                            t.call('invalidate-name-only',
                                   users.invalidateCache, name='whatever')
                        else:
                            t.call('invalidate-both', users.invalidateCache,
                                   id=uid, hostmask=p)
                    elif op == 13:
                        u = users.users[uid]
                        u.secure = not u.secure
                        t.call('secure', users.setUser, u)
                    elif op == 14 and rng.random() < 0.4:
                        if users.filename is not None:
                            ircdb.IrcUserCreator.u = None
                            t.call('reload', users.reload)
                            t.add('nextId', users.nextId)
                    # lookups that warm (and use) the caches
                    for q in rng.sample(prefixes, 3) + [p]:
                        t.call('getUserId', users.getUserId, q)
                    q = rng.choice(names + ['nobody', 'ALICE', 'bOB'])
                    t.call('getUserId-name', users.getUserId, q)
                    t.call('getUser', users.getUser, rng.choice(prefixes))
                    t.call('getUser-id', users.getUser,
                           rng.choice(ids + [99]) if ids else 99)
                    t.call('hasUser', users.hasUser,
                           rng.choice(prefixes + names))
                    t.add('num', users.numUsers())
                    if step % 5 == 0:
                        t.add('db', dbState(users))
                        if users.filename is not None:
                            t.add('file', fileState(users.filename))
                t.call('flush', users.flush)
                t.add('db', dbState(users))
                if users.filename is not None:
                    t.add('file', fileState(users.filename))
                world.flushers.append(users.flush)
                t.call('close', users.close)
                t.add('closed', users.flush in world.flushers,
                      dbState(users))
                t.call('reload-after-close', users.reload)
                t.add('db', dbState(users))
            finally:
                ircdb.users = realUsers
                ircdb.IrcUserCreator.u = None
        # reading hand-written files: collisions, junk, missing file
        samples = {
            'collide': (
                'user 1\n  name one\n  ignore False\n  secure False\n'
                '  hostmask *!*@host\n  hostmask one!*@*\n\n'
                'user 2\n  name two\n  ignore False\n  secure True\n'
                '  hashed False\n  password pw\n  hostmask nick!*@HOST\n'
                '  capability admin\n  nicks net n1 n2\n  gpgkey K\n\n'
                'user 5\n  name ONE\n  ignore True\n  secure False\n'
                '  hostmask five!5@5\n\n'),
            'junk': 'user 1\n  name one\n  frobnicate 3\n\n',
            'nouser': '  name one\n\n',
            'twice': 'user 1\nuser 2\n  name x\n\n',
            'noname': 'user 3\n  ignore False\n\nuser 4\n  name four\n'
                      '  hostmask a!b@c\n\n',
            'empty': '',
        }
        for (label, text) in sorted(samples.items()):
            ircdb.IrcUserCreator.u = None
            path = dbfile + '-' + label
            with open(path, 'w') as fd:
                fd.write(text)
            users = ircdb.UsersDictionary()
            t.call('open-' + label, users.open, path)
            t.add('noFlush', users.noFlush, users.nextId)
            t.add('db', dbState(users))
            t.add('file', fileState(path))
            for q in ('nick!x@host', 'one!x@y', 'five!5@5', 'a!b@c', 'one',
                      'ONE', 'two', 'four'):
                t.call('getUserId', users.getUserId, q)
                t.call('getUserId-again', users.getUserId, q)
        ircdb.IrcUserCreator.u = None
        users = ircdb.UsersDictionary()
        t.call('open-missing', users.open, dbfile + '-does-not-exist')
        t.add('noFlush', users.noFlush)
        t.call('reload-nofile', ircdb.UsersDictionary().reload)
        t.call('flush-nofile', ircdb.UsersDictionary().flush)
        users = ircdb.UsersDictionary()
        users.noFlush = True
        t.call('flush-noflush', users.flush)
        # overlapping masks of two accounts, all the shapes
        ircdb.IrcUserCreator.u = None
        users = ircdb.UsersDictionary()
        a = users.newUser()
        a.name = 'a'
        users.setUser(a)
        b = users.newUser()
        b.name = 'b'
        users.setUser(b)
        pairs = [('x*!*@*', '*y!*@*'), ('n[1]!*@*', 'N{1}!u@h'),
                 ('abc!*@h', 'ab?!u@h'), ('abc!*@h', 'abd!*@h'),
                 ('*!*@*.com', '*!*@*.org'), ('*!*@a.*', '*!*@*.b'),
                 ('foo!*@*', 'FOO!bar@baz'), ('a~b!*@*', 'a^b!*@*'),
                 ('a|b!*@*', 'a\\b!*@*'), ('aaa!a@a', 'aaa!a@a')]
        for (x, y) in pairs:
            a.hostmasks.clear()
            b.hostmasks.clear()
            users.setUser(a)
            users.setUser(b)
            a.hostmasks.add(x)
            t.call('overlap-a', users.setUser, a)
            b.hostmasks.add(y)
            t.call('overlap-b', users.setUser, b)
            t.add('db', dbState(users))
        # a login of one account equal to a mask the other wants
        a.hostmasks.clear()
        b.hostmasks.clear()
        users.setUser(a)
        users.setUser(b)
        a.addAuth('lo!g@in')
        users.setUser(a, flush=False)
        b.addHostmask('lo!g@in')
        t.call('mask-vs-login', users.setUser, b)
        t.call('who', users.getUserId, 'lo!g@in')
        t.call('who2', users.getUserId, 'LO!g@in')
        t.call('who3', users.getUserId, 'lo!g@in')
        t.add('db', dbState(users))
        # stale ids, aliases
        users.users[50] = a.id
        t.call('alias', users.getUser, 50)
        del users.users[50]
        t.call('nick', users.getUserFromNick, 'net', 'n1')
    finally:
        ircdb.time = time
        ircdb.log = realLog
        timeoutVar.setValue(0)
        ircdb.IrcUserCreator.u = None
    return t


###
# Group 4: the User plugin on a live (in-process) bot.
###
def groupPlugin():
    import supybot.irclib as irclib
    import supybot.plugin as plugin
    import supybot.callbacks as callbacks
    t = Trace()
    clock = FakeClock(90000.0)
    conf.registerNetwork('test')
    usersFile = os.path.join(SCRATCH, 'conf', 'users.conf')
    ircdb.users.open(usersFile)
    irc = irclib.Irc('test')
    for name in ('Owner', 'Misc', 'User'):
        module = plugin.loadPluginModule(name)
        cb = plugin.loadPluginClass(irc, module)
    userLog = irc.getCallback('User').log
    spy = LogSpy(t, 'plugin')
    irc.getCallback('User').log = spy
    realLog = ircdb.log
    ircdb.log = LogSpy(t, 'ircdb')
    ircdb.time = clock
    timeoutVar = conf.supybot.databases.users.timeoutIdentification
    # bring the connection to the registered state
    irc.feedMsg(ircmsgs.IrcMsg(':srv 001 bot :Welcome'))
    irc.feedMsg(ircmsgs.IrcMsg(':srv 376 bot :End of MOTD'))
    drain(irc)
    irc.feedMsg(ircmsgs.IrcMsg(':bot!b@bot JOIN #chan'))
    drain(irc)

    def say(prefix, text, to='bot'):
        msg = ircmsgs.IrcMsg(prefix=prefix, command='PRIVMSG',
                             args=(to, text))
        irc.feedMsg(msg)
        out = drain(irc)
        t.add('say', prefix, to, text, out)
        t.add('db', dbState(ircdb.users))
        t.add('file', fileState(usersFile))
        return out

    def nick(prefix, new):
        irc.feedMsg(ircmsgs.IrcMsg(prefix=prefix, command='NICK',
                                   args=(new,)))
        t.add('nick', prefix, new, drain(irc))
        t.add('db', dbState(ircdb.users))

    def who(*prefixes):
        for p in prefixes:
            t.call('who', ircdb.users.getUserId, p)

    try:
        A = 'al!ice@home.example'
        A2 = 'AL!ICE@HOME.example'
        A3 = 'al!ice@other.example'
        B = 'b[o]b!b@work.example'
        B2 = 'B{O}B!b@work.example'
        E = 'eve!e@evil.example'
        O = 'own!er@castle'
        for p in (A, A3, B, E, O):
            irc.feedMsg(ircmsgs.IrcMsg(prefix=p, command='JOIN',
                                       args=('#chan',)))
        drain(irc)
        say(A, 'user whoami')
        say(A, 'user register alice secret')
        say(A, 'user register alice2 secret')      # hostmask already known
        say(A2, 'user whoami')
        say(A, 'user register alice secret', to='#chan')
        say(A, '@user register chanalice secret', to='#chan')
        say(B, 'user register alice other')        # name taken
        say(B, 'user register ALICE other')
        say(B, 'user register b!o@b pw')           # hostmask as a name
        say(B, 'user register "b\\nob" pw')
        say(B, 'user register bob hunter2')
        say(B2, 'user whoami')
        say(E, 'user whoami')
        say(E, 'user identify alice wrong')
        say(E, 'user identify alice secret')
        say(E, 'user whoami')
        who(A, A2, A3, B, B2, E)
        say(E, 'user hostmask list')
        say(E, 'user hostmask list alice')
        say(E, 'user hostmask list bob')
        say(E, 'user hostmask list nobody')
        say(E, 'user unidentify')
        say(E, 'user whoami')
        say(E, 'user unidentify')
        say(E, 'user hostmask list')
        # masks: add / refusals / remove
        say(A, 'user hostmask add alice *!ice@*.example')
        say(A, 'user hostmask add *!ice@*.example')
        say(A3, 'user whoami')
        say(A, 'user hostmask add alice "b[o]b!*@*"')
        say(A, 'user hostmask add alice "*!b@work.*"')
        say(A, 'user hostmask add alice notamask')
        say(A, 'user hostmask add alice *!*@*')
        say(E, 'user hostmask add alice eve!*@* wrong')
        say(E, 'user hostmask add alice eve!*@* secret')
        say(E, 'user whoami')
        say(E, 'user hostmask add bob eve!e@evil.example hunter2')
        say(E, 'user hostmask remove alice eve!*@* wrong')
        say(E, 'user hostmask remove alice EVE!*@*')
        say(E, 'user whoami')
        say(A, 'user hostmask remove alice nope!*@*')
        say(A, 'user hostmask list')
        say(B, 'user hostmask list alice')
        say(B, 'user hostmask remove bob all')
        say(B, 'user whoami')
        say(B, 'user hostmask add bob')
        say(B, 'user hostmask add bob "%s" hunter2' % B)
        say(B2, 'user whoami')
        # secure accounts
        say(B, 'user set secure hunter2')
        say(B, 'user set secure wrong True')
        say(B, 'user whoami')
        say(E, 'user identify bob hunter2')        # no matching mask
        say(E, 'user whoami')
        say(B, 'user identify bob hunter2')
        say(B2, 'user whoami')
        say(B, 'user set secure hunter2 False')
        say(E, 'user identify bob hunter2')
        say(E, 'user whoami')
        say(E, 'user set secure hunter2 True')     # E's mask is not bob's
        # timeouts
        timeoutVar.setValue(30)
        clock.now += 29
        say(E, 'user whoami')
        clock.now += 2
        say(E, 'user whoami')
        who(E, B, B2)
        say(E, 'user identify bob hunter2')
        clock.now += 10
        say(E, 'user identify alice secret')       # two accounts, one sender
        say(E, 'user whoami')
        who(E)
        say(E, 'user whoami')
        timeoutVar.setValue(0)
        # NICK following
        def logout():
            for u in list(ircdb.users.users.values()):
                u.auth = []
                ircdb.users.setUser(u, flush=False)
        logout()
        M = 'mallory!e@evil.example'
        say(E, 'user identify bob hunter2')
        nick(E, 'mallory')                           # not followed (default)
        who(E, M, 'MALLORY!e@evil.example')
        say(M, 'user whoami')
        say(E, 'user whoami')
        nick(M, 'eve')
        conf.supybot.followIdentificationThroughNickChanges.setValue(True)
        say(E, 'user whoami')
        nick(E, 'mallory')
        who(E, M, 'MALLORY!e@evil.example')
        say(M, 'user whoami')
        say(E, 'user whoami')
        nick(M, 'eve2')
        who(M, 'eve2!e@evil.example')
        say('eve2!e@evil.example', 'user whoami')
        say('eve2!e@evil.example', 'user identify alice secret')
        nick('eve2!e@evil.example', 'eve3')          # two logins follow
        who('eve2!e@evil.example', 'eve3!e@evil.example')
        say('eve3!e@evil.example', 'user whoami')
        logout()
        say(A3, 'user identify alice secret')        # also known by mask
        nick(A3, 'alx')
        who(A3, 'alx!ice@other.example')
        nick('alx!ice@other.example', 'b[o]b')
        who('b[o]b!ice@other.example', B)
        nick(B, 'robert')                            # recognised by mask only
        who(B, 'robert!b@work.example')
        nick('nobody!x@y', 'nobody2')
        nick('bot!b@bot', 'bot2')
        t.add('botnick', irc.nick, irc.prefix)
        nick('bot2!b@bot', 'bot')
        conf.supybot.followIdentificationThroughNickChanges.setValue(False)
        logout()
        # names, passwords, owner
        say(A, 'user changename alice bob')
        say(A, 'user changename alice Alicia')
        say(A, 'user changename Alicia a!b@c')
        say(A, 'user whoami')
        say(E, 'user changename Alicia eve wrong')
        say(E, 'user changename Alicia eve secret')
        say(A, 'user whoami')
        say(A, 'user changename eve alice')
        say(A, 'user set password secret newsecret')
        say(E, 'user identify alice secret')
        say(E, 'user identify alice newsecret')
        say(E, 'user unidentify')
        say(A, 'user username "%s"' % B)
        say(A, 'user username "%s"' % B2)
        say(A, 'user username %s' % E)
        say(A, 'user username "b[o]b"')
        say(A, 'user username "B{O}B"')
        say(A, 'user username eve')
        say(A, 'user username ghost')
        say(A, 'user list')
        say(A, 'user list a*')
        say(A, 'user list --capability owner')
        say(A, 'user list zz*')
        say(A, 'user stats')
        say(A, 'user capabilities')
        say(A, 'user capabilities bob')
        say(O, 'user register owner opw')
        ircdb.users.getUser('owner').addCapability('owner')
        ircdb.users.setUser(ircdb.users.getUser('owner'))
        say(O, 'user list --capability owner')
        say(A, 'user list --capability owner')
        say(O, 'user capabilities bob')
        say(O, 'user hostmask list alice')
        say(O, 'user hostmask add alice "b[o]b!b@work.example"')
        say(O, 'user hostmask add bob own!*@*')
        say(O, 'user hostmask add bob bobby!*@*')
        say(O, 'user hostmask remove bob bobby!*@*')
        say(O, 'user register carol cpw')           # owner registers others
        say(O, 'user hostmask list carol')
        say(O, 'user set password bob whatever new2')
        say(E, 'user identify bob new2')
        say(E, 'user unidentify')
        say(O, 'user stats')
        # error paths of the password / secure / unregister commands
        say(E, 'user set password bob wrong new3')
        say(E, 'user set password wrong new3')       # unknown sender
        say(B, 'user set password wrong new3')
        say(B, 'user set password new2 new3')
        say(B, 'user set password new3 new2')
        say(E, 'user set secure new2')               # unknown sender
        say(E, 'user unregister bob')
        say(E, 'user unregister bob wrong')
        say(E, 'user unregister nobody pw')
        say(B, 'user hostmask remove')               # own current hostmask
        say(B, 'user whoami')
        say(B, 'user hostmask add bob "%s" new2' % B)
        say(B, 'user hostmask add')                  # already there
        say(B, 'user hostmask remove bob zz!zz@zz wrong')
        say(B, 'user hostmask add bob "B{O}B!*@*"')
        say(B2, 'user hostmask list')
        say(B2, 'user hostmask list BOB')
        say(B2, 'user hostmask list bob')
        say(B, 'user identify bob new2', to='#chan')
        say(B, '@user identify bob new2', to='#chan')
        say(B, '@user whoami', to='#chan')
        say(B, '@user list', to='#chan')
        # private capabilities in 'user list'
        conf.supybot.capabilities.private.setValue(['secret', 'owner'])
        ircdb.users.getUser('bob').addCapability('secret')
        ircdb.users.setUser(ircdb.users.getUser('bob'))
        say(A, 'user list --capability secret')
        say(E, 'user list --capability secret')
        say(O, 'user list --capability secret')
        say(O, 'user list --capability secret b*')
        say(O, 'user list --capability secret --capability owner')
        say(O, 'user list --capability secret z*')
        say(O, 'user capabilities bob')
        say(B, 'user capabilities')
        say(B, 'user capabilities owner')
        conf.supybot.capabilities.private.setValue([])
        conf.supybot.plugins.User.listInPrivate.setValue(False)
        say(B, '@user list', to='#chan')
        conf.supybot.plugins.User.listInPrivate.setValue(True)
        conf.supybot.plugins.User.customWhoamiError.setValue('Who are you?')
        say(E, 'user whoami')
        conf.supybot.plugins.User.customWhoamiError.setValue('')
        conf.supybot.databases.users.allowUnregistration.setValue(False)
        say(A, 'user unregister alice newsecret')
        say(E, 'user unregister alice newsecret')
        say(O, 'user unregister carol')
        conf.supybot.databases.users.allowUnregistration.setValue(True)
        say(E, 'user unregister alice wrong')
        say(A, 'user unregister alice newsecret')
        say(A, 'user whoami')
        who(A, A2, A3, B, B2, E, O)
        say(O, 'user list')
        # reload from the file written so far
        ircdb.IrcUserCreator.u = None
        t.call('reload', ircdb.users.reload)
        t.add('db', dbState(ircdb.users))
        who(A, B, B2, E, O)
        say(B, 'user whoami')
        say(A, 'user whoami')
    finally:
        ircdb.time = time
        ircdb.log = realLog
        irc.getCallback('User').log = userLog
        timeoutVar.setValue(0)
    return t


def drain(irc):
    out = []
    for _ in range(200):
        m = irc.takeMsg()
        if m is None:
            break
        out.append(str(m))
    return out


GROUPS = [('glob', groupGlob), ('user', groupUser), ('db', groupDb),
          ('plugin', groupPlugin)]


def main():
    record = '--record' in sys.argv
    dump = [a[7:] for a in sys.argv if a.startswith('--dump=')]
    code = 0
    got = {}
    for (name, f) in GROUPS:
        try:
            t = f()
            got[name] = t.digest()
            if dump:
                with open('%s.%s' % (dump[0], name), 'w') as fd:
                    for line in t.lines:
                        fd.write(line.encode('ascii', 'backslashreplace')
                                 .decode('ascii') + '\n')
            print('%-7s %6d observations  %s' % (name, len(t.lines),
                                                 got[name]))
        except Exception:
            traceback.print_exc()
            got[name] = 'crashed'
            code = 1
    if record:
        for (name, _) in GROUPS:
            print("    %r: %r," % (name, got[name]))
    else:
        for (name, _) in GROUPS:
            if got[name] != EXPECTED[name]:
                print('MISMATCH in group %s: expected %s, got %s'
                      % (name, EXPECTED[name], got[name]))
                code = 1
        print('PASS' if code == 0 else 'FAIL')
    sys.stdout.flush()
    shutil.rmtree(SCRATCH, ignore_errors=True)
    os._exit(code)


if __name__ == '__main__':
    try:
        main()
    except BaseException:
        traceback.print_exc()
        sys.stdout.flush()
        os._exit(2)
