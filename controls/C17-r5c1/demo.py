# ---------------------------------------------------------------------------
# Crash laboratory (shared, pasted into every demo so that each is
# self-contained).  A trial forks; the child instruments the file-system
# operations that touch the scratch directories (open for writing, write,
# flush, close, truncate, rename/replace, remove/unlink, link, symlink,
# sendfile/copy_file_range) and dies with os._exit -- no buffers flushed, no
# finally/atexit/__del__ run -- right before its k-th such operation.  The
# parent then looks at what is on disk.  k runs over every operation of the
# save, plus one trial that runs to completion.
# ---------------------------------------------------------------------------
import os, sys, tempfile, shutil, builtins

if os.environ.get('PYTHONHASHSEED') != '0':
    # Capabilities are kept in sets: fix the order in which they are written,
    # so that the recorded operation traces can be compared.
    os.environ['PYTHONHASHSEED'] = '0'
    os.execv(sys.executable, [sys.executable] + sys.argv)

ROOT = os.getcwd()
sys.path.insert(0, ROOT)
SCRATCH = tempfile.mkdtemp(prefix='c17demo_')
os.chdir(SCRATCH)
for d in ('conf', 'data', 'data/tmp', 'backup', 'logs', 'work'):
    os.makedirs(os.path.join(SCRATCH, d))
with open(os.path.join(SCRATCH, 'bot.conf'), 'w') as f:
    f.write('supybot.directories.conf: %s/conf\n' % SCRATCH)
    f.write('supybot.directories.data: %s/data\n' % SCRATCH)
    f.write('supybot.directories.data.tmp: %s/data/tmp\n' % SCRATCH)
    f.write('supybot.directories.backup: %s/backup\n' % SCRATCH)
    f.write('supybot.directories.log: %s/logs\n' % SCRATCH)
    f.write('supybot.log.stdout: False\n')
    f.write('supybot.log.level: CRITICAL\n')
import supybot
from supybot import registry
registry.open_registry(os.path.join(SCRATCH, 'bot.conf'))
from supybot import conf, utils, world, ircdb, dbi, ircutils

WATCH = [os.path.join(SCRATCH, d) for d in ('conf', 'data', 'backup', 'work')]
EXTRA_WATCH = []

def _watched(path):
    try:
        path = os.path.abspath(os.fspath(path))
    except TypeError:
        return True         # file descriptors: count them
    if isinstance(path, bytes):
        path = path.decode()
    return any(path == w or path.startswith(w + os.sep)
               for w in WATCH + EXTRA_WATCH)

def _arm(k, trace=None):
    """Instruments this (child) process: die before watched operation #k.
    If trace is a list, the watched operations are appended to it."""
    count = [0]
    def tick(path, what='?', data=None):
        if _watched(path):
            if count[0] == k:
                os._exit(77)
            count[0] += 1
            if trace is not None:
                trace.append('%s %s %r' % (what, path, data))
    real_open = builtins.open
    class Proxy(object):
        def __init__(self, f, path):
            self.__dict__['_f'] = f
            self.__dict__['_p'] = path
        def write(self, data):
            tick(self._p, 'write', data); return self._f.write(data)
        def writelines(self, lines):
            lines = list(lines); tick(self._p, 'writelines', lines); return self._f.writelines(lines)
        def flush(self):
            tick(self._p, 'flush'); return self._f.flush()
        def truncate(self, *a):
            tick(self._p, 'truncate', a); return self._f.truncate(*a)
        def close(self):
            if not self._f.closed:
                tick(self._p, 'close')
            return self._f.close()
        def __enter__(self):
            return self
        def __exit__(self, *a):
            self.close()
        def __iter__(self):
            return iter(self._f)
        def __getattr__(self, name):
            return getattr(self._f, name)
    def open_(file, mode='r', *a, **kw):
        if isinstance(file, (str, bytes, os.PathLike)) and _watched(file) \
                and any(c in mode for c in 'wax+'):
            tick(file, 'open', mode)
            return Proxy(real_open(file, mode, *a, **kw), file)
        return real_open(file, mode, *a, **kw)
    builtins.open = open_
    def wrap(name, argno=0):
        real = getattr(os, name, None)
        if real is None:
            return
        def f(*a, **kw):
            tick(a[argno] if len(a) > argno else 0, name, a[1:])
            return real(*a, **kw)
        setattr(os, name, f)
    for name in ('replace', 'rename', 'remove', 'unlink', 'link', 'symlink',
                 'truncate', 'chmod', 'utime'):
        wrap(name)
    for name in ('sendfile', 'copy_file_range', 'ftruncate'):
        real = getattr(os, name, None)
        if real is not None:
            def f(*a, _real=real, _name=name, **kw):
                tick(0, _name)
                return _real(*a, **kw)
            setattr(os, name, f)

def crash_trials(prepare, action, inspect, limit=20000, step=1):
    """prepare(): (re)creates the on-disk state, in the parent.
    action(): the save, run in the child.  inspect(k, died): called in the
    parent after the child is gone; returns None or a complaint."""
    complaints = []
    k = 0
    while k < limit:
        prepare()
        sys.stdout.flush(); sys.stderr.flush()
        pid = os.fork()
        if pid == 0:
            code = 3
            try:
                _arm(k)
                action()
                code = 0
            except BaseException as e:
                try:
                    sys.stderr.write('child: %r\n' % (e,))
                except Exception:
                    pass
            os._exit(code)
        (_, status) = os.waitpid(pid, 0)
        code = os.WEXITSTATUS(status) if os.WIFEXITED(status) else -1
        if code not in (0, 77):
            complaints.append('trial %d: child failed with status %r'
                              % (k, status))
            break
        c = inspect(k, code == 77)
        if c:
            complaints.append(c)
        if code == 0:
            break
        k += step
    return (k, complaints)

def traced(prepare, action):
    """The watched operations of action(), run to completion in a child."""
    prepare()
    (r, w) = os.pipe()
    sys.stdout.flush(); sys.stderr.flush()
    pid = os.fork()
    if pid == 0:
        code = 3
        try:
            os.close(r)
            trace = []
            _arm(-1, trace)
            action()
            with os.fdopen(w, 'w') as fd:
                fd.write('\n'.join(trace))
            code = 0
        except BaseException as e:
            sys.stderr.write('child: %r\n' % (e,))
        os._exit(code)
    os.close(w)
    with os.fdopen(r) as fd:
        text = fd.read()
    (_, status) = os.waitpid(pid, 0)
    assert status == 0, status
    return text

def slurp(path):
    """Bytes of the file, or None if there is no such file."""
    try:
        with open(path, 'rb') as fd:
            return fd.read()
    except FileNotFoundError:
        return None

def clean(*dirs):
    for d in dirs:
        d = os.path.join(SCRATCH, d)
        shutil.rmtree(d, ignore_errors=True)
        os.makedirs(d)

def finish(problems):
    sys.stdout.flush()
    shutil.rmtree(SCRATCH, ignore_errors=True)
    if problems:
        print('FAIL')
        for p in problems[:12]:
            print('  ' + p)
        if len(problems) > 12:
            print('  ... and %d more' % (len(problems) - 12))
        sys.stdout.flush()
        os._exit(1)
    print('PASS')
    sys.stdout.flush()
    os._exit(0)
# ---------------------------------------------------------------------------

# ---------------------------------------------------------------------------
# c1 (control): the refactored save paths still behave exactly as before
# ---------------------------------------------------------------------------
import re, hashlib

SHM = tempfile.mkdtemp(prefix='c17demo_', dir='/dev/shm') \
    if os.path.isdir('/dev/shm') else None
if SHM is not None and os.stat(SHM).st_dev == os.stat(SCRATCH).st_dev:
    shutil.rmtree(SHM); SHM = None      # not another file system: skip
if SHM is not None:
    EXTRA_WATCH.append(SHM)

def one_trial(prepare, action, k):
    prepare()
    sys.stdout.flush(); sys.stderr.flush()
    pid = os.fork()
    if pid == 0:
        code = 3
        try:
            _arm(k)
            action()
            code = 0
        except BaseException as e:
            sys.stderr.write('child: %r\n' % (e,))
        os._exit(code)
    (_, status) = os.waitpid(pid, 0)
    return os.WEXITSTATUS(status) if os.WIFEXITED(status) else -1

def normalize(trace):
    trace = trace.replace(SCRATCH, '$S')
    if SHM:
        trace = trace.replace(SHM, '$X')
    trace = re.sub(r'\b[0-9a-f]{40}\b', 'TOKEN', trace)
    trace = re.sub(r'\.backup\.\d+', '.backup.T', trace)
    return trace

# -- the databases ----------------------------------------------------------
def users(n):
    db = ircdb.UsersDictionary()
    db.noFlush = True
    for i in range(1, n + 1):
        u = ircdb.IrcUser(name='us\xe9r%03d' % i)      # non-ASCII too
        u.id = i
        u.addHostmask('nick%d!ident%d@host%d.example.org' % (i, i, i))
        u.addCapability('#chan%d,op' % i)
        db.users[i] = u
    db.noFlush = False
    db.filename = os.path.join(SCRATCH, 'conf', 'users.conf')
    return db

def channels(n):
    db = ircdb.ChannelsDictionary()
    db.noFlush = True
    for i in range(n):
        c = ircdb.IrcChannel()
        c.addBan('*!*@spam%d.example.com' % i)
        c.addCapability('voice%d' % i)
        db.channels['#chan%03d' % i] = c
    db.noFlush = False
    db.filename = os.path.join(SCRATCH, 'conf', 'channels.conf')
    return db

def networks(n):
    db = ircdb.NetworksDictionary()
    db.noFlush = True
    for i in range(n):
        net = ircdb.IrcNetwork()
        net.addStsPolicy('irc%d.example.org' % i, 'duration=%d,port=6697' % i)
        db.networks['net%d' % i] = net
    db.noFlush = False
    db.filename = os.path.join(SCRATCH, 'conf', 'networks.conf')
    return db

def ignores(n):
    db = ircdb.IgnoresDB()
    for i in range(n):
        # Never, in the far future, and already expired (not written).
        db.hostmasks['*!*@bore%d.example.com' % i] = (0, 4102444800, 1)[i % 3]
    db.filename = os.path.join(SCRATCH, 'conf', 'ignores.conf')
    return db

def group(n, text):
    g = registry.Group()
    g.setName('demo')
    for i in range(n):
        g.register('key%03d' % i, registry.String(text,
            'Help text of value number %d, long enough to be wrapped over '
            'more than one line of the configuration file.' % i))
    g.register('nohelp', registry.Integer(3, ''))
    return g

confFile = os.path.join(SCRATCH, 'conf', 'bot.conf')
flatFile = os.path.join(SCRATCH, 'data', 'Quote.flat.db')

def flat(removed):
    def make():
        m = dbi.FlatfileMapping(flatFile)
        for i in range(14):
            m.add('quote number %d: %s' % (i, 'bl\xe4 ' * (i % 5)))
        for i in removed:
            m.remove(i)
    return make

def flatOp(f):
    return lambda: f(dbi.FlatfileMapping(flatFile))

def regSave(g):
    return lambda: registry.close(g, confFile)

def nothing():
    pass

# (title, file, makes the previous version, the save under test)
CASES = [
    ('users grow', users(3).filename, users(3).flush, users(9).flush),
    ('users shrink', users(3).filename, users(9).flush, users(3).flush),
    ('users first save', users(3).filename, nothing, users(4).flush),
    ('users to empty', users(3).filename, users(4).flush, users(0).flush),
    ('channels grow', channels(1).filename, channels(2).flush, channels(6).flush),
    ('channels shrink', channels(1).filename, channels(6).flush, channels(2).flush),
    ('networks grow', networks(1).filename, networks(1).flush, networks(4).flush),
    ('networks shrink', networks(1).filename, networks(4).flush, networks(1).flush),
    ('ignores grow', ignores(1).filename, ignores(2).flush, ignores(9).flush),
    ('ignores to empty', ignores(1).filename, ignores(9).flush, ignores(0).flush),
    ('ignores first save', ignores(1).filename, nothing, ignores(4).flush),
    ('config grow', confFile, regSave(group(3, 'short')),
     regSave(group(5, 'a much longer value'))),
    ('config shrink', confFile, regSave(group(5, 'a much longer value')),
     regSave(group(3, 'short'))),
    ('config first save', confFile, nothing, regSave(group(3, 'x: y\\'))),
    ('flat vacuum', flatFile, flat((0, 5, 6, 13)), flatOp(lambda m: m.vacuum())),
    ('flat vacuum, nothing removed', flatFile, flat(()),
     flatOp(lambda m: m.vacuum())),
    ('flat vacuum, all removed', flatFile, flat(range(14)),
     flatOp(lambda m: m.vacuum())),
    ('flat close', flatFile, flat((2,)), flatOp(lambda m: m.close())),
    ('flat set existing', flatFile, flat((1,)),
     flatOp(lambda m: m.set(7, 'replaced: text'))),
    ('flat set new id', flatFile, flat(()), flatOp(lambda m: m.set(40, 'new'))),
]

CONFIGS = [('no tmp/backup dir', None, None),
           ('tmp+backup dirs', os.path.join(SCRATCH, 'data', 'tmp'),
            os.path.join(SCRATCH, 'backup')),
           ('tmp dir, backups to /dev/null',
            os.path.join(SCRATCH, 'data', 'tmp'), '/dev/null')]
if SHM is not None:
    CONFIGS.append(('tmp dir on another file system', SHM, None))

# sha1 of the normalized operation traces of all cases, per configuration,
# recorded on the unmodified tree (python 3.12).
EXPECTED = {
    'no tmp/backup dir': 'e729574f6375f7e6054070fbb3e405d6737b99ba',
    'tmp+backup dirs': '6a0f932783d48fb03356624f911e730e1e5198e8',
    'tmp dir, backups to /dev/null': '3a36b50824945d8a477fb0d5b1247418acee2bfe',
    'tmp dir on another file system': '4cc77e099f8719fe37a00335d540e2805574799c',
}

problems = []
for (label, tmpDir, backupDir) in CONFIGS:
    utils.file.AtomicFile.default.tmpDir = tmpDir
    utils.file.AtomicFile.default.backupDir = backupDir
    digest = hashlib.sha1()
    points = 0
    for (title, target, makeOld, save) in CASES:
        title = '%s (%s)' % (title, label)
        def reset():
            clean('conf', 'data', 'backup')
            os.makedirs(os.path.join(SCRATCH, 'data', 'tmp'))
            if SHM is not None:
                for name in os.listdir(SHM):
                    os.remove(os.path.join(SHM, name))
        reset()
        utils.file.AtomicFile.default.tmpDir = None
        utils.file.AtomicFile.default.backupDir = None
        makeOld()
        utils.file.AtomicFile.default.tmpDir = tmpDir
        utils.file.AtomicFile.default.backupDir = backupDir
        old = slurp(target)
        def prepare():
            reset()
            if old is not None:
                with open(target, 'wb') as fd:
                    fd.write(old)
        trace = normalize(traced(prepare, save))
        new = slurp(target)
        strays = sorted(normalize(os.path.join(d, f)) for (d, _, fs) in
                        os.walk(SCRATCH) for f in fs if '/logs' not in d)
        if os.environ.get('C17_DUMP'):
            with open(os.environ['C17_DUMP'], 'a') as dump:
                dump.write('%s\n%s\n%r\n%r\n' % (title, trace, new, strays))
        digest.update(('%s\n%s\n%r\n%r\n' % (title, trace, new, strays))
                      .encode('utf8'))
        if new is None:
            problems.append('%s: no file after the save' % title)
            continue
        n = len(trace.splitlines())
        ks = sorted(set(range(0, n, 5)) | set(range(max(0, n - 16), n + 1)))
        allowed = [old, new] + ([b''] if old is None else [])
        for k in ks:
            code = one_trial(prepare, save, k)
            points += 1
            got = slurp(target)
            if code not in (0, 77):
                problems.append('%s: trial %d failed (%r)' % (title, k, code))
                break
            if (code == 77) != (k < n):
                problems.append('%s: %d operations traced, but dying before '
                                '#%d gave status %d' % (title, n, k, code))
            if got not in allowed:
                problems.append(
                    '%s: died before operation #%d of %d: %s on disk, neither '
                    'the previous (%s) nor the new version (%d bytes)'
                    % (title, k, n,
                       'no file' if got is None else '%d bytes' % len(got),
                       'no file' if old is None else '%d bytes' % len(old),
                       len(new)))
            if code == 0 and got != new:
                problems.append('%s: complete save differs' % title)
    digest = digest.hexdigest()
    verdict = 'as recorded' if EXPECTED.get(label) == digest else \
        'DIFFERENT from the recorded %s' % EXPECTED.get(label)
    print('%-34s %2d cases, %4d crash points; operations+results %s: %s'
          % (label, len(CASES), points, digest[:12], verdict))
    if EXPECTED.get(label) != digest:
        problems.append('%s: the sequence of file-system operations or the '
                        'files produced differ from the unmodified tree '
                        '(%s, recorded %s)' % (label, digest, EXPECTED.get(label)))

# -- edge cases of the AtomicFile API that the refactoring touched -------------
def edge(name, ok):
    if not ok:
        problems.append('edge case failed: %s' % name)

for (label, tmpDir, backupDir) in CONFIGS:
    clean('work', 'backup')
    if tmpDir and tmpDir.startswith(SCRATCH):
        os.makedirs(tmpDir, exist_ok=True)
    utils.file.AtomicFile.default.tmpDir = tmpDir
    utils.file.AtomicFile.default.backupDir = backupDir
    AF = utils.file.AtomicFile
    t = os.path.join(SCRATCH, 'work', 'f.txt')
    where = tmpDir or os.path.dirname(t)
    # temporary name: <basename>.<40 hex digits> in tmpDir or next to the target
    fd = AF(t)
    edge('temp name (%s)' % label,
         os.path.dirname(fd.tempFilename) == where and
         re.match(r'^f\.txt\.[0-9a-f]{40}$', os.path.basename(fd.tempFilename)))
    fd.write('one\n'); fd.rollback()
    edge('rollback removes temp, no target (%s)' % label,
         not os.path.exists(fd.tempFilename) and not os.path.exists(t)
         and fd.rolledback and fd.closed)
    try:
        fd.close(); edge('close after rollback raises (%s)' % label, False)
    except ValueError as e:
        edge('close after rollback message (%s)' % label,
             str(e) == 'AtomicFile.close called after rollback.')
    fd.rollback()                                   # second rollback: no-op
    fd = AF(t); fd.write('first version\n'); fd.close()
    edge('first save (%s)' % label, slurp(t) == b'first version\n'
         and not os.path.exists(fd.tempFilename))
    fd.rollback()                                   # after close: no-op
    edge('rollback after close keeps file (%s)' % label,
         slurp(t) == b'first version\n' and not fd.rolledback)
    # refused empty overwrite: old stays, temp stays behind, no exception
    fd = AF(t, allowEmptyOverwrite=False); fd.close()
    edge('empty overwrite refused (%s)' % label,
         slurp(t) == b'first version\n' and os.path.exists(fd.tempFilename))
    os.remove(fd.tempFilename)
    # ... but an empty first version is written
    t2 = os.path.join(SCRATCH, 'work', 'g.txt')
    fd = AF(t2, allowEmptyOverwrite=False); fd.close()
    edge('empty first version (%s)' % label, slurp(t2) == b'')
    # shrinking: one backup, where it belongs, with the old content
    fd = AF(t); fd.write('v2\n'); fd.close()
    if backupDir == '/dev/null':
        found = [f for f in os.listdir(os.path.dirname(t)) if 'backup' in f]
        edge('no backup with /dev/null (%s)' % label, found == [])
    else:
        bdir = backupDir or os.path.dirname(t)
        found = [f for f in os.listdir(bdir) if f.startswith('f.txt.backup.')]
        edge('one backup of the old version (%s)' % label, len(found) == 1 and
             re.match(r'^f\.txt\.backup\.\d+$', found[0]) and
             slurp(os.path.join(bdir, found[0])) == b'first version\n')
    # no backup when asked not to, none when growing or equal
    before = sorted(os.listdir(backupDir)) if backupDir and \
        backupDir != '/dev/null' else sorted(os.listdir(os.path.dirname(t)))
    fd = AF(t, makeBackupIfSmaller=False); fd.write('v\n'); fd.close()
    fd = AF(t); fd.write('w\n'); fd.close()
    fd = AF(t); fd.write('longer again\n'); fd.close()
    after = sorted(os.listdir(backupDir)) if backupDir and \
        backupDir != '/dev/null' else sorted(os.listdir(os.path.dirname(t)))
    edge('no needless backups (%s)' % label,
         before == after and slurp(t) == b'longer again\n')
    # binary mode, explicit directories, context manager
    with AF(t, 'wb', tmpDir=os.path.join(SCRATCH, 'work'),
            backupDir=os.path.join(SCRATCH, 'work')) as fd:
        fd.write(b'\x00\xff')
        temp = fd.tempFilename
    edge('binary with explicit dirs (%s)' % label, slurp(t) == b'\x00\xff'
         and os.path.dirname(temp) == os.path.join(SCRATCH, 'work'))
    try:
        with AF(t) as fd:
            fd.write('never')
            raise KeyError('x')
    except KeyError:
        pass
    edge('exception in with block rolls back (%s)' % label,
         slurp(t) == b'\x00\xff' and not os.path.exists(fd.tempFilename))
    # unwritable target: error, old version stays
    fd = AF(t); fd.write('x'); d = os.path.join(SCRATCH, 'work', 'dir')
    os.mkdir(d); fd.filename = d
    try:
        fd.close(); edge('directory as target refused (%s)' % label, False)
    except (IOError, OSError):
        edge('directory as target untouched (%s)' % label, os.path.isdir(d))
    # a mapping whose records contain the separator, set on the last line
    clean('data')
    os.makedirs(os.path.join(SCRATCH, 'data', 'tmp'))
    m = dbi.FlatfileMapping(flatFile)
    ids = [m.add('a:b:%d' % i) for i in range(3)]
    m.remove(ids[1]); m.set(ids[2], 'c:d'); m.vacuum()
    edge('flat round trip (%s)' % label,
         list(m) == [(ids[0], 'a:b:0'), (ids[2], 'c:d')] and
         slurp(flatFile) == b'000004\n000001:a:b:0\n000003:c:d\n')
    with open(flatFile, 'a') as raw:
        raw.write('garbage without separator\n')
    before = slurp(flatFile)
    try:
        m.set(ids[0], 'z'); edge('malformed line raises (%s)' % label, False)
    except ValueError:
        import gc; gc.collect()
        edge('failed set leaves the file alone (%s)' % label,
             slurp(flatFile) == before)
print('AtomicFile/FlatfileMapping edge cases checked in %d configurations'
      % len(CONFIGS))
if SHM is not None:
    shutil.rmtree(SHM, ignore_errors=True)
finish(problems)
