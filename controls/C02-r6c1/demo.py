#!/usr/bin/env python
"""Equivalence demo for the C02 controls.

Drives the code the property depends on (src/ircdb.py, src/unpreserve.py, the
User, Admin, Channel, Owner and Config plugins through a real in-process bot)
over many edge cases, error paths and non-default configurations, records
every observable result (return values, exceptions, log calls, replies sent,
every write made to the database files and the bytes of the files), and
compares the digest of that transcript with the one recorded on the
unmodified tree.

usage: demo.py [--dump FILE]     (prints PASS / FAIL, exit status 0 / 1)
"""
import os
import sys

# Sets are iterated when the databases are written: fix the string hashes so
# that the bytes written are reproducible from one run to the next.
if os.environ.get('PYTHONHASHSEED') != '0':
    os.environ['PYTHONHASHSEED'] = '0'
    os.execv(sys.executable, [sys.executable] + sys.argv)

EXPECTED = '4458c0355605c5c69981262b69657bfbe26a494f554c8206f2ecdfa166adf5e4'

import io
import re
import json
import time
import shutil
import hashlib
import tempfile
import traceback

ROOT = os.path.dirname(os.path.dirname(os.path.dirname(
    os.path.abspath(__file__))))
sys.path.insert(0, ROOT)
TMP = tempfile.mkdtemp(prefix='c02demo')

OBS = []
def norm(x):
    if isinstance(x, str):
        return re.sub(r' at 0x[0-9a-fA-F]+', ' at 0x?', x.replace(TMP, '<TMP>'))
    if isinstance(x, bytes):
        return norm(x.decode('utf8', 'replace'))
    if isinstance(x, (list, tuple)):
        return [norm(y) for y in x]
    if isinstance(x, dict):
        return [[norm(k), norm(v)] for (k, v) in x.items()]
    if isinstance(x, (set, frozenset)):
        return ['<set>'] + [norm(y) for y in x]     # iteration order matters
    if isinstance(x, (int, float, bool)) or x is None:
        return x
    return norm(repr(x))

def obs(tag, *values):
    OBS.append([tag] + [norm(v) for v in values])

def attempt(tag, f, *args, **kwargs):
    """Calls f and records its result or its exception (class, args and the
    chain of __context__ classes)."""
    try:
        r = f(*args, **kwargs)
    except BaseException as e:
        chain = []
        c = e.__context__
        while c is not None:
            chain.append(type(c).__name__)
            c = c.__context__
        obs(tag, 'raised', type(e).__name__, list(e.args), chain)
        return e
    else:
        obs(tag, 'returned', r)
        return r

def finish(code):
    sys.stdout.flush()
    sys.stderr.flush()
    shutil.rmtree(TMP, ignore_errors=True)
    os._exit(code)

def main():
    ###########################################################################
    # Bootstrap (as scripts/supybot-test does, but NOT in testing mode: the
    # real capability checks are wanted).
    ###########################################################################
    for d in ('conf', 'data', 'logs', 'backup'):
        os.mkdir(os.path.join(TMP, d))
    registryFilename = os.path.join(TMP, 'conf', 'bot.conf')
    with open(registryFilename, 'w') as fd:
        fd.write('''
supybot.directories.data: %(t)s/data
supybot.directories.conf: %(t)s/conf
supybot.directories.log: %(t)s/logs
supybot.directories.backup: %(t)s/backup
supybot.reply.whenNotCommand: True
supybot.log.stdout: False
supybot.log.stdout.level: CRITICAL
supybot.log.level: DEBUG
supybot.log.format: %%(levelname)s %%(message)s
supybot.log.plugins.individualLogfiles: False
supybot.protocols.irc.throttleTime: -1.0
supybot.reply.whenAddressedBy.chars: @
supybot.networks.test.server: should.not.need.this
supybot.networks.test.ssl: False
supybot.nick: bot
supybot.abuse.flood.command: False
supybot.abuse.flood.command.invalid: False
supybot.databases.users.allowUnregistration: True
''' % {'t': TMP})
    import supybot
    assert os.path.realpath(supybot.__file__).startswith(
        os.path.realpath(ROOT)), supybot.__file__
    import supybot.registry as registry
    registry.open_registry(registryFilename)
    import supybot.world
    supybot.world.registryFilename = registryFilename
    import supybot.log as log
    import supybot.conf as conf
    conf.supybot.flush.setValue(False)
    import supybot.utils as utils
    import supybot.world as world
    import supybot.ircdb as ircdb
    import supybot.irclib as irclib
    import supybot.ircmsgs as ircmsgs
    import supybot.ircutils as ircutils
    import supybot.commands as commands
    import supybot.callbacks as callbacks
    import supybot.unpreserve as unpreserve
    import supybot.plugin as plugin
    assert not world.testing

    # -- log calls -----------------------------------------------------------
    # Every call made to the logger is recorded as made (format and
    # arguments), except the identifier Logger.exception derives from the
    # names of the functions in the traceback (it names internal functions by
    # design) and its dump of debugging data.
    origLog = log.Logger._log
    skipNext = [False]
    def recordingLog(self, level, msg, args, exc_info=None, extra=None):
        if msg == 'Exception id: %s':
            skipNext[0] = True
        elif skipNext[0] and msg == '%s':
            skipNext[0] = False
        elif msg == 'findCallbacksForArgs: %r':
            # The order of this list depends on the addresses of the plugins.
            obs('log', level, msg)
        else:
            obs('log', level, msg, [str(a) for a in args], bool(exc_info))
        return origLog(self, level, msg, args, exc_info=exc_info, extra=extra)
    log.Logger._log = recordingLog

    # -- clock ----------------------------------------------------------------
    class Clock(object):
        def __init__(self):
            self.now = 1700000000.0
        def time(self):
            return self.now
        def __getattr__(self, name):
            return getattr(time, name)
    clock = Clock()
    ircdb.time = clock
    commands.time = clock

    # -- password salts ---------------------------------------------------------
    origSaltHash = utils.saltHash
    saltCounter = [0]
    def saltHash(password, salt=None, hash='sha'):
        if salt is None:
            saltCounter[0] += 1
            salt = 'salt%04d' % saltCounter[0]
        return origSaltHash(password, salt=salt, hash=hash)
    utils.saltHash = saltHash

    # -- every write made to a database file ------------------------------------
    origAtomicFile = utils.file.AtomicFile
    class RecordingAtomicFile(origAtomicFile):
        def write(self, s):
            obs('fdwrite', os.path.basename(self.filename), s)
            return origAtomicFile.write(self, s)
        def close(self):
            obs('fdclose', os.path.basename(self.filename))
            return origAtomicFile.close(self)
    utils.file.AtomicFile = RecordingAtomicFile

    class RecordingFd(object):
        def __init__(self):
            self.writes = []
        def write(self, s):
            self.writes.append(s)

    def fileBytes(name):
        try:
            with open(os.path.join(TMP, 'conf', name), 'rb') as fd:
                return fd.read()
        except EnvironmentError as e:
            return 'missing'

    def resetCreators():
        ircdb.IrcUserCreator.u = None
        ircdb.IrcChannelCreator.name = None
        ircdb.IrcNetworkCreator.name = None

    ###########################################################################
    # A. Capability functions and sets
    ###########################################################################
    words = ['owner', 'OWNER', '-owner', '-Owner', 'admin', '-admin', 'op',
             '#c,op', '#C,-op', '-#c,op', '#c,-OP', '#c[x],Op', '#c,', ',x',
             'a b', ' owner', 'owner ', 'owner\n', '', '-', '#c,-',
             'x,y', '#c,a,b', 'Trusted', '{}|', '[]\\', '-{}|', 'user.add',
             '#{,[}', '#[,{]']
    for w in words:
        for f in (ircdb.isCapability, ircdb.isChannelCapability,
                  ircdb.isAntiCapability, ircdb.fromChannelCapability,
                  ircdb.makeAntiCapability, ircdb.unAntiCapability,
                  ircdb.invertCapability, ircdb.canonicalCapability):
            attempt('capfn %s %r' % (f.__name__, w), f, w)
        attempt('makeChannelCapability', ircdb.makeChannelCapability, '#C', w)
        attempt('makeChannelCapability', ircdb.makeChannelCapability, w, 'op')
    attempt('canonicalCapability callable', ircdb.canonicalCapability,
            lambda: 'FOO')
    attempt('unWildcardHostmask', ircdb.unWildcardHostmask, '*!a?@b*')

    for cls in (ircdb.CapabilitySet, ircdb.UserCapabilitySet):
        s = attempt('new', cls, ['Foo', '-bar', '#C,Op', '{x}'])
        seq = [('add', 'foo'), ('add', '-foo'), ('add', 'FOO'),
               ('add', 'bar'), ('add', '-owner'), ('add', 'Owner'),
               ('remove', 'nothere'), ('remove', '-FOO'), ('add', '#c,-op'),
               ('add', '[X]'), ('add', '-{x}'), ('remove', 'OWNER'),
               ('add', 'owner'), ('add', 'a b'), ('add', '')]
        for (op, w) in seq:
            attempt('%s %s %r' % (cls.__name__, op, w), getattr(s, op), w)
            obs('set', list(s), repr(s), len(s))
            for q in words:
                attempt('contains %r' % q, s.__contains__, q)
                attempt('check %r' % q, s.check, q)
                attempt('check %r ignoreOwner' % q, s.check, q,
                        ignoreOwner=True)
                if cls is ircdb.UserCapabilitySet:
                    attempt('contains %r ignoreOwner' % q, s.__contains__, q,
                            True)
    attempt('empty user set', lambda: (ircdb.UserCapabilitySet().check('x')))
    attempt('antiOwner', lambda: ircdb.antiOwner)

    ###########################################################################
    # B. unpreserve.Reader with a recording creator
    ###########################################################################
    class Recorder(ircdb.Creator):
        count = [0]
        notcallable = 'a string'
        none = None
        def __init__(self, *args, **kwargs):
            Recorder.count[0] += 1
            self.n = Recorder.count[0]
            obs('creator new', self.n, args, kwargs)
        def user(self, rest, lineno):
            obs('creator user', self.n, rest, lineno)
        def name(self, rest, lineno):
            obs('creator name', self.n, rest, lineno)
        def boom(self, rest, lineno):
            obs('creator boom', self.n, rest, lineno)
            raise RuntimeError('boom %s' % rest)
        def finish(self):
            obs('creator finish', self.n)
    texts = [
        '',
        '\n\n  \n',
        'user 1\n  name a\n  name b\n\nuser 2\n  name c\n',
        'user 1\r\n  name a\r\n\r\nuser 2\r\n  name  c  d \r\n',
        'user 1\n\tname tabbed\n        name eight\n  name two\n',
        'USER 1\n  NaMe Mixed\n',
        '  name indented first\nuser 3\n',
        'user 1\n  unknown x\n  name never\n',
        'user 1\n  name\n',
        'user 1\n  notcallable x\n',
        'user 1\n  none x\n',
        'user 1\n  finish x\n',
        'user 1\n  boom now\n  name after\n',
        'user 1\n  name a\n    name deeper\n  name back\nuser 2',
        'user 1\n  name a \\\n  name b\n',
        'user\t1\n  name\ta\tb\n',
        'user 1\n  name a\n\n\n  name b\n   \nuser 2\n',
        'user 1\n  n\xe4me x\n',
        'user 1\n  _private x\n  __init__ y\n',
    ]
    for text in texts:
        reader = unpreserve.Reader(Recorder, 'A', k='K')
        attempt('Reader.read %r' % text, reader.read, io.StringIO(text))
        obs('reader state', reader.modifiedCreator, reader.indent,
            reader.creator is not None)
        # A reader is reusable: a second file continues with the first state.
        attempt('Reader.read again', reader.read, io.StringIO('user 9\n'))
        obs('reader state', reader.modifiedCreator, reader.indent)
    reader = unpreserve.Reader(Recorder)
    attempt('readFile missing', reader.readFile, os.path.join(TMP, 'nope'))
    attempt('normalizeCommand', reader.normalizeCommand, 'AbC')

    ###########################################################################
    # C. IrcUser, IrcChannel, IrcNetwork
    ###########################################################################
    timeoutId = conf.supybot.databases.users.timeoutIdentification
    for secure in (False, True):
        for timeout in (0, 100):
            timeoutId.setValue(timeout)
            clock.now = 1700000000.0
            u = ircdb.IrcUser(name='U', secure=secure)
            u.addHostmask('known!*@host')
            masks = ['a!b@c', 'd!e@f', 'a!b@c', 'known!x@host', 'A!b@c',
                     'd!e@f', 'known!x@host', 'a!b@c']
            for (i, m) in enumerate(masks):
                clock.now += 30
                attempt('addAuth %s' % m, u.addAuth, m)
                obs('auth', u.auth)
                for q in ('a!b@c', 'A!b@c', 'd!e@f', 'known!y@host', 'q!q@q'):
                    attempt('checkHostmask %s' % q, u.checkHostmask, q)
                    attempt('checkHostmask %s noauth' % q, u.checkHostmask, q,
                            useAuth=False)
                    obs('auth', u.auth)
            clock.now += 60
            attempt('checkHostmask late', u.checkHostmask, 'd!e@f')
            obs('auth', u.auth)
            clock.now += 1000
            attempt('checkHostmask later', u.checkHostmask, 'known!x@host')
            attempt('checkHostmask later', u.checkHostmask, 'q!q@q')
            obs('auth', u.auth)
    timeoutId.setValue(0)
    clock.now = 1700000000.0
    u = ircdb.IrcUser()
    u.auth = [(1, 'x!y@z'), (2, 'x!y@z'), (3, 'p!q@r'), (4, 'x!y@z')]
    attempt('addAuth over duplicates', u.addAuth, 'p!q@r')
    obs('auth', u.auth, type(u.auth).__name__)
    u.auth = [(1, 'x!y@z'), 'bad']
    attempt('addAuth bad entry', u.addAuth, 'p!q@r')
    obs('auth', u.auth)

    def preserved(o, indent='  '):
        fd = RecordingFd()
        attempt('preserve', o.preserve, fd, indent=indent)
        obs('preserve writes', fd.writes)
        fd = RecordingFd()
        attempt('preserve default indent', o.preserve, fd)
        obs('preserve writes', fd.writes)

    u = ircdb.IrcUser()
    preserved(u)
    u = ircdb.IrcUser(name='N a m e', capabilities=['Foo', '-bar', 'owner',
                      '#c,op', '{z}'], secure=True, ignore=True)
    preserved(u)
    u.setPassword('pw')
    obs('password', u.password, u.hashed)
    u.setPassword('pw2', hashed=True)
    obs('password', u.password, u.hashed)
    for m in ('foo!bar@baz', 'FOO!*@*', 'x!y@z.{}|'):
        attempt('addHostmask', u.addHostmask, m)
    for m in ('a!@', '*!*@*', 'nomask', '*!*@a', 'ab!*@*'):
        attempt('addHostmask bad', u.addHostmask, m)
    u.nicks = {'net': ['n1', 'n2'], 'other': []}
    u.gpgkeys = ['K1', 'K2']
    preserved(u, indent='\t')
    attempt('checkPassword', u.checkPassword, 'pw2')
    attempt('checkPassword', u.checkPassword, 'pw')
    attempt('checkPassword', u.checkPassword, None)
    for cap in ('owner', '-owner', 'foo', '-foo', 'bar', 'nothing', '-x'):
        for ign in (True, False):
            u.ignore = ign
            attempt('user._checkCapability %s %s' % (cap, ign),
                    u._checkCapability, cap)
            attempt('user._checkCapability %s %s io' % (cap, ign),
                    u._checkCapability, cap, ignoreOwner=True)
    attempt('removeCapability', u.removeCapability, 'FOO')
    attempt('removeCapability', u.removeCapability, 'FOO')
    attempt('removeHostmask', u.removeHostmask, 'foo!bar@baz')
    attempt('removeHostmask', u.removeHostmask, 'foo!bar@baz')
    attempt('repr', repr, u)

    c = ircdb.IrcChannel()
    preserved(c)
    c = ircdb.IrcChannel(defaultAllow=False, lobotomized=True)
    for cap in ('Op', '-voice', 'foo', '-Bar', '{q}'):
        attempt('chan addCapability', c.addCapability, cap)
    attempt('chan addCapability bad', c.addCapability, 'a b')
    attempt('chan removeCapability', c.removeCapability, 'nothere')
    attempt('chan removeCapability', c.removeCapability, 'FOO')
    c.addBan('b1!*@*', 1700000500)
    c.addBan('b0!*@*')
    c.addBan('b2!*@*', 1699999999.5)
    c.addIgnore('i1!*@*', 1700000100)
    c.addIgnore('i0!*@*', 0)
    c.addIgnore('i2!*@*', 5.5)
    preserved(c)
    for cap in ('op', '-op', 'voice', '-voice', 'bar', '-bar', 'zzz', '-zzz',
                'halfop', 'protected'):
        attempt('chan._checkCapability %s' % cap, c._checkCapability, cap)
        c.defaultAllow = not c.defaultAllow
        attempt('chan._checkCapability %s' % cap, c._checkCapability, cap)
    c.lobotomized = False
    for m in ('b1!x@y', 'b2!x@y', 'i0!x@y', 'i1!x@y', 'i2!x@y', 'n!x@y'):
        attempt('checkIgnored %s' % m, c.checkIgnored, m)
        attempt('checkBan %s' % m, c.checkBan, m)
    obs('chan', c.bans, c.ignores, c.expiredBans)
    preserved(c)
    attempt('repr', repr, c)

    n = ircdb.IrcNetwork()
    preserved(n)
    n.addStsPolicy('z.example', 'port=6697,duration=10')
    n.addStsPolicy('a.example', 'port=1')
    n.addDisconnection('z.example')
    n.lastDisconnectTimes['a.example'] = 5
    preserved(n)
    attempt('addStsPolicy bad', n.addStsPolicy, 'x', 5)
    n.expireStsPolicy('z.example')
    n.expireStsPolicy('z.example')
    preserved(n)
    attempt('repr', repr, n)

    ###########################################################################
    # D. UsersDictionary (own instance, own file)
    ###########################################################################
    def cacheState(db):
        return [sorted(([repr(k), repr(v if not isinstance(v, set)
                                      else sorted(v))])
                       for (k, v) in d.items())
                for d in (db._nameCache, db._hostmaskCache)]
    def dbState(db, name):
        obs('db', [(i, x.name, list(x.capabilities), list(x.hostmasks),
                    x.secure, x.ignore, x.password, x.hashed, x.auth, x.id)
                   for (i, x) in db.users.items()],
            db.nextId, db.noFlush, cacheState(db), fileBytes(name))

    def userDbScenario():
        resetCreators()
        db = ircdb.UsersDictionary()
        attempt('flush without filename', db.flush)
        attempt('reload without filename', db.reload)
        attempt('open missing', db.open, os.path.join(TMP, 'conf', 'u1.conf'))
        dbState(db, 'u1.conf')
        a = attempt('newUser', db.newUser)
        a.name = 'Alice'
        a.setPassword('apw')
        a.addHostmask('alice!*@host.a')
        a.addCapability('admin')
        attempt('setUser', db.setUser, a)
        dbState(db, 'u1.conf')
        b = db.newUser()
        b.name = 'bob'
        b.addHostmask('bob!*@*')
        attempt('setUser', db.setUser, b, flush=False)
        dbState(db, 'u1.conf')
        for q in ('alice', 'ALICE', 'Bob', 'carol', 'alice!x@host.a',
                  'ALICE!x@HOST.A', 'bob!y@z', 'n!o@p', 1, 2, 3, '', 'a b'):
            attempt('getUserId %r' % q, db.getUserId, q) \
                if isinstance(q, str) else None
            attempt('getUser %r' % q, db.getUser, q)
            attempt('hasUser %r' % q, db.hasUser, q)
            obs('cache', cacheState(db))
        # duplicate names and hostmasks
        c = db.newUser()
        c.name = 'ALICE'
        attempt('setUser duplicate name', db.setUser, c)
        c.name = 'carol'
        for m in ('alice!z@host.a', 'alic?!*@host.*', '*!*@host.a',
                  'bob!q@r', '*!*@*'):
            c.hostmasks.add(m)
            attempt('setUser colliding %s' % m, db.setUser, c)
            c.hostmasks.remove(m)
            dbState(db, 'u1.conf')
        c.name = 'car\nol'
        attempt('setUser newline', db.setUser, c)
        c.name = 'car\rol'
        attempt('setUser cr', db.setUser, c)
        c.name = 'carol'
        c.addHostmask('carol!*@*')
        attempt('setUser', db.setUser, c)
        dbState(db, 'u1.conf')
        # a name that looks like a hostmask
        d = db.newUser()
        d.name = 'dave!d@d'
        attempt('setUser hostmask name', db.setUser, d)
        attempt('getUserId hostmask name', db.getUserId, 'dave!d@d')
        attempt('delUser', db.delUser, d.id)
        attempt('delUser again', db.delUser, d.id)
        dbState(db, 'u1.conf')
        # logins: cached, then timed out
        timeoutId.setValue(100)
        clock.now += 10
        attempt('addAuth', a.addAuth, 'roaming!r@r')
        attempt('setUser noflush', db.setUser, a, flush=False)
        attempt('getUserId roaming', db.getUserId, 'roaming!r@r')
        obs('cache', cacheState(db))
        attempt('getUserId roaming cached', db.getUserId, 'roaming!r@r')
        clock.now += 200
        attempt('getUserId roaming timed out', db.getUserId, 'roaming!r@r')
        obs('cache', cacheState(db))
        timeoutId.setValue(0)
        # stale cache entries
        db._hostmaskCache['ghost!g@g'] = 99
        attempt('getUserId stale id', db.getUserId, 'ghost!g@g')
        db._hostmaskCache['ghost!g@g'] = a.id
        db._hostmaskCache[a.id] = set(['ghost!g@g'])
        attempt('getUserId stale match', db.getUserId, 'ghost!g@g')
        obs('cache', cacheState(db))
        # two users matching the same hostmask (records changed in place)
        attempt('getUserId carol', db.getUserId, 'carol!c@c')
        b.hostmasks.add('car*!*@*')
        a.hostmasks.add('*!c@c')
        attempt('getUserId multiple', db.getUserId, 'carol!c@c')
        dbState(db, 'u1.conf')
        attempt('getUserId after removal', db.getUserId, 'carol!c@c')
        # caches and invalidateCache
        for q in ('alice', 'bob', 'carol', 'alice!x@host.a', 'bob!x@y'):
            attempt('getUserId', db.getUserId, q)
        obs('cache', cacheState(db))
        attempt('invalidateCache hostmask', db.invalidateCache,
                hostmask='bob!x@y')
        attempt('invalidateCache id', db.invalidateCache, a.id)
        attempt('invalidateCache name', db.invalidateCache, b.id, name='bob')
        attempt('invalidateCache unknown', db.invalidateCache, 77)
        obs('cache', cacheState(db))
        attempt('getUserFromNick', db.getUserFromNick, 'net', 'nick')
        attempt('numUsers', db.numUsers)
        attempt('items', lambda: sorted(i for (i, x) in db.items()))
        # rename: the old name must be forgotten, the new one found
        attempt('getUserId bob', db.getUserId, 'bob')
        b.name = 'Robert'
        attempt('setUser rename', db.setUser, b)
        attempt('getUserId bob', db.getUserId, 'bob')
        attempt('getUserId robert', db.getUserId, 'robert')
        dbState(db, 'u1.conf')
        # owner through the API, then flush + reload
        a.addCapability('owner')
        attempt('setUser', db.setUser, a)
        db.noFlush = True
        attempt('flush noFlush', db.flush)
        db.noFlush = False
        attempt('reload', db.reload)
        dbState(db, 'u1.conf')
        attempt('getUser after reload', lambda: db.getUser('alice').name)
        attempt('close', db.close)
        dbState(db, 'u1.conf')
        return db

    userDbScenario()

    # hand-written files
    files = [
        'user 1\n  name a\n  capability owner\n  hostmask a!*@*\n\n'
        'user 2\n  name b\n  capability Admin\n  capability -admin\n'
        '  hostmask a!*@*\n  hostmask b!*@*\n',
        'user 1\n  name a\n  ignore True\n  secure 1\n  hashed False\n'
        '  password pw\n  nicks net n1 n2\n  gpgkey K\n  capability x\n',
        'user 1\n  name a\nuser 1\n  name b\n',
        'user 1\n  name a\n\nuser x\n  name b\n',
        '  name orphan\n',
        'user 1\nuser 2\n  name b\n',
        'user 1\n  name a\n  capability -owner\n',
        'user 1\n  name a\n  bogus x\n\nuser 2\n  name b\n',
        'user 1\n  name a\n  secure os.system("x")\n',
        'user 1\n  name a\n  u x\n',
        'user 1\n  name a\n  users x\n',
        'user 1\n  name a\n  nicks onlynet\n',
        'user 1\n  name\n',
        'user 1\n  name a\n  capability owner \n  capability  admin\n',
        'user 1\r\n  name a\r\n  capability owner\r\n\r\nuser 2\r\n'
        '  name A\r\n',
        'user 3\n  name c\n\nuser 1\n  name a\n  hostmask *!*@h\n\n'
        'user 2\n  name b\n  hostmask x!*@h\n  hostmask *!y@*\n',
        'user 1\n\tname tab\n\tcapability owner\n',
        'user 1\n  capability owner\n\nuser 2\n  name b\n',
        'user 5\n  name e\n  password salt|xx\n  hashed True\n',
    ]
    for (i, text) in enumerate(files):
        resetCreators()
        name = 'h%d.conf' % i
        with open(os.path.join(TMP, 'conf', name), 'w', newline='') as fd:
            fd.write(text)
        db = ircdb.UsersDictionary()
        attempt('open %r' % text, db.open, os.path.join(TMP, 'conf', name))
        dbState(db, name)
        obs('creator state', ircdb.IrcUserCreator.u is None)
        attempt('reload', db.reload)
        dbState(db, name)
        attempt('owners', lambda: sorted(
            x.name for x in db.users.values()
            if x.capabilities.check('owner')))
        # once more without resetting the class-level creator state
        attempt('reload', db.reload)
        dbState(db, name)
    resetCreators()

    # channels and networks databases
    chans = [
        'channel #a\n  lobotomized False\n  defaultAllow False\n'
        '  capability op\n  capability -Foo\n  ban x!*@* 0\n'
        '  ignore y!*@* 17.5\n\nchannel #B\n  capability -voice\n',
        'channel #a\n  bogus 1\n',
        '  lobotomized True\n',
        'channel #a\nchannel #b\n',
        'channel #a\n  ban x\n',
        'channel #{a}\n  defaultAllow 0\n\nchannel #[A]\n  defaultAllow 1\n',
    ]
    for (i, text) in enumerate(chans):
        resetCreators()
        name = 'c%d.conf' % i
        with open(os.path.join(TMP, 'conf', name), 'w') as fd:
            fd.write(text)
        db = ircdb.ChannelsDictionary()
        attempt('chan open %r' % text, db.open,
                os.path.join(TMP, 'conf', name))
        obs('chans', [(k, repr(v)) for (k, v) in db.items()], fileBytes(name))
        attempt('chan reload', db.reload)
        obs('chans', [(k, repr(v)) for (k, v) in db.items()], fileBytes(name))
        attempt('getChannel', lambda: repr(db.getChannel('#NEW')))
        attempt('close', db.close)
    db = ircdb.ChannelsDictionary()
    attempt('chan flush without filename', db.flush)
    attempt('chan reload without filename', db.reload)
    db.noFlush = True
    attempt('chan flush noFlush', db.flush)
    attempt('chan setChannel noFlush', db.setChannel, '#X', ircdb.IrcChannel())
    attempt('chan open missing', db.open, os.path.join(TMP, 'conf', 'cm.conf'))
    obs('chans', [(k, repr(v)) for (k, v) in db.items()], db.noFlush,
        fileBytes('cm.conf'))
    db = ircdb.NetworksDictionary()
    attempt('net flush without filename', db.flush)
    attempt('net reload without filename', db.reload)

    # ignores database
    ignoreFiles = [
        '# comment\n\n   \nplain!a@b\nfloat!a@b 1700000100.75\n'
        'old!a@b 5\nzero!a@b 0\nnotamask\nbad!a@b soon\n'
        'extra!a@b 1700000100 junk\n  indented!a@b 1700000100\n'
        'plain!a@b 1700000200\n',
        'crlf!a@b 1700000100\r\ncrlf2!a@b\r\n',
        '',
    ]
    for (i, text) in enumerate(ignoreFiles):
        name = 'i%d.conf' % i
        with open(os.path.join(TMP, 'conf', name), 'w', newline='') as fd:
            fd.write(text)
        db = ircdb.IgnoresDB()
        attempt('ign flush without filename', db.flush)
        attempt('ign reload without filename', db.reload)
        attempt('ign open %r' % text, db.open, os.path.join(TMP, 'conf', name))
        obs('ign', db.hostmasks, fileBytes(name))
        for m in ('plain!a@b', 'old!a@b', 'float!x@y', 'float!a@b',
                  'crlf!a@b', 'no!n@n'):
            attempt('ign checkIgnored %s' % m, db.checkIgnored, m)
        obs('ign', db.hostmasks)
        attempt('ign add', db.add, 'new!*@*', 1700000300)
        attempt('ign add bad', db.add, 'nomask')
        attempt('ign remove', db.remove, 'new!*@*')
        attempt('ign remove again', db.remove, 'new!*@*')
        attempt('ign flush', db.flush)
        obs('ign', db.hostmasks, fileBytes(name))
        attempt('ign reload', db.reload)
        obs('ign', db.hostmasks, fileBytes(name))
        os.remove(os.path.join(TMP, 'conf', name))
        attempt('ign reload missing', db.reload)
        obs('ign', db.hostmasks)
        attempt('ign close', db.close)
        obs('ign', db.hostmasks, fileBytes(name))
    db = ircdb.IgnoresDB()
    attempt('ign open missing', db.open, os.path.join(TMP, 'conf', 'im.conf'))

    nets = ['network n1\n  stsPolicy a port=1\n  lastDisconnectTime a 5\n\n'
            'network N2\n  stsPolicy b port=2\n',
            'network n1\n  stsPolicy a\n']
    for (i, text) in enumerate(nets):
        resetCreators()
        name = 'n%d.conf' % i
        with open(os.path.join(TMP, 'conf', name), 'w') as fd:
            fd.write(text)
        db = ircdb.NetworksDictionary()
        attempt('net open %r' % text, db.open,
                os.path.join(TMP, 'conf', name))
        obs('nets', [(k, repr(v)) for (k, v) in db.items()], fileBytes(name))
        attempt('net reload', db.reload)
        obs('nets', [(k, repr(v)) for (k, v) in db.items()], fileBytes(name))
    resetCreators()

    ###########################################################################
    # E. checkCapability and friends against the real databases
    ###########################################################################
    def mkuser(name, caps=(), hostmasks=(), password='pw', secure=False,
               ignore=False):
        u = ircdb.users.newUser()
        u.name = name
        u.setPassword(password)
        for cap in caps:
            u.addCapability(cap)
        for m in hostmasks:
            u.addHostmask(m)
        u.secure = secure
        u.ignore = ignore
        ircdb.users.setUser(u)
        return u
    boss = mkuser('boss', ['owner'], ['boss!*@owner.host'])
    adm = mkuser('adm', ['admin', 'special', '#chan,op'],
                 ['adm!*@admin.host'])
    joe = mkuser('joe', ['-nope', '#chan,voice', '-#chan,foo', 'trusted'],
                 ['joe!*@joe.host'])
    sec = mkuser('sec', ['admin'], ['sec!*@sec.host'], secure=True)
    ign = mkuser('ign', ['foo', 'admin'], ['ign!*@ign.host'], ignore=True)
    chan = ircdb.channels.getChannel('#chan')
    chan.addCapability('-foo')
    chan.addCapability('chancap')
    ircdb.channels.setChannel('#chan', chan)
    strict = ircdb.channels.getChannel('#strict')
    strict.setDefaultCapability(False)
    ircdb.channels.setChannel('#strict', strict)

    prefixes = ['boss!b@owner.host', 'adm!a@admin.host', 'joe!j@joe.host',
                'sec!s@sec.host', 'sec!s@elsewhere', 'ign!i@ign.host',
                'anon!a@nowhere', 'irc.server.name', 'boss', 'adm',
                boss.id, joe.id, 999]
    caps = ['owner', '-owner', 'admin', '-admin', 'special', 'nope', '-nope',
            'trusted', 'other', '-other', '#chan,op', '#chan,-op',
            '#chan,voice', '#chan,foo', '#chan,-foo', '#chan,chancap',
            '#chan,zzz', '#chan,-zzz', '#strict,zzz', '#strict,-zzz',
            '#strict,op', 'regcap', '-regcap', 'OWNER', '#CHAN,OP']
    def capMatrix(label):
        for p in prefixes:
            for cap in caps:
                attempt('%s check %r %s' % (label, p, cap),
                        ircdb.checkCapability, p, cap)
                for kw in ('ignoreOwner', 'ignoreChannelOp',
                           'ignoreDefaultAllow'):
                    attempt('%s check %r %s %s' % (label, p, cap, kw),
                            ircdb.checkCapability, p, cap, **{kw: True})
            attempt('%s any' % label, ircdb.checkCapabilities, p,
                    ['nope', 'admin', 'owner'])
            attempt('%s all' % label, ircdb.checkCapabilities, p,
                    ['other', 'admin'], requireAll=True)
            attempt('%s all 1' % label, ircdb.checkCapabilities, p,
                    ['other'], requireAll=1)
            attempt('%s none' % label, ircdb.checkCapabilities, p, [])
            attempt('%s none all' % label, ircdb.checkCapabilities, p, [],
                    True)
            if isinstance(p, str):
                for recipient in ('', '#chan', 'bot'):
                    attempt('%s ignored %r %r' % (label, p, recipient),
                            ircdb.checkIgnored, p, recipient)
        for cap in caps:
            attempt('%s unknown %s' % (label, cap),
                    ircdb._checkCapabilityForUnknownUser, cap)
            attempt('%s unknown %s ida' % (label, cap),
                    ircdb._checkCapabilityForUnknownUser, cap,
                    ignoreDefaultAllow=True)
    capMatrix('default')
    conf.supybot.capabilities.default.setValue(False)
    conf.supybot.capabilities.registeredUsers.setValue(['regcap', '-other'])
    conf.supybot.defaultIgnore.setValue(True)
    ircdb.ignores.add('*!*@nowhere', 0)
    ircdb.ignores.add('*!*@joe.host', int(clock.now) + 50)
    ircdb.ignores.add('*!*@old.host', int(clock.now) - 50)
    chan.addIgnore('adm!*@*')
    capMatrix('strict')
    obs('ignores', ircdb.ignores.hostmasks)
    attempt('ignores flush', ircdb.ignores.flush)
    obs('ignores file', fileBytes('ignores.conf'))
    attempt('ignores reload', ircdb.ignores.reload)
    obs('ignores', ircdb.ignores.hostmasks)
    conf.supybot.capabilities.default.setValue(True)
    conf.supybot.capabilities.registeredUsers.setValue([])
    conf.supybot.defaultIgnore.setValue(False)
    ircdb.ignores.hostmasks.clear()
    chan.removeIgnore('adm!*@*')
    attempt('defaultcaps set owner', conf.supybot.capabilities.setValue,
            ['owner', 'foo'])
    obs('defaultcaps', sorted(conf.supybot.capabilities()))
    attempt('defaultcaps reset', conf.supybot.capabilities.setValue,
            ['-owner', '-admin', '-trusted'])

    ###########################################################################
    # F. The commands, through the bot
    ###########################################################################
    conf.supybot.directories.plugins.setValue(
        [os.path.join(ROOT, 'plugins')])
    irc = irclib.Irc('test')
    while irc.takeMsg():
        pass
    for name in ('Owner', 'Misc', 'Config', 'User', 'Admin', 'Channel',
                 'Utilities'):
        module = plugin.loadPluginModule(name)
        plugin.loadPluginClass(irc, module)
    irc.feedMsg(ircmsgs.IrcMsg(':server 001 bot :Welcome'))
    irc.feedMsg(ircmsgs.IrcMsg(':bot!bot@bot.host JOIN #chan'))
    for p in ('boss!b@owner.host', 'adm!a@admin.host', 'joe!j@joe.host',
              'anon!a@nowhere', 'new!n@new.host'):
        irc.feedMsg(ircmsgs.IrcMsg(':%s JOIN #chan' % p))
    while irc.takeMsg():
        pass

    def state():
        users = []
        for (i, u) in sorted(ircdb.users.users.items()):
            users.append([i, u.name, list(u.capabilities), list(u.hostmasks),
                          u.secure, u.ignore, u.password, u.hashed,
                          [m for (_, m) in u.auth]])
        owners = sorted(u.name for u in ircdb.users.users.values()
                        if u.capabilities.check('owner'))
        obs('state', users, owners,
            [(k, repr(v)) for (k, v) in sorted(ircdb.channels.items())],
            ircdb.ignores.hostmasks,
            sorted(conf.supybot.capabilities()),
            conf.supybot.capabilities.default(),
            [hashlib.sha256(fileBytes(n).encode() if isinstance(
                fileBytes(n), str) else fileBytes(n)).hexdigest()
             for n in ('users.conf', 'channels.conf', 'ignores.conf')],
            fileBytes('users.conf'))

    def say(prefix, text, to='bot'):
        clock.now += 1
        if to != 'bot':
            text = '@' + text
        msg = ircmsgs.IrcMsg(prefix=prefix, command='PRIVMSG',
                             args=(to, text))
        try:
            irc.feedMsg(msg)
        except BaseException as e:
            obs('feedMsg raised', type(e).__name__, list(e.args))
        replies = []
        while True:
            m = irc.takeMsg()
            if m is None:
                break
            replies.append([m.command, list(m.args)])
        obs('say', prefix, to, text, replies)
        state()

    def reloadPoint(kind):
        if kind == 'flush':
            attempt('world.flush', world.flush)
        elif kind == 'reload':
            attempt('users.reload', ircdb.users.reload)
            attempt('channels.reload', ircdb.channels.reload)
            attempt('ignores.reload', ircdb.ignores.reload)
        elif kind == 'upkeep':
            # (returns the number of objects the collector freed)
            attempt('world.upkeep', lambda: world.upkeep() and None)
        state()

    BOSS, ADM, JOE = 'boss!b@owner.host', 'adm!a@admin.host', 'joe!j@joe.host'
    ANON, NEW, SEC = 'anon!a@nowhere', 'new!n@new.host', 'sec!s@sec.host'
    script = [
        (NEW, 'user register newbie pw'),
        (NEW, 'user register newbie pw'),
        (ANON, 'user register NEWBIE pw'),
        (ANON, 'user register boss pw'),
        (ANON, 'user register anon!a@nowhere pw'),
        (ANON, 'user register "evil\\n  capability owner" pw'),
        (ANON, 'user register "evil\\rcapability owner" pw'),
        (ANON, 'user register "a b" "p w"'),
        (ANON, 'user register c pw', '#chan'),
        (ANON, 'user register'),
        (BOSS, 'user register minion pw'),
        ('tmp!t@tmp.host', 'user register tmpuser pw'),
        ('ghost!g@g.host', 'user set password x y'),
        ('ghost!g@g.host', 'user set secure x'),
        ('ghost!g@g.host', 'user capabilities'),
        'flush', 'reload',
        (NEW, 'whoami'),
        (ANON, 'whoami'),
        (NEW, 'user capabilities'),
        (NEW, 'user capabilities boss'),
        (ADM, 'user capabilities boss'),
        (NEW, 'admin capability add newbie owner'),
        (ADM, 'admin capability add newbie owner'),
        (ADM, 'admin capability add newbie OWNER'),
        (ADM, 'admin capability add newbie "owner "'),
        (ADM, 'admin capability add newbie " owner"'),
        (ADM, 'admin capability add newbie "owner\\n"'),
        (ADM, 'admin capability add newbie "x\\n  capability owner"'),
        (ADM, 'admin capability add newbie [echo owner]'),
        (ADM, 'admin capability add newbie [echo -owner]'),
        (BOSS, 'admin capability add newbie owner'),
        (BOSS, 'admin capability add newbie -owner'),
        (ADM, 'admin capability add newbie admin'),
        (ADM, 'admin capability add newbie special'),
        (ADM, 'admin capability add newbie notmine'),
        (ADM, 'admin capability add newbie -notmine'),
        (ADM, 'admin capability add newbie #chan,op'),
        (ADM, 'admin capability add newbie #other,op'),
        (ADM, 'admin capability add nobody admin'),
        (ADM, 'admin capability add new admin'),
        (JOE, 'admin capability add joe admin'),
        (ANON, 'admin capability add anon admin'),
        (NEW, 'admin capability add joe special'),
        (NEW, 'admin capability remove adm admin'),
        (NEW, 'admin capability remove newbie special'),
        (NEW, 'admin capability remove newbie nothere'),
        (NEW, 'admin capability remove newbie -notmine'),
        (NEW, 'admin capability remove newbie -notmine'),
        (NEW, 'admin capability remove boss owner'),
        (BOSS, 'admin capability add adm admin'),
        (ADM, 'admin capability remove boss owner'),
        'flush', 'reload', 'upkeep',
        (BOSS, 'admin capability add joe Mixed.Case'),
        (BOSS, 'admin capability remove joe mixed.case'),
        (BOSS, 'admin capability remove joe mixed.case'),
        (BOSS, 'admin capability remove joe "a b"'),
        (JOE, 'user set password pw pw2'),
        (JOE, 'user set password wrong pw3'),
        (ANON, 'user set password joe pw2 hacked'),
        (ANON, 'user set password joe wrong hacked'),
        (ANON, 'user set password x y'),
        (BOSS, 'user set password joe whatever bossmade'),
        (ADM, 'user set password joe whatever admmade'),
        (JOE, 'user set secure bossmade'),
        (JOE, 'user set secure bossmade'),
        (JOE, 'user set secure bossmade True'),
        (JOE, 'user set secure wrong False'),
        ('joe!j@other.host', 'user set secure bossmade False'),
        (ANON, 'user identify joe bossmade'),
        (ANON, 'user identify joe wrong'),
        (ANON, 'user identify nobody pw'),
        (JOE, 'user set secure bossmade False'),
        (ANON, 'user identify joe bossmade'),
        (ANON, 'whoami'),
        (ANON, 'admin capability add joe admin'),
        (ANON, 'user hostmask add'),
        (ANON, 'user hostmask list'),
        (ANON, 'user hostmask remove joe anon!a@nowhere'),
        (ANON, 'user hostmask add joe *!*@owner.host'),
        (ANON, 'user hostmask add joe boss!*@*'),
        (ANON, 'user hostmask add joe b?ss!b@own*'),
        (ANON, 'user hostmask add joe *!*@*'),
        (ANON, 'user hostmask add joe a!b@c'),
        (ANON, 'user hostmask add joe notamask'),
        (ANON, 'user unidentify'),
        (ANON, 'whoami'),
        (ANON, 'user hostmask add joe x!y@z'),
        (ANON, 'user hostmask add joe x!y@z bossmade'),
        (ANON, 'user hostmask add joe x!y@z bossmade'),
        (ANON, 'user hostmask add boss anon!*@* pw'),
        (ANON, 'user hostmask add boss anon!*@* wrong'),
        (BOSS, 'user hostmask add joe adm!*@*'),
        (BOSS, 'user hostmask add joe q!q@q'),
        (ADM, 'user hostmask add joe q!q@r'),
        (ADM, 'user hostmask list joe'),
        (BOSS, 'user hostmask list joe'),
        (JOE, 'user hostmask list'),
        (JOE, 'user hostmask list joe'),
        (JOE, 'user hostmask list nobody'),
        (BOSS, 'user hostmask list nobody'),
        (JOE, 'user hostmask remove joe q!q@q'),
        (JOE, 'user hostmask remove joe q!q@q'),
        (ANON, 'user hostmask remove joe x!y@z'),
        (ANON, 'user hostmask remove joe x!y@z wrong'),
        (ANON, 'user hostmask remove joe x!y@z bossmade'),
        (BOSS, 'user hostmask remove newbie all'),
        (NEW, 'whoami'),
        (NEW, 'user identify newbie pw'),
        (NEW, 'user hostmask add'),
        'flush', 'reload',
        (NEW, 'whoami'),
        (NEW, 'user changename newbie boss'),
        (NEW, 'user changename newbie Newbie2'),
        (NEW, 'user changename newbie2 "x\\n  capability owner"'),
        (NEW, 'user changename newbie2 a!b@c'),
        (ANON, 'user changename newbie2 stolen'),
        (ANON, 'user changename newbie2 stolen wrong'),
        (ANON, 'user changename newbie2 stolen pw'),
        (BOSS, 'user changename stolen newbie'),
        (ADM, 'user changename boss deposed'),
        (ADM, 'user changename nobody x'),
        (BOSS, 'user list'),
        (BOSS, 'user list --capability owner'),
        (JOE, 'user list --capability=admin'),
        (JOE, 'user list --capability=admin *o*'),
        (JOE, 'user list z*'),
        (JOE, 'user stats'),
        (JOE, 'user username boss'),
        (JOE, 'user username nosuchnick'),
        (JOE, 'user username anon'),
        (BOSS, 'config supybot.capabilities.private admin'),
        (JOE, 'user list --capability=admin'),
        (ADM, 'user list --capability=admin'),
        (ANON, 'user list --capability=admin'),
        (BOSS, 'config supybot.capabilities.private ""'),
        # channel capabilities
        (ADM, 'channel capability add #chan joe foo Bar'),
        (ADM, 'channel capability add joe op', '#chan'),
        (JOE, 'channel capability add #chan minion op'),
        (JOE, 'channel capability add #chan minion "x\\n  capability owner"'),
        (JOE, 'channel capability add #chan minion owner'),
        (JOE, 'channel capability add #other minion op'),
        (NEW, 'channel capability add #other minion op'),
        (ANON, 'channel capability add #chan minion op'),
        (JOE, 'channel capability add #chan minion Voice'),
        (JOE, 'channel capability add #chan minion -halfop'),
        (JOE, 'channel capability add #chan minion "a b"'),
        (JOE, 'channel capability add #chan nobody op'),
        (JOE, 'channel capability remove #chan minion "op nothere also"'),
        (JOE, 'channel capability remove #chan minion "nothere VOICE"'),
        (JOE, 'channel capability remove #chan minion nothere'),
        (JOE, 'channel capability remove #chan minion op'),
        (JOE, 'channel capability set #chan -cmd Other'),
        (JOE, 'channel capability set #chan "a b" good'),
        (JOE, 'channel capability unset #chan cmd nothere'),
        (JOE, 'channel capability unset #chan nothere'),
        (JOE, 'channel capability unset #chan other'),
        (JOE, 'channel capability setdefault #chan False'),
        (JOE, 'channel capability list #chan'),
        (ANON, 'channel capability list', '#chan'),
        (ANON, 'channel capability setdefault #chan True'),
        (JOE, 'channel capability setdefault #chan on'),
        (JOE, 'channel ignore add #chan evil!*@*'),
        (JOE, 'channel ignore add #chan evil2!*@* 100'),
        (JOE, 'channel ignore list #chan'),
        (JOE, 'channel ignore remove #chan evil!*@*'),
        (JOE, 'channel ignore remove #chan evil!*@*'),
        (ANON, 'channel ignore add #chan joe!*@*'),
        'flush', 'reload',
        # global ignores
        (ADM, 'admin ignore add evil!*@*'),
        (ADM, 'admin ignore add anon 60'),
        (ADM, 'admin ignore list'),
        (ANON, 'whoami'),
        (JOE, 'admin ignore remove evil!*@*'),
        (ADM, 'admin ignore remove evil!*@*'),
        (ADM, 'admin ignore remove evil!*@*'),
        (ADM, 'admin ignore remove anon'),
        (ADM, 'admin ignore list'),
        # configuration
        (ADM, 'config supybot.capabilities'),
        (ADM, 'config supybot.capabilities owner'),
        (JOE, 'config supybot.capabilities.default False'),
        (BOSS, 'config supybot.capabilities.default False'),
        (NEW, 'admin capability add newbie zzz'),
        (ADM, 'admin capability add newbie zzz'),
        (BOSS, 'config supybot.capabilities.default True'),
        (ADM, 'owner defaultcapability add owner'),
        (BOSS, 'owner defaultcapability add special'),
        (BOSS, 'owner defaultcapability remove special'),
        (BOSS, 'owner defaultcapability remove special'),
        (BOSS, 'owner defaultcapability remove -special'),
        (BOSS, 'owner defaultcapability remove -nothere'),
        (BOSS, 'owner defaultcapability remove -owner'),
        (ANON, 'admin capability add newbie owner'),
        (BOSS, 'owner defaultcapability add -owner'),
        (BOSS, 'config supybot.capabilities.registeredUsers special'),
        (JOE, 'admin capability add newbie special'),
        (BOSS, 'config supybot.capabilities.registeredUsers ""'),
        (ADM, 'config reload'),
        (BOSS, 'config reload'),
        'reload',
        (BOSS, 'owner flush'),
        # unregister
        (ANON, 'user unregister joe'),
        (ANON, 'user unregister joe wrong'),
        (ADM, 'user unregister joe'),
        (BOSS, 'config supybot.databases.users.allowUnregistration False'),
        (JOE, 'user unregister joe bossmade'),
        (ANON, 'user unregister tmpuser pw'),
        ('ghost!g@g.host', 'user unregister tmpuser pw'),
        (BOSS, 'user unregister tmpuser'),
        (BOSS, 'config supybot.databases.users.allowUnregistration True'),
        (JOE, 'user unregister joe bossmade'),
        (BOSS, 'user unregister minion'),
        (BOSS, 'user unregister nobody'),
        (NEW, 'user register joe again'),
        (NEW, 'user unregister newbie pw'),
        (NEW, 'user register joe again'),
        (NEW, 'user capabilities'),
        'flush', 'reload',
        # secure users and commands needing capabilities
        ('sec!s@elsewhere', 'user identify sec pw'),
        (SEC, 'user identify sec pw'),
        (SEC, 'admin capability add stolen special'),
        (SEC, 'admin capability add "a b" admin'),
        ('sec!s@elsewhere', 'admin capability add stolen other'),
        (NEW, 'admin capability add sec special'),
        (NEW, 'user set password pw [echo nested]'),
        (JOE, 'user identify stolen nested'),
        (JOE, 'user identify stolen "nested"'),
        (JOE, 'admin capability add "a b" [echo special]'),
        (JOE, 'user unidentify'),
        (JOE, 'admin capability add "a b" other'),
        (NEW, 'echo [user capabilities]'),
        (NEW, 'user capabilities [whoami]'),
        ('ign!i@ign.host', 'whoami'),
        (BOSS, 'admin capability add ign trusted'),
        ('ign!i@ign.host', 'whoami'),
        ('ign!i@ign.host', 'admin capability add joe special'),
        'flush', 'reload', 'upkeep',
    ]
    state()
    for step in script:
        if isinstance(step, str):
            reloadPoint(step)
        else:
            say(*step)

    # An empty user database.
    saved = dict(ircdb.users.users)
    ircdb.users.users.clear()
    say(ANON, 'user list')
    say(ANON, 'user list x*')
    say(ANON, 'user list --capability owner')
    say(ANON, 'user stats')
    ircdb.users.users.update(saved)
    ircdb.users.flush()
    state()

    # The databases written by the bot, read back by fresh dictionaries.
    resetCreators()
    db = ircdb.UsersDictionary()
    attempt('final open', db.open, os.path.join(TMP, 'conf', 'users.conf'))
    dbState(db, 'users.conf')
    db = ircdb.ChannelsDictionary()
    attempt('final open', db.open, os.path.join(TMP, 'conf', 'channels.conf'))
    obs('chans', [(k, repr(v)) for (k, v) in db.items()],
        fileBytes('channels.conf'))

if __name__ == '__main__':
    code = 1
    realStdout = sys.stdout
    try:
        sys.stdout = io.StringIO()   # (DefaultCapabilities.setValue prints)
        try:
            main()
            obs('stdout', sys.stdout.getvalue())
        finally:
            sys.stdout = realStdout
        blob = json.dumps(OBS, sort_keys=True, ensure_ascii=True)
        digest = hashlib.sha256(blob.encode()).hexdigest()
        if '--dump' in sys.argv:
            with open(sys.argv[sys.argv.index('--dump') + 1], 'w') as fd:
                for o in OBS:
                    fd.write(json.dumps(o, ensure_ascii=True) + '\n')
        if '--record' in sys.argv:
            print(digest, len(OBS))
            code = 0
        elif digest == EXPECTED:
            print('PASS (%d observations, digest %s)' % (len(OBS), digest[:16]))
            code = 0
        else:
            print('FAIL: digest %s, expected %s' % (digest, EXPECTED))
    except BaseException:
        traceback.print_exc()
        print('FAIL')
    finish(code)
