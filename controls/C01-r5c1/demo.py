# C01 control demo.  Exercises the capability machinery (ircdb.checkCapability
# and the sets below it, callbacks.checkCommandCapability / _callCommand, the
# capability converters of commands.py) on a live bot:
#   part 1: roles x commands x addressing forms x wrappers against an oracle
#           written from the property, plus the "ignored: no effect, no reply";
#   part 2: the same bot under non-default capability settings, and
#   part 3: ircdb.checkCapability itself on a grid of users x capabilities x
#           flags -- parts 2 and 3 against outcomes recorded on the reference
#           tree (run with --record to print them).
import os, sys, tempfile, shutil, time, itertools
ROOT = os.getcwd()
sys.path.insert(0, ROOT)
BASE = tempfile.mkdtemp(prefix='c01demo')
for d in ('conf', 'data', 'logs', 'backup', 'tmp', 'web'):
    os.makedirs(os.path.join(BASE, d))
regfile = os.path.join(BASE, 'conf', 'bot.conf')
with open(regfile, 'w') as fd:
    fd.write("""
supybot.directories.data: %(b)s/data
supybot.directories.conf: %(b)s/conf
supybot.directories.log: %(b)s/logs
supybot.directories.backup: %(b)s/backup
supybot.directories.data.tmp: %(b)s/tmp
supybot.directories.data.web: %(b)s/web
supybot.log.stdout: False
supybot.log.level: CRITICAL
supybot.log.plugins.individualLogfiles: False
supybot.protocols.irc.throttleTime: 0
supybot.reply.whenAddressedBy.chars: @
supybot.reply.whenAddressedBy.nick.atEnd: True
supybot.commands.nested.pipeSyntax: True
supybot.networks.test.servers: localhost:6667
supybot.networks.test.ssl: False
supybot.nick: bot
supybot.abuse.flood.command: False
""" % {'b': BASE})
import supybot
import supybot.registry as registry
registry.open_registry(regfile)
import supybot.log as log
import supybot.conf as conf
conf.supybot.flush.setValue(False)
import supybot.world as world
import supybot.ircdb as ircdb
import supybot.irclib as irclib
import supybot.ircmsgs as ircmsgs
import supybot.plugin as plugin
import supybot.schedule as schedule

RECORD = '--record' in sys.argv
GOLDEN2 = 'eeeeeeeeeEEEEEEEEEEEEEEEEEEEEEEEEEEEEEEEEEEEEeeeeeeeeeEEEeEeEEeeeEeeEEeEEEEeEEEEEEEEeEEEEEeeeeeeeeeEEeEEeEEeEeEEeEEeEEEEEEEEEEEEEEEEEEEeeeeeeeeeEEeEEeEEeEeEEeEEeEEEEEEEEEEEEEEEEEEE'
GOLDEN3 = '66560:3e47c59c5cc261e15ad5ae2e27e8b2693dda7029fc5dc3898a7fbb41fcf2ac8b'

conf.registerNetwork('test')
irc = irclib.Irc('test')
for name in ('Owner', 'Misc', 'Admin', 'Channel', 'User', 'Config',
             'Utilities', 'Scheduler', 'Alias'):
    plugin.loadPluginClass(irc, plugin.loadPluginModule(name))
world.starting = False

def drain():
    out = []
    for _ in range(500):
        m = irc.takeMsg()
        if m is None:
            if not irc.queue and not irc.fastqueue:
                break
            time.sleep(0.001)
            continue
        out.append(m)
    return out

def say(prefix, target, text):
    irc.feedMsg(ircmsgs.IrcMsg(':%s PRIVMSG %s :%s' % (prefix, target, text)))
    return [(m.command,) + tuple(m.args) for m in drain()]

def mkuser(name, hostmask, caps=(), secure=False, ignore=False):
    u = ircdb.users.newUser()
    u.name = name
    u.setPassword('pw' + name)
    u.addHostmask(hostmask)
    u.secure = secure
    u.ignore = ignore
    for c in caps:
        u.addCapability(c)
    ircdb.users.setUser(u)
    return u

drain()
irc.feedMsg(ircmsgs.IrcMsg(':srv 001 bot :Welcome'))
for chan in ('#a', '#b'):
    irc.feedMsg(ircmsgs.IrcMsg(':bot!b@bot.host JOIN %s' % chan))
drain()

SCHED = ['scheduler.add']
ROLES = {   # role -> prefix
    'owner': 'own!o@owner.host',
    'admin': 'adm!a@admin.host',
    'chanop': 'opa!c@opa.host',
    'plain': 'plain!p@p.host',
    'anti': 'anti!n@anti.host',          # has -echo
    'antichan': 'antic!n@antic.host',    # has #a,-utilities.echo
    'unregistered': 'anon!x@nowhere.host',
    'secure-elsewhere': 'sec!s@elsewhere.host',
    'ignored-flag': 'ign!i@ign.host',
    'ignored-mask': 'pest!i@pest.host',
}
mkuser('own', ROLES['owner'], ['owner'])
mkuser('adm', ROLES['admin'], ['admin'] + SCHED)
mkuser('opa', ROLES['chanop'], ['#a,op'] + SCHED)
mkuser('plain', ROLES['plain'], SCHED)
mkuser('anti', ROLES['anti'], ['-echo'] + SCHED)
mkuser('antic', ROLES['antichan'], ['#a,-utilities.echo'] + SCHED)
sec = mkuser('sec', 'sec!s@home.host', ['admin', '#a,op'] + SCHED, secure=True)
sec.auth.append((time.time(), ROLES['secure-elsewhere']))
mkuser('ign', ROLES['ignored-flag'], ['admin', '#a,op'] + SCHED, ignore=True)
ircdb.ignores.add('pest!*@*')
victim = mkuser('victim', 'victim!v@v.host')
IGNORED = ('ignored-flag', 'ignored-mask')

# the operator of #b has forbidden the whole Utilities plugin there
cb = ircdb.channels.getChannel('#b')
cb.addCapability('-utilities')
ircdb.channels.setChannel('#b', cb)

r = say(ROLES['owner'], 'bot', 'alias add aq "ircquote PRIVMSG #elsewhere :$1"')
assert any('succeeded' in x[-1] for x in r), r
r = say(ROLES['owner'], 'bot', 'alias add ae "echo $1"')
assert any('succeeded' in x[-1] for x in r), r

problems = []
checks = [0]
def expect(what, cond, got):
    checks[0] += 1
    if not cond:
        print('VIOLATION: %s\n    got: %r' % (what, got))
        problems.append(what)

counter = [0]
def marker():
    counter[0] += 1
    return 'mk%dx' % counter[0]

# --- the gated commands: (text, needs, effect detector) --------------------
def cmd_ircquote(m):
    return ('ircquote PRIVMSG #elsewhere :%s' % m, 'owner',
            lambda replies: any(r[0] == 'PRIVMSG' and r[1] == '#elsewhere'
                                and m in r[-1] for r in replies))
def cmd_admincap(m):
    return ('admin capability add victim %s' % m, 'admin',
            lambda replies: m in set(victim.capabilities))
def cmd_config(m):
    return ('config supybot.replies.success %s' % m, 'owner',
            lambda replies: m in conf.supybot.replies.success())
def cmd_chancap(m):
    return ('channel capability set #a -%s' % m, '#a,op',
            lambda replies: ('-' + m) in set(
                ircdb.channels.getChannel('#a').capabilities))
def cmd_echo(m):
    return ('echo %s' % m, 'echo',
            lambda replies: any(m in r[-1] and 'Error' not in r[-1]
                                for r in replies))
COMMANDS = [cmd_ircquote, cmd_admincap, cmd_config, cmd_chancap, cmd_echo]

def holds(role, need, where):
    """The oracle: does the role hold what the command needs, there?"""
    if role in IGNORED:
        return False
    if role == 'owner':
        return True
    if need == 'owner':
        return False
    if need == 'admin':
        return role == 'admin'
    if need == '#a,op':
        return role == 'chanop'
    assert need == 'echo'
    if role == 'anti':
        return False
    if role == 'antichan' and where == '#a':
        return False
    if where == '#b' and role != 'chanop':
        # -utilities is set on #b; only an owner is above that (chanop is op
        # of #a, not of #b)
        return False
    if where == '#b':
        return False
    return True

FORMS = [  # (name, target, format, channel the message counts for)
    ('prefix char in #a', '#a', '@%s', '#a'),
    ('nick in #a', '#a', 'bot: %s', '#a'),
    ('nick at end in #a', '#a', '%s, bot', '#a'),
    ('private', 'bot', '%s', None),
    ('prefix char in #b', '#b', '@%s', '#b'),
]
QUALIFY = {'ircquote': 'owner ircquote', 'echo': 'utilities echo',
           'config': 'config config'}
def wrappers(text):
    first = text.split()[0]
    yield ('direct', text)
    if first in QUALIFY:
        yield ('plugin-qualified', QUALIFY[first] + text[len(first):])
    yield ('nested', 'echo [%s]' % text)
    if first in ('ircquote', 'echo'):
        (head, last) = text.rsplit(' ', 1)
        yield ('piped', 'echo %s | %s' % (last, head))

def run_case(role, mk, form, wrapper):
    m = marker()
    (text, need, effect) = mk(m)
    (fname, target, fmt, where) = form
    for (wname, wtext) in wrappers(text):
        if wname != wrapper:
            continue
        replies = say(ROLES[role], target, fmt % wtext)
        ok = holds(role, need, where)
        if wrapper == 'piped' and ok:
            # "echo x | cmd y" is "cmd y [echo x]": the echo runs first and
            # must be allowed as well.  (In "echo [cmd]" the gated command is
            # the inner one: it runs, or not, whatever becomes of the echo.)
            ok = holds(role, 'echo', where)
        what = '%s / %s / %s / %s' % (role, text.split()[0] + ' ' + text.split()[1][:10], fname, wname)
        if role in IGNORED:
            expect(what + ': ignored caller gets no reply', replies == [], replies)
            expect(what + ': ignored caller has no effect', not effect(replies), replies)
        elif ok:
            expect(what + ': takes effect for a capable caller', effect(replies), replies)
        else:
            expect(what + ': no effect', not effect(replies), replies)
            expect(what + ': an error reply and nothing else',
                   replies and all('Error' in r[-1] for r in replies), replies)
        return
    # wrapper not applicable to this command

# ---------------------------------------------------------------- part 1 ---
for role in ROLES:
    for mk in COMMANDS:
        for form in FORMS:
            for wrapper in ('direct', 'plugin-qualified', 'nested', 'piped'):
                run_case(role, mk, form, wrapper)

# alias and scheduler wrappers
for role in ROLES:
    for (fname, target, fmt, where) in FORMS[:1] + FORMS[3:]:
        m = marker()
        replies = say(ROLES[role], target, fmt % ('aq ' + m))
        hit = any(r[0] == 'PRIVMSG' and r[1] == '#elsewhere' and m in r[-1]
                  for r in replies)
        expect('%s / alias of ircquote / %s' % (role, fname),
               hit == (role == 'owner'), replies)
        if role in IGNORED:
            expect('%s / alias / %s: no reply' % (role, fname), replies == [], replies)
        m = marker()
        replies = say(ROLES[role], target, fmt % ('ae ' + m))
        hit = any(m in r[-1] and 'Error' not in r[-1] for r in replies)
        expect('%s / alias of echo / %s' % (role, fname),
               hit == holds(role, 'echo', where), replies)
    # scheduled: "scheduler add" itself needs scheduler.add (registered roles
    # were given it), the replay is checked again when it runs
    for (text_of, need) in [(lambda m: 'ircquote PRIVMSG #elsewhere :' + m, 'owner'),
                            (lambda m: 'echo ' + m, 'echo')]:
        m = marker()
        before = set(schedule.schedule.events)
        replies = say(ROLES[role], '#a', '@scheduler add 3600 "%s"' % text_of(m))
        new = [k for k in set(schedule.schedule.events) - before]
        may_schedule = role not in IGNORED and role not in (
            'unregistered', 'secure-elsewhere')
        expect('%s / scheduler add allowed=%s' % (role, may_schedule),
               bool(new) == may_schedule, replies)
        if role in IGNORED:
            expect('%s / scheduler add: no reply' % role, replies == [], replies)
        for k in new:
            schedule.rescheduleEvent(k, time.time() - 1)
        schedule.schedule.run()
        out = [(x.command,) + tuple(x.args) for x in drain()]
        hit = any(m in r[-1] and 'Error' not in r[-1] for r in out)
        expect('%s / scheduled %s' % (role, text_of('')),
               hit == (may_schedule and holds(role, need, '#a')), out)

# ---------------------------------------------------------------- part 2 ---
# non-default capability settings; outcome = e(ffect) or E(rror only)
outcomes = []
def sample(tag):
    for role in ('owner', 'admin', 'chanop', 'plain', 'unregistered'):
        for (fname, target, fmt, where) in (FORMS[0], FORMS[3], FORMS[4]):
            for mk in (cmd_echo, cmd_chancap, cmd_admincap):
                m = marker()
                (text, need, effect) = mk(m)
                replies = say(ROLES[role], target, fmt % text)
                outcomes.append('e' if effect(replies) else 'E')
                if not effect(replies):
                    expect('%s: %s / %s / %s: error reply only' % (tag, role, text, fname),
                           replies and all('Error' in r[-1] for r in replies), replies)
conf.supybot.capabilities.default.setValue(False)
sample('capabilities.default=False')
conf.supybot.capabilities.default.setValue(True)
ca = ircdb.channels.getChannel('#a')
ca.setDefaultCapability(False)
ircdb.channels.setChannel('#a', ca)
sample('#a defaultAllow=False')
ca.setDefaultCapability(True)
ircdb.channels.setChannel('#a', ca)
conf.supybot.capabilities().add('-utilities.echo')
conf.supybot.capabilities.registeredUsers().add('utilities.echo')
sample('-utilities.echo by default')
conf.supybot.capabilities().remove('-utilities.echo')
conf.supybot.capabilities().add('-echo')
sample('-echo by default, utilities.echo for registered')
conf.supybot.capabilities().remove('-echo')
conf.supybot.capabilities.registeredUsers().remove('utilities.echo')
outcomes = ''.join(outcomes)

# ---------------------------------------------------------------- part 3 ---
grid = []
users3 = ircdb.UsersDictionary()
chans3 = ircdb.ChannelsDictionary()
def u3(i, name, mask, caps, **kw):
    u = ircdb.IrcUser(name=name, capabilities=caps, **kw)
    u.id = i
    u.addHostmask(mask)
    users3.users[i] = u
    return u
u3(1, 'o', 'o!o@o.host', ['owner'])
u3(2, 'a', 'a!a@a.host', ['admin', '-foo', '#x,bar', '#y,-bar'])
u3(3, 'c', 'c!c@c.host', ['#x,op', '-#y,op' if False else '#y,-op'])
u3(4, 'p', 'p!p@p.host', [])
u3(5, 'i', 'i!i@i.host', ['admin', '#x,op'], ignore=True)
s3 = u3(6, 's', 's!s@home.host', ['admin', '#x,op', 'foo'], secure=True)
s3.auth.append((time.time(), 's!s@away.host'))
cx = chans3.getChannel('#x')
cx.addCapability('-foo'); cx.addCapability('baz')
cy = chans3.getChannel('#y')
cy.setDefaultCapability(False); cy.addCapability('bar')
WHO = ['o!o@o.host', 'a!a@a.host', 'c!c@c.host', 'p!p@p.host', 'i!i@i.host',
       's!s@home.host', 's!s@away.host', 'n!n@n.host', 'irc.server.name',
       'a', 1, 4, 99]
CAPS = []
for base in ('owner', 'admin', 'trusted', 'foo', 'bar', 'baz', 'op', 'qux',
             'Foo', 'scheduler.add'):
    for anti in ('', '-'):
        CAPS.append(anti + base)
        for ch in ('#x', '#y', '#Z{'):
            CAPS.append('%s,%s%s' % (ch, anti, base))
for defaults in ('-owner -admin -trusted -scheduler.add', '-owner qux -foo'):
    conf.supybot.capabilities.set(defaults)
    for reg in ('', 'foo -qux'):
        conf.supybot.capabilities.registeredUsers.set(reg)
        for default in (True, False):
            conf.supybot.capabilities.default.setValue(default)
            for who in WHO:
                for cap in CAPS:
                    for flags in itertools.product((False, True), repeat=3):
                        kw = dict(zip(('ignoreOwner', 'ignoreChannelOp',
                                       'ignoreDefaultAllow'), flags))
                        try:
                            res = ircdb.checkCapability(who, cap, users=users3,
                                                        channels=chans3, **kw)
                            grid.append('T' if res is True else
                                        'F' if res is False else '?')
                        except Exception as e:
                            grid.append(e.__class__.__name__[0].lower())
import hashlib
grid = ''.join(grid)
digest = '%d:%s' % (len(grid), hashlib.sha256(grid.encode()).hexdigest())

shutil.rmtree(BASE, ignore_errors=True)
if RECORD:
    print('GOLDEN2 = %r' % outcomes)
    print('GOLDEN3 = %r' % digest)
    print('T=%d F=%d other=%d' % (grid.count('T'), grid.count('F'),
                                 len(grid) - grid.count('T') - grid.count('F')))
    print('checks so far: %d, problems: %d' % (checks[0], len(problems)))
    sys.stdout.flush()
    os._exit(0)
expect('part 2: outcomes under non-default settings as on the reference tree',
       outcomes == GOLDEN2, outcomes)
expect('part 3: ircdb.checkCapability grid as on the reference tree',
       digest == GOLDEN3, digest)
print('%d checks' % checks[0])
if problems:
    print('FAIL: %d violation(s) of C01' % len(problems))
    sys.stdout.flush()
    os._exit(1)
print('PASS')
sys.stdout.flush()
os._exit(0)
