"""C07 control c2 (control-flow refactor) -- demo.

Drives the real driver loop (supybot.drivers.run -> SocketDriver -> Irc ->
IrcState -> plugin callbacks) over scripted fake sockets with hostile input,
plus unit-level sweeps of every function the control touches, and compares a
digest of everything observable (bytes written, log calls, return values,
exceptions, state dumps, driver registration, PING answers) with the digest
recorded on the unmodified tree.

  python demo.py            -> PASS / FAIL
  python demo.py --record   -> prints the digest (used once, on the clean tree)
  python demo.py --dump F   -> writes every observation to F (for diffing)
"""
import os, sys
if os.environ.get('PYTHONHASHSEED') != '0':
    os.environ['PYTHONHASHSEED'] = '0'
    os.environ['TZ'] = 'UTC'
    os.execv(sys.executable, [sys.executable] + sys.argv)

import re, time, errno, socket, signal, random, hashlib, logging, tempfile
import traceback, warnings, uuid, select as real_select
time.tzset()
sys.path.insert(0, os.getcwd())
TMP = tempfile.mkdtemp(prefix='c07ctl_')
with open(os.path.join(TMP, 'bot.conf'), 'w') as fd:
    fd.write("""
supybot.directories.data: %(d)s/data
supybot.directories.conf: %(d)s/conf
supybot.directories.log: %(d)s/logs
supybot.directories.backup: %(d)s/backup
supybot.directories.data.tmp: %(d)s/tmp
supybot.directories.data.web: %(d)s/web
supybot.log.stdout: False
supybot.log.level: DEBUG
supybot.nick: bot
supybot.ident: botid
supybot.user: bot user
supybot.nick.alternates: bot_ bot%%s
supybot.protocols.irc.throttleTime: 0.0
""" % {'d': TMP})
import supybot
assert os.path.realpath(supybot.__file__).startswith(
    os.path.realpath(os.getcwd())), supybot.__file__
import supybot.registry as registry
registry.open_registry(os.path.join(TMP, 'bot.conf'))
import supybot.log as log
import supybot.conf as conf
conf.supybot.flush.setValue(False)
import supybot.world as world
import supybot.irclib as irclib
import supybot.ircdb as ircdb
import supybot.drivers as drivers
import supybot.ircmsgs as ircmsgs
import supybot.ircutils as ircutils
import supybot.utils as utils
import supybot.utils.str as ustr
import supybot.drivers.Socket as S

conf.registerNetwork('test', ssl=False)
conf.supybot.networks.test.servers.setValue(['irc.test.example:6667'])
conf.registerNetwork('other', ssl=False)
conf.supybot.networks.other.servers.setValue(
    ['a.other.example:7000', 'b.other.example:7000'])

CWD = os.getcwd()
_norms = [
    (re.compile(r'0x[0-9a-fA-F]+'), '0x?'),
    (re.compile(r'Exception id: .*'), 'Exception id: ?'),
    (re.compile(r'line \d+'), 'line ?'),
    (re.compile(re.escape(TMP)), '<TMP>'),
    (re.compile(re.escape(os.path.realpath(CWD))), '<CWD>'),
    (re.compile(re.escape(CWD)), '<CWD>'),
    (re.compile(r'(killed twice:).*', re.S), r'\1 <stack>'),
    (re.compile(r'File "[^"]*?([^/"]+)"'), r'File "\1"'),
    (re.compile(r'File "%s"' % re.escape(os.path.basename(__file__))), 'File "<DEMO>"'),
]
def norm(s):
    for (r, repl) in _norms:
        s = r.sub(repl, s)
    return s

LOG = []
class Capture(logging.Handler):
    def emit(self, record):
        msg = record.getMessage()
        if 'Locals by frame, innermost last' in msg:
            msg = '<extra debug data>'
        exc = None
        if record.exc_info:
            (E, e, tb) = record.exc_info
            exc = (E.__name__, norm(str(e)))
        LOG.append((record.levelname, record.name, norm(msg), exc))
_cap = Capture()
_cap.setLevel(0)
logging.getLogger('supybot').addHandler(_cap)

def takelog():
    out = LOG[:]
    del LOG[:]
    return out

# ------------------------------------------------------------------ clocks
class Clock(object):
    now = 1700000000.0
CLOCK = Clock()
class TimeShim(object):
    def __init__(self, auto=0.0):
        self.auto = auto
        self.slept = []
    def __getattr__(self, name):
        return getattr(time, name)
    def time(self):
        CLOCK.now += self.auto
        return CLOCK.now
    def sleep(self, t):
        self.slept.append(t)
STIME = TimeShim()
S.time = STIME
drivers.time = TimeShim()
ircmsgs.time = TimeShim()
irclib.time = TimeShim(auto=0.001)   # the throttle compares with <=

# ------------------------------------------------------------------ sockets
class NetWorld(object):
    def __init__(self):
        self.socks = []
        self.address_script = []     # exceptions to raise from the resolver
        self.socket_script = []      # exceptions to raise from getSocket
        self.connect_script = []     # exceptions to raise from connect()
        self.select_script = []      # exceptions to raise from select()
        self.calls = []
NET = NetWorld()

class FakeSock(object):
    def __init__(self, address, port):
        self.address = address
        self.port = port
        self._closed = False
        self.badfileno = False
        self.writable = True
        self.sent = b''
        self.seen = 0
        self.rx = []
        self.send_script = []
        self.events = []
    def settimeout(self, t):
        self.events.append(('settimeout', t))
    def connect(self, addr):
        self.events.append(('connect', addr))
        if NET.connect_script:
            e = NET.connect_script.pop(0)
            if e is not None:
                raise e
    def fileno(self):
        return -1 if self.badfileno else 7
    def recv(self, n):
        if not self.rx:
            raise socket.timeout('timed out')
        x = self.rx.pop(0)
        if isinstance(x, BaseException):
            raise x
        if len(x) > n:
            self.rx.insert(0, x[n:])
            x = x[:n]
        return x
    def send(self, data):
        assert isinstance(data, bytes), type(data)
        k = self.send_script.pop(0) if self.send_script else None
        if isinstance(k, BaseException):
            raise k
        if k is None:
            k = len(data)
        k = min(k, len(data))
        self.sent += data[:k]
        return k
    def shutdown(self, how):
        self.events.append(('shutdown', how))
    def close(self):
        self.events.append(('close',))
        self._closed = True
    def new(self):
        out = self.sent[self.seen:]
        self.seen = len(self.sent)
        return out

def fake_getAddressFromHostname(host, port=None, attempt=0):
    NET.calls.append(('resolve', host, attempt))
    if NET.address_script:
        e = NET.address_script.pop(0)
        if e is not None:
            raise e
    return '10.1.2.3'
def fake_getSocket(host, port=None, socks_proxy=None, vhost=None, vhostv6=None):
    NET.calls.append(('getSocket', host, port, socks_proxy, vhost, vhostv6))
    if NET.socket_script:
        e = NET.socket_script.pop(0)
        if e is not None:
            raise e
    s = FakeSock(host, port)
    NET.socks.append(s)
    return s
def fake_ssl_wrap_socket(conn, hostname, logger, certfile=None, **kwargs):
    NET.calls.append(('ssl_wrap_socket', hostname, certfile, sorted(kwargs.items())))
    return conn
utils.net.getAddressFromHostname = fake_getAddressFromHostname
utils.net.getSocket = fake_getSocket
utils.net.ssl_wrap_socket = fake_ssl_wrap_socket

class SelectShim(object):
    error = real_select.error
    def select(self, r, w, x, timeout=None):
        NET.calls.append(('select', len(r), len(w), timeout))
        if NET.select_script:
            e = NET.select_script.pop(0)
            if e is not None:
                raise e
        return ([s for s in r if s.rx], [s for s in w if s.writable], [])
S.select = SelectShim()

_uuid_counter = [0]
def fake_uuid4():
    _uuid_counter[0] += 1
    return uuid.UUID(int=_uuid_counter[0])
uuid.uuid4 = fake_uuid4

# ---------------------------------------------------------------- callbacks
class Weird(BaseException):
    pass

class Boom(irclib.IrcCallback):
    """A plugin that fails in every hook, on demand."""
    resets = 0
    def name(self):
        return 'Boom'
    def __call__(self, irc, msg):
        if 'boomcall' in str(msg):
            raise RuntimeError('call %s' % msg.command)
        super(Boom, self).__call__(irc, msg)
    def doPrivmsg(self, irc, msg):
        text = msg.args[-1]
        if 'boompriv' in text:
            raise KeyError('priv')
        if 'sayback' in text:
            irc.queueMsg(ircmsgs.privmsg(msg.args[0], 'back: ' + text))
        if 'sendnow' in text:
            irc.sendMsg(ircmsgs.notice(msg.nick or 'nobody', 'now: ' + text))
    def doNotice(self, irc, msg):
        if 'raise' in msg.args[-1]:
            raise ZeroDivisionError('notice')
    def do001(self, irc, msg):
        raise AssertionError('welcome')
    def doCapLs(self, irc, msg):
        raise LookupError('capls')
    def doFailX(self, irc, msg):
        raise OSError(5, 'fail x')
    def inFilter(self, irc, msg):
        s = str(msg)
        if 'boomin' in s:
            raise ValueError('in')
        if 'dropin' in s:
            return None
        if 'rewritein' in s:
            return ircmsgs.IrcMsg(msg=msg, args=tuple(a.upper() for a in msg.args))
        return msg
    def outFilter(self, irc, msg):
        s = str(msg)
        if 'boomout' in s:
            raise ValueError('out')
        if 'dropout' in s:
            return None
        return msg
    def postTransition(self, irc, msg, from_state, to_state):
        if to_state == irclib.IrcStateFsm.States.INIT_MOTD:
            raise RuntimeError('transition')
    def reset(self):
        Boom.resets += 1
        if Boom.resets % 2:
            raise RuntimeError('reset')

class Quiet(irclib.IrcCallback):
    """Records what it is given."""
    echoMessage = True
    def __init__(self):
        self.seen = []
    def name(self):
        return 'Quiet'
    def __call__(self, irc, msg):
        self.seen.append((msg.command, msg.args, msg.channel,
                          sorted((k, repr(v)) for (k, v) in msg.tags.items()
                                 if k not in ('receivedBy', 'receivedAt', 'batch'))))
        super(Quiet, self).__call__(irc, msg)

class BareCallback(object):
    """Not an IrcCallback at all: nothing here is firewalled."""
    def name(self):
        return 'Bare'
    def inFilter(self, irc, msg):
        if 'bareweird' in str(msg):
            raise Weird('weird in inFilter')
        return msg
    def outFilter(self, irc, msg):
        return msg
    def __call__(self, irc, msg):
        if 'bareboom' in str(msg):
            raise Weird('weird')
        if 'bareattr' in str(msg):
            return msg.nothing.here
    def postTransition(self, irc, msg, from_state, to_state):
        pass
    def reset(self):
        raise TypeError('bare reset')
    def die(self):
        pass

# -------------------------------------------------------------------- dumps
def sset(s):
    return sorted(s, key=repr)
def dump_channel(c):
    return (sset(c.users), sset(c.ops), sset(c.halfops), sset(c.voices),
            sset(c.bans), sorted(c.modes.items(), key=repr), c.topic, c.created)
def dump_value(v):
    if isinstance(v, (set, frozenset)):
        return ('set', sset(v))
    if isinstance(v, dict):
        return ('dict', sorted(v.items(), key=repr))
    return v
def dump_irc(irc):
    st = irc.state
    return {
        'nick': irc.nick, 'prefix': irc.prefix, 'server': irc.server,
        'afterConnect': irc.afterConnect, 'zombie': irc.zombie,
        'outstandingPing': irc.outstandingPing,
        'fsm': str(st.fsm.state), 'ircd': st.ircd,
        'req': sset(st.capabilities_req), 'ack': sset(st.capabilities_ack),
        'nak': sset(st.capabilities_nak),
        'ls': sorted(st.capabilities_ls.items(), key=repr),
        'supported': sorted(((k, dump_value(v)) for (k, v) in st.supported.items()), key=repr),
        'channels': sorted(((k, dump_channel(c)) for (k, c) in st.channels.items()), key=repr),
        'n2h': sorted(st.nicksToHostmasks.items(), key=repr),
        'batches': sorted(st.batches.keys()),
        'history': [(str(m), m.channel) for m in st.history],
        'queue': repr(irc.queue), 'fast': repr(irc.fastqueue),
        'sasl': (irc.sasl_authenticated, irc.sasl_current_mechanism,
                 list(irc.sasl_next_mechanisms), irc.sasl_response_sent),
        'tried': sset(irc.triedNicks), 'alt': list(irc.alternateNicks),
        'sync': sorted(irc.startedSync.keys()),
        'reqcaps': sset(irc.REQUEST_CAPABILITIES),
        'inworld': irc in world.ircs,
    }
def dump_driver(d, irc):
    name = d.name()
    return {
        'registered': drivers._drivers.get(name) is d,
        'links': (d.irc is irc, irc.driver is d),
        'connected': d.connected, 'zombie': d.zombie, 'eagains': d.eagains,
        'inbuffer': d.inbuffer, 'outbuffer': d.outbuffer,
        'reconnectAt': d.nextReconnectTime, 'writeCheck': d.writeCheckTime,
        'delay': d.currentDelay, 'attempt': d._attempt,
        'server': tuple(getattr(d, 'currentServer', ())),
        'servers': [tuple(x) for x in d.servers],
        'instance': d in S.SocketDriver._instances,
        'closed': None if d.conn is None else d.conn._closed,
    }

# ------------------------------------------------------------------- engine
class Session(object):
    def __init__(self, nets=('test',), callbacks=('Boom', 'Quiet')):
        random.seed(4242)
        self.obs = []
        self.probe = 0
        self.ircs = {}
        self.drivers = {}
        cbs = []
        for c in callbacks:
            if c == 'Boom':
                cbs.append(Boom())
            elif c == 'Quiet':
                self.quiet = Quiet()
                cbs.append(self.quiet)
            elif c == 'Bare':
                cbs.append(BareCallback())
            elif c == 'None':
                cbs.append(None)
        for net in nets:
            irc = irclib.Irc(net)
            self.ircs[net] = irc
        first = self.ircs[nets[0]]
        for cb in cbs:
            if isinstance(cb, irclib.IrcCallback):
                first.addCallback(cb)
        # a total, address-independent order
        first.callbacks[:] = cbs
        for net in nets:
            self.drivers[net] = drivers.newDriver(self.ircs[net])
        self.note('start')

    def sock(self, net):
        port = {'test': 6667, 'other': 7000}[net]
        for s in reversed(NET.socks):
            if s.port in (port, port + 30):    # +30: the STS port
                return s
        return None

    def note(self, label):
        wire = [(i, s.new()) for (i, s) in enumerate(NET.socks)]
        wire = [(i, w) for (i, w) in wire if w]
        calls = NET.calls[:]
        del NET.calls[:]
        slept = STIME.slept[:]
        del STIME.slept[:]
        self.obs.append((label, wire, takelog(), calls, slept))

    def run(self, n=1, label='run'):
        for _ in range(n):
            try:
                drivers.run()
            except BaseException as e:
                self.obs.append(('ESCAPED', type(e).__name__, norm(str(e))))
        self.note(label)

    def rx(self, data, net='test', n=1):
        s = self.sock(net)
        s.rx.append(data)
        self.run(n, 'rx')

    def ensure_connected(self, net='test'):
        s = self.sock(net)
        if s is None or s._closed or not self.drivers[net].connected:
            # somebody made us reconnect with wait=True: let time pass
            self.tick(400)
            self.run(2, 'reconnect')

    def drain(self, net='test'):
        # recv() hands out at most 1024 bytes per round
        for _ in range(200):
            s = self.sock(net)
            if s is None or not s.rx or not self.drivers[net].connected:
                break
            try:
                drivers.run()
            except BaseException as e:
                self.obs.append(('ESCAPED', type(e).__name__, norm(str(e))))

    def ping(self, net='test', expect=True):
        if expect:
            self.drain(net)
            self.ensure_connected(net)
        self.probe += 1
        tok = ('probe%d' % self.probe).encode()
        s = self.sock(net)
        before = len(s.sent)
        s.rx.append(b'PING :' + tok + b'\r\n')
        self.run(2, 'ping')
        ok = (b'PONG :' + tok + b'\r\n') in s.sent[before:]
        d = self.drivers[net]
        self.obs.append(('PINGED' if expect else 'PINGED-DOWN', net, ok,
                         drivers._drivers.get(d.name()) is d, d.connected))
        return ok

    def snap(self):
        for net in sorted(self.ircs):
            self.obs.append(('IRC', net, sorted(dump_irc(self.ircs[net]).items())))
            self.obs.append(('DRIVER', net,
                             sorted(dump_driver(self.drivers[net], self.ircs[net]).items())))
        self.obs.append(('LOOP', sorted(drivers._drivers), drivers.empty(),
                         [(s.address, s.port, s._closed, s.events) for s in NET.socks]))
        if hasattr(self, 'quiet'):
            self.obs.append(('QUIET', self.quiet.seen[:]))
            del self.quiet.seen[:]

    def tick(self, dt):
        CLOCK.now += dt

HANDSHAKE = [
    b':srv CAP * LS * :multi-prefix account-notify=x extended-join batch',
    b':srv CAP * LS :server-time message-tags labeled-response echo-message away-notify chghost ~=x =',
    b':srv CAP bot ACK :account-notify away-notify batch chghost echo-message labeled-response',
    b':srv CAP bot ACK :extended-join message-tags multi-prefix server-time',
    b':srv 001 bot :Welcome',
    b':srv 002 bot :Your host is srv, running version ircd-9',
    b':srv 003 bot :created',
    b':srv 004 bot srv ircd-9 iow biklmnopstv bklov',
    b':srv 005 bot CHANTYPES=#& PREFIX=(ohv)@%+ NICKLEN=16 CHANNELLEN=30 MODES=4 MAXLIST=beI:50,q:10 MAXBANS=b:20,e:5 STATUSMSG=@+ NETWORK=Test :are supported',
    b':srv 375 bot :- motd',
    b':srv 372 bot :- hello',
    b':srv 376 bot :End of MOTD',
    b':bot!botid@host.example JOIN #c * :real',
    b':srv 353 bot = #c :@bot +alice!a@h.a %bob carol',
    b':srv 366 bot #c :End',
    b':srv 324 bot #c +ntk key',
    b':srv 329 bot #c 1600000000',
    b':srv 315 bot #c :End of WHO',
]

HAND = [
    b'', b' ', b'\r', b'\t\x0b\x0c', b'\xc2\xa0', b':', b': ', b':a', b':a ', b'@', b'@ ', b'@a', b'@a ',
    b'@a :p', b'@a :p ', b'@a :p C', b'@a=1;b;c= :p C x :y z', b'@=;=;;= C', b'@a=\\ C', b'@a=\\:\\s\\\\\\r\\n\\x C',
    b'@time C', b'@time= C', b'@time=\\ C', b'@time=2020 C', b'@time=2020-01-01T00:00:00.000Z C',
    b'@time=2020-01-01T00:00:00.000Z', b'@time=2020-01-01T00:00:00Z C', b'@time=2020-01-01T00:00:00.000+01:00 C',
    b'@time=0001-01-01T00:00:00.000Z C', b'@time=9999-12-31T23:59:59.999999Z C', b'@time=2020-13-01T00:00:00.000Z C',
    b'@time=2020-02-30T00:00:00.000Z C', b'@x;time=2021-06-01T12:00:00.5Z;y=z :n!u@h PRIVMSG #c :hi',
    b'@time=1;time=2020-01-01T00:00:00.000Z C', b'PING', b'PING :', b'PING x', b'PING :x y', b'PING x y :z',
    b'  PING   x  ', b':srv PING :x\r', b'\xff\xfe PING x', b'PING \xff\xfe', b'PING :\xe2\x82', b'\xe2\x82\xac',
    b':\xc3\xa9!\xc3\xa9@\xc3\xa9 PRIVMSG \xc3\xa9 :\xc3\xa9', b':n!u@h', b':n!u@h ', b':n!u@h  :', b':n!u@h :x',
    b':a@b!c PRIVMSG x', b':a!b PRIVMSG x', b':!@ PRIVMSG x', b':a!b@c!d@e PRIVMSG x', b':a!!@@ X', b'::: :::',
    b'001', b':srv 001', b':srv 001 :', b':srv 001 bot', b':srv 005', b':srv 005 bot', b':srv 005 bot :x',
    b':srv 005 bot CHANTYPES CHANNELLEN= PREFIX=(ov NICKLEN=abc MAXLIST=b MODES= STATUSMSG :are supported',
    b':srv 005 bot PREFIX=(ov)@ PREFIX=)( PREFIX=@+ MAXLIST=b:1,e MAXLIST=be:x MAXBANS=e:5 MAXBANS=b:1,e:2 MAXBANS=12 MAXBANS=x WATCH=1 =x = :are supported',
    b':srv 005 bot CHANTYPES=#& CHANNELLEN=30 STATUSMSG=@+ :are supported',
    b':srv 353', b':srv 353 bot', b':srv 353 bot = #c', b':srv 353 bot = #c :', b':srv 353 bot @ #c :@a +b c!d@e  ',
    b':srv 353 bot @ #new :~@x &y !z @ + @%+v!v@v',
    b':srv 353 a b c d e f', b'MODE', b':n!u@h MODE #c', b':n!u@h MODE #c +ooo', b':n!u@h MODE #c +b-b+k',
    b':n!u@h MODE #c +o-v+h-h alice alice bob bob', b':n!u@h MODE #c +b-b+e+I-q x!*@* x!*@* e i q',
    b':n!u@h MODE #c +l-l+k-k 5 key', b':n!u@h MODE #c *x', b':n!u@h MODE #c + -', b':n!u@h MODE #c o alice',
    b':n!u@h MODE #c +l x', b':n!u@h MODE bot +i', b':n!u@h MODE #zz +m', b'KICK', b':n!u@h KICK #c', b':n!u@h KICK #c bot',
    b':bot!botid@host.example JOIN #c', b':srv 353 bot = #c :@bot alice bob', b':n!u@h KICK #c alice,bot,bob :bye',
    b':bot!botid@host.example JOIN #c', b':srv 353 bot = #c :@bot alice bob', b':n!u@h KICK #c alice,,bob', b':n!u@h KICK #nope x,y',
    b'CAP', b'CAP *', b'CAP * LS', b'CAP * LS :', b'CAP * LS * :', b'CAP * LS * * :', b'CAP * ACK :', b'CAP * ACK', b'CAP * NAK :x',
    b'CAP * LS x :y', b'CAP * LS * :==~~a=b ~ = ~=c', b'CAP * NEW :===z ~y=1', b'CAP * NEW :setname', b'CAP bot ACK :setname',
    b'CAP * NEW', b'CAP * DEL :x=y', b'CAP * DEL :setname batch=1 nope', b'CAP * FOO :x', b'CAP * LIST :', b'CAP * ls :lower',
    b'AUTHENTICATE', b'AUTHENTICATE +', b'AUTHENTICATE :\xff',
    b'AUTHENTICATE ' + b'A' * 400, b':srv 903 bot :ok', b':srv 904 bot', b':srv 908', b':srv 908 bot PLAIN,EXTERNAL :are available',
    b':srv 43X bot', b':srv 433', b':srv 433 * bot :in use',
    b':n!u@h JOIN', b':n!u@h JOIN #c', b':bot!u@h JOIN #c,#d', b':n!u@h PART', b':bot!u@h PART #d', b':n!u@h PART #c,#nope,#d', b':n!u@h QUIT', b':n!u@h NICK', b':n!u@h NICK :',
    b':alice!a@h.a NICK ALICE', b':ALICE!a@h.a NICK alice2', b':alice2!a@h.a QUIT :gone', b':bob NICK robert',
    b':bot!u@h NICK bot2', b':bot2!u@h NICK bot', b':n!u@h CHGHOST', b':bot!u@h CHGHOST a', b':bot!u@h CHGHOST newid new.host', b':srv 332 bot #nope :t', b':srv 332 bot', b':srv 332 bot #c :topic!', b':srv 329 bot #c x',
    b':srv 324 bot #c +lk', b':srv 324 bot #c +lk-n+ov 5 key a b', b':srv 324 bot #nope +l 5', b':srv 324 bot #c +h-h+v-o+s-t x y z w', b':srv 324 bot #c h', b':srv 324 bot #c', b':srv 324 bot', b':srv 367 bot #c', b':srv 367 bot #c ban!*@* x 1', b':srv 367 bot #nope ban!*@* x 1',
    b':srv 352 bot', b':srv 352 bot #c user host srv nick H :0 real', b':srv 354 bot 1 a b c d e f g', b':srv 354 bot 2 a b c d e f g', b':srv 315 bot', b':srv 315 bot #c', b':n!u@h TOPIC', b':n!u@h TOPIC #c', b':n!u@h TOPIC #c :new topic', b':n!u@h TOPIC #nope :t',
    b'BATCH', b'BATCH x', b'BATCH +', b'BATCH +r', b'BATCH +r netsplit a b', b'@batch=r :x!y@z QUIT :split', b'BATCH -r', b'BATCH -nope', b'@batch=nope :n!u@h PRIVMSG #c :x', b':n!u@h AWAY', b':carol AWAY :brb', b'ERROR', b'ERROR :nothing special',
    b':n!u@h NOTICE bot :raise', b':n!u@h NOTICE @#c :raise', b':n!u@h PRIVMSG +#c :x', b':n!u@h PRIVMSG', b':n!u@h PRIVMSG :', b':n!u@h TAGMSG #c',
    b':n!u@h PRIVMSG #c :boomcall', b':n!u@h PRIVMSG #c :boompriv', b':n!u@h PRIVMSG #c :boomin', b':n!u@h PRIVMSG #c :dropin', b':n!u@h PRIVMSG #c :rewritein please',
    b':n!u@h PRIVMSG #c :sayback hello', b':n!u@h PRIVMSG #c :sayback boomout', b':n!u@h PRIVMSG #c :sayback dropout', b':n!u@h PRIVMSG bot :sendnow \xe2\x82\xac',
    b':n!u@h PRIVMSG #c :bareboom', b':n!u@h PRIVMSG #c :bareweird', b':n!u@h PRIVMSG #c :bareattr',
    b'@label=abc :bot!botid@host.example PRIVMSG #c :an echo', b':bot PRIVMSG #c :odd prefix', b':bot!x@y PRIVMSG #c :learn prefix',
    b'FAIL', b'FAIL X', b'FAIL X Y :z', b'WARN * Y :z', b'NOTE', b'NOTE x', b':srv 421 bot FOO :Unknown command', b':srv 999 ' + b'x ' * 300, b'x' * 2000, b'\x00', b'PING \x00', b'PING :a\x00b',
    b':srv 002 bot :x', b':srv 002 bot :', b':srv 002', b':srv 004 bot', b':srv 004 bot a', b':srv 004 bot a b c d e', b':srv 375 bot', b':srv 376 bot', b':srv 422 bot', b':srv 437 * bot', b':srv 432 * bot',
    b':srv 366', b':srv 333 other #c n 1', b':srv 250 other :x', b':other!u@h 372 x :y', b':srv 401 bot x :No such nick', b':srv 599', b':srv 400 :%s %d %q %L',
]
_rng = random.Random(20260930)
ATOMS = [b' ', b' ', b' ', b':', b'@', b'!', b';', b'=', b'#', b',', b'+', b'-', b'*', b'\\', b'\r', b'\t', b'\x01', b'\x07',
         b'\xff', b'\xc3', b'\xa9', b'\xe2\x82\xac', b'\xf0\x9f\x98\x80', b'\xed\xa0\x80', b'%s', b'%', b'a', b'bot', b'srv', b'n!u@h',
         b'#c', b'PING', b'PRIVMSG', b'NOTICE', b'MODE', b'KICK', b'JOIN', b'CAP', b'LS', b'ACK', b'NEW', b'DEL', b'AUTHENTICATE', b'353', b'005', b'001',
         b'433', b'time', b'batch', b'label', b'2020-01-01T00:00:00.000Z', b'CHANTYPES', b'PREFIX=(ov)@+', b'sts', b'sasl', b'raise', b'0', b'-1', b'',
         b'BATCH', b'FAIL', b'QUIT', b'NICK', b'PART', b'TOPIC', b'324', b'367', b'+o', b'-b', b'alice', b'boomcall', b'dropin']
RANDOM = [b''.join(_rng.choice(ATOMS) for _ in range(_rng.randint(0, 12))) for _ in range(700)]
# never let a random line end the connection: those paths have their own scenarios
RANDOM = [l for l in RANDOM if b'ERROR' not in l and b'sts' not in l]
CORPUS = HAND + RANDOM

def chunked(data, rng, sizes):
    out = []
    i = 0
    while i < len(data):
        n = rng.choice(sizes)
        out.append(data[i:i+n])
        i += n
    return out

def feed_stream(sess, lines, seed, sizes, eol=b'\r\n', every=40, expect=True):
    rng = random.Random(seed)
    for start in range(0, len(lines), every):
        block = lines[start:start+every]
        data = b''.join(l + (eol if rng.random() < 0.8 else b'\n') for l in block)
        for chunk in chunked(data, rng, sizes):
            if expect:
                sess.ensure_connected()
            sess.sock('test').rx.append(chunk)
            try:
                drivers.run()
            except BaseException as e:
                sess.obs.append(('ESCAPED', type(e).__name__, norm(str(e))))
            if expect:
                sess.drain()
        sess.note('block %d' % start)
        sess.ping(expect=expect)
    sess.snap()

# ---------------------------------------------------------------- scenarios
def sc_corpus_after_handshake():
    sess = Session(callbacks=('Boom', 'Quiet', 'Bare'))
    sess.run(2)
    feed_stream(sess, HANDSHAKE, 1, [5, 17, 64, 1024])
    feed_stream(sess, CORPUS, 2, [1, 2, 3, 7, 31, 100, 511, 1024, 5000])
    return sess.obs

def sc_corpus_raw_strict():
    conf.supybot.protocols.irc.strictRfc.setValue(True)
    conf.supybot.protocols.irc.maxHistoryLength.setValue(7)
    conf.supybot.protocols.irc.queuing.duplicates.setValue(True)
    sess = Session(callbacks=('Quiet', 'Boom'))
    sess.run(2)
    feed_stream(sess, CORPUS, 3, [1024, 4096], eol=b'\n', every=97)
    feed_stream(sess, HANDSHAKE + HAND[:120], 4, [1], every=23)
    return sess.obs

def sc_sasl(required):
    def f():
        g = conf.supybot.networks.test
        g.sasl.username.setValue('jilles')
        g.sasl.password.setValue('sesame')
        g.sasl.required.setValue(required)
        g.certfile.setValue('/nonexistent/cert.pem')
        g.sasl.mechanisms.setValue(['external', 'scram-sha-256', 'plain',
                                    'ecdsa-nist256p-challenge'])
        sess = Session()
        sess.run(2)
        lines = [
            b':srv 903 bot :unsolicited',
            b'AUTHENTICATE +',
            b':srv CAP * LS :sasl=EXTERNAL,PLAIN,FOO multi-prefix',
            b':srv CAP bot ACK :multi-prefix sasl',
            b':srv 903 bot :too early',
            b'AUTHENTICATE',
            b'AUTHENTICATE :',
            b'AUTHENTICATE ' + b'A' * 400,
            b'AUTHENTICATE ' + b'QUJD' * 100,
            b'AUTHENTICATE +',
            b':srv 908 bot PLAIN :are available',
            b':srv 904 bot :failed',
            b'AUTHENTICATE !!!notbase64',
            b'AUTHENTICATE +',
            b':srv 905 bot :too long',
            b':srv 906 bot :aborted',
            b':srv 907 bot :already',
            b':srv 903 bot :finally',
            b':srv 900 bot bot!botid@h jilles :You are now logged in',
            b':srv 001 bot :Welcome',
            b':srv 375 bot :motd',
            b':srv 376 bot :end',
            b':srv CAP bot NEW :sasl=PLAIN',
            b':srv CAP bot ACK :sasl',
            b'AUTHENTICATE +',
            b':srv 903 bot :again',
            b':srv CAP bot DEL :sasl',
            b':srv CAP bot NAK :sasl',
            b':srv CAP bot ACK :unrequested-cap',
        ]
        feed_stream(sess, lines, 5, [9, 80], every=3)
        # the unrequested ACK made us reconnect; this time all goes well
        good = [
            b':srv CAP * LS :sasl=EXTERNAL,PLAIN multi-prefix',
            b':srv CAP bot ACK :multi-prefix sasl',
            b'AUTHENTICATE +',
            b':srv 904 bot :no certificate, no EXTERNAL',
            b'AUTHENTICATE +',
            b':srv 900 bot bot!botid@h jilles :You are now logged in as jilles',
            b':srv 903 bot :SASL authentication successful',
            b':srv 001 bot :Welcome',
            b':srv 376 bot :End of MOTD',
        ]
        feed_stream(sess, good, 55, [33], every=2)
        return sess.obs
    return f

def sc_sts():
    sess = Session()
    sess.run(2)
    lines = [
        b':srv CAP * LS * :sts',
    ]
    feed_stream(sess, lines, 6, [1024], every=1)
    feed_stream(sess, [b':srv CAP * LS :sts=duration=x multi-prefix'], 6, [1024], every=1)
    feed_stream(sess, [b':srv CAP * LS :sts=port=6697,duration=300 multi-prefix',
                       b'PING :after-sts-in-same-burst'], 6, [1024], every=2)
    sess.tick(30)
    sess.run(3, 'after sts')
    feed_stream(sess, [b':srv CAP * LS :sts=port=6697,duration=300 multi-prefix',
                       b':srv CAP bot ACK :multi-prefix'], 6, [1024], every=1)
    sess.obs.append(('STS', sorted(ircdb.networks.getNetwork('test').stsPolicies.items())))
    return sess.obs

def sc_ping_timeout():
    conf.supybot.protocols.irc.ping.interval.setValue(20)
    conf.supybot.protocols.irc.throttleTime.setValue(1.0)
    sess = Session()
    sess.run(2)
    feed_stream(sess, HANDSHAKE, 7, [300])
    for i in range(3):
        sess.tick(21)
        sess.run(2, 'ping due %d' % i)
        sess.rx(b':srv PONG srv :x\r\n')
        sess.snap()
    sess.tick(21)
    sess.run(2, 'ping sent')
    sess.tick(21)
    sess.run(3, 'ping timeout')
    sess.snap()
    sess.ping()
    feed_stream(sess, HANDSHAKE[:8], 8, [300])
    # ERROR handling: reconnect at once / later / not at all
    sess.rx(b'ERROR :Closing Link: bot (Ping timeout)\r\nPING :stale-line-from-the-old-connection\r\n')
    sess.snap()
    sess.ping()
    sess.rx(b'ERROR :Trying to reconnect too fast.\r\nPING :stale\r\n')
    sess.snap()
    sess.run(2, 'waiting')
    sess.tick(5)
    sess.run(2, 'still waiting')
    sess.tick(10)
    sess.run(2, 'reconnected')
    sess.ping()
    sess.rx(b'ERROR :no reason at all\r\n')
    sess.ping()
    sess.snap()
    return sess.obs

def sc_socket_errors():
    sess = Session()
    d = sess.drivers['test']
    sess.run(2)
    s = sess.sock('test')
    for x in [socket.timeout('t'), S.SSLError('The read operation timed out'),
              socket.error(11, 'Resource temporarily unavailable'),
              socket.error(errno.EAGAIN, 'again')]:
        s.rx.append(x)
        sess.run(1, 'rxerr %r' % (x,))
    sess.ping()
    sess.snap()
    # a partial line stays buffered across errors
    sess.rx(b'PING :spl')
    s.rx.append(socket.error(11, 'again'))
    sess.run(1, 'eagain inside a line')
    sess.rx(b'it\r\nPI')
    sess.snap()
    sess.rx(b'NG :second\r\n')
    # short writes, EAGAIN on write
    s.send_script.extend([1, 0, 3, socket.error(11, 'again'), 2, None])
    sess.rx(b'PING :shortwrites\r\n', n=8)
    sess.snap()
    # more than 120 EAGAINs in a row
    for i in range(123):
        s.rx.append(socket.error(11, 'again'))
        try:
            drivers.run()
        except BaseException as e:
            sess.obs.append(('ESCAPED', type(e).__name__))
    sess.note('eagain storm')
    sess.snap()
    sess.tick(11)
    sess.run(2, 'back')
    sess.ping()
    # other SSL error, reset, close, error without args
    for x in [S.SSLError('bad record mac'), socket.error(104, 'Connection reset by peer'),
              b'', socket.error('just a string')]:
        s = sess.sock('test')
        s.rx.append(x)
        sess.run(1, 'fatal %r' % (x,))
        sess.snap()
        sess.tick(700)
        sess.run(2, 'back')
        sess.ping()
    # write errors
    s = sess.sock('test')
    s.send_script.append(socket.error(32, 'Broken pipe'))
    sess.rx(b'PING :brokenpipe\r\n')
    sess.snap()
    sess.tick(700)
    # resolver / socket / connect failures while reconnecting
    NET.address_script.extend([socket.gaierror(-2, 'Name or service not known'),
                               socket.error(101, 'Network is unreachable')])
    NET.socket_script.extend([socket.error(24, 'Too many open files')])
    NET.connect_script.extend([socket.error(111, 'Connection refused'),
                               socket.error(115, 'Operation now in progress')])
    for i in range(6):
        sess.run(1, 'reconnect attempt %d' % i)
        sess.snap()
        sess.tick(700)
    # the connect that was "in progress" is found writable; such a connection
    # is never polled for input, though
    sess.ping(expect=False)
    d.reconnect()
    sess.run(1, 'manual reconnect')
    sess.ping()
    # a pending connect that is not writable in time -> reconnect
    NET.connect_script.extend([socket.error(115, 'Operation now in progress')])
    sess.rx(b'ERROR :Closing link\r\n')
    sess.snap()
    sess.sock('test').writable = False
    sess.tick(61)
    sess.run(1, 'not writable')
    sess.snap()
    sess.ping()
    # fileno() == -1 -> reconnect from _select ; interrupted select
    sess.sock('test').badfileno = True
    sess.run(1, 'bad fileno')
    sess.snap()
    sess.ping()
    NET.select_script.append(real_select.error(errno.EINTR, 'Interrupted system call'))
    sess.run(1, 'eintr')
    sess.ping()
    # surrogates and over-long lines on the way out
    irc = sess.ircs['test']
    irc.queueMsg(ircmsgs.privmsg('#c', 'lone \ud800 surrogate'))
    irc.queueMsg(ircmsgs.privmsg('#c', '€' * 400))
    irc.sendMsg(ircmsgs.IrcMsg(command='PRIVMSG', args=('#c', 'x' * 600),
                               server_tags={'+draft/reply': 'a b;c\\d', 'flag': None}))
    sess.run(4, 'odd output')
    sess.snap()
    return sess.obs

def sc_fatal(kind):
    # what run() does with an exception that does escape a driver: the driver
    # is logged, unregistered and unlinked from its Irc
    def f():
        sess = Session(callbacks=('Quiet', 'None', 'Boom') if kind == 'none-callback'
                       else ('Boom', 'Quiet'))
        sess.run(2)
        if kind == 'none-callback':
            # takeMsg cannot get past the None: nothing is ever sent
            feed_stream(sess, HANDSHAKE + HAND[:60], 11, [50], every=30, expect=False)
            return sess.obs
        feed_stream(sess, HANDSHAKE[:8], 11, [50])
        if kind == 'ebadf':
            NET.select_script.append(real_select.error(errno.EBADF, 'Bad file descriptor'))
        elif kind == 'noargs':
            sess.sock('test').rx.append(socket.error())
        elif kind == 'keyboard':
            sess.sock('test').rx.append(KeyboardInterrupt())
        sess.run(2, kind)
        sess.snap()
        sess.ping(expect=False)
        sess.tick(700)
        sess.run(2, 'later')
        sess.snap()
        return sess.obs
    return f

def sc_die():
    sess = Session()
    irc = sess.ircs['test']
    sess.run(2)
    feed_stream(sess, HANDSHAKE, 9, [200])
    for i in range(4):
        irc.queueMsg(ircmsgs.privmsg('#c', 'bye %d' % i))
    irc.queueMsg(ircmsgs.join('#x'))
    irc.queueMsg(ircmsgs.join('#y'))
    conf.supybot.protocols.irc.queuing.rateLimit.join.setValue(5)
    sess.sock('test').send_script.extend([4, 4, 0, 10])
    irc.queueMsg(ircmsgs.quit('going'))
    irc.die()
    irc.queueMsg(ircmsgs.privmsg('#c', 'refused'))
    irc.sendMsg(ircmsgs.privmsg('#c', 'refused too'))
    for i in range(8):
        sess.run(1, 'dying %d' % i)
        sess.tick(3)
    sess.snap()
    return sess.obs

def sc_two_networks():
    sess = Session(nets=('test', 'other'))
    sess.run(2)
    for net in ('other', 'test'):
        for line in HANDSHAKE[:6]:
            sess.sock(net).rx.append(line + b'\r\n')
    sess.run(3, 'both')
    sess.ping('test'); sess.ping('other')
    sess.sock('test').rx.append(b'')
    sess.sock('other').rx.append(b'PING :while-the-other-dies\r\n')
    sess.run(3, 'one closes')
    sess.snap()
    sess.ping('other')
    sess.tick(11)
    sess.run(2, 'back')
    sess.ping('test'); sess.ping('other')
    sess.sock('other').rx.append(b'ERROR :Closing link\r\n')
    sess.sock('test').rx.append(b':n!u@h PRIVMSG #c :boomcall\r\n')
    sess.run(3, 'other reconnects')
    sess.ping('test'); sess.ping('other')
    # a second driver under the same name replaces the first
    d2 = drivers.newDriver(sess.ircs['other'])
    sess.run(2, 'duplicate driver')
    sess.drivers['other'] = d2
    sess.ping('other', expect=False)
    sess.snap()
    return sess.obs

# ------------------------------------------------------------------- units
def outcome(f, *args, **kwargs):
    try:
        with warnings.catch_warnings(record=True) as w:
            warnings.simplefilter('always')
            r = f(*args, **kwargs)
        return ('ok', r, [str(x.message) for x in w], takelog())
    except BaseException as e:
        return ('exc', type(e).__name__, norm(str(e)),
                type(e.__context__).__name__, takelog())

def msg_fields(m):
    return (m.prefix, m.command, m.args, m.nick, m.user, m.host,
            sorted(m.server_tags.items(), key=repr), m.time, m.reply_env,
            sorted(m.tags.items(), key=repr), str(m), len(m), repr(m),
            hash(m) == hash(ircmsgs.IrcMsg(prefix=m.prefix, command=m.command,
                                           args=m.args))
            if all(ircutils.isValidArgument(a) for a in m.args) else None)

def un_ircmsg():
    out = []
    for raw in CORPUS:
        for line in (raw, raw + b'\r\n', raw + b'\n'):
            s = ustr.decode_raw_line(line)
            out.append((s, outcome(lambda: msg_fields(ircmsgs.IrcMsg(s)))))
            out.append((s, outcome(lambda: (lambda m: m and msg_fields(m))(drivers.parseMsg(s)))))
    base = ircmsgs.IrcMsg('@a=b;c :n!u@h PRIVMSG #c :hello there')
    base.tag('k', 'v')
    base.reply_env = {'x': 'y'}
    kws = [
        dict(), dict(s=''), dict(command='PING'), dict(command='PING', args=('a',)),
        dict(command='PING', args=['a', 'b c']), dict(command='PING', args=('a b', 'c')),
        dict(command='PING', args=('',)), dict(command='PING', args=('a\nb',)),
        dict(command='X', prefix='n!u@h', server_tags={'t': 'v w', 'u': None}),
        dict(command='X', prefix='srv', reply_env={'a': 'b'}),
        dict(msg=base), dict(msg=base, prefix='o!p@q'), dict(msg=base, command='NOTICE'),
        dict(msg=base, args=('#d', 'x')), dict(msg=base, args=('#d', 'x\ry')),
        dict(msg=base, args=()), dict(msg=base, reply_env={'n': 'm'}),
        dict(msg=base, server_tags={'ignored': 'x'}), dict(msg=base, s='PING x'),
        dict(s='PING x', command='PONG'), dict(args=('a',)), dict(prefix='a'),
    ]
    for kw in kws:
        def build():
            m = ircmsgs.IrcMsg(**kw)
            return (msg_fields(m), m.reply_env is base.reply_env,
                    m.tags is base.tags, m.server_tags is base.server_tags)
        out.append((sorted(kw, key=repr), outcome(build)))
    base2 = ircmsgs.IrcMsg(command='PRIVMSG', args=('#c', 'x'))
    out.append(outcome(lambda: msg_fields(ircmsgs.IrcMsg(msg=base2))))
    a = ircmsgs.IrcMsg(':n!u@h PRIVMSG #c :x')
    b = ircmsgs.IrcMsg(prefix='n!u@h', command='PRIVMSG', args=('#c', 'x'))
    out.append((a == b, a != b, a == 'x', hash(a) == hash(b), a.nothing, a.tagged('q')))
    for tags in ['', ';', 'a', 'a=', 'a=b', 'a=b;a=c', 'a=\\s\\:\\\\\\r\\n\\q\\', '=', '=v', 'a==b;;c',
                 '+x/y=z', 'a=b=c', 'time=', 'é=ü']:
        out.append((tags, outcome(lambda: sorted(ircmsgs._parse_server_tags(tags).items(), key=repr))))
        out.append((tags, outcome(lambda: ircmsgs._format_server_tags(ircmsgs._parse_server_tags(tags)))))
        out.append((tags, outcome(ircmsgs.unescape_server_tag_value, tags)))
    return out

class FakeDetector(object):
    answers = []
    def feed(self, line):
        self.line = line
    def close(self):
        self.result = {'encoding': FakeDetector.answers.pop(0)}
def un_decode():
    out = []
    lines = [b'', b'abc', b'\xe2\x82\xac', b'\xff\xfe', b'caf\xe9', b'\xe2\x82', b'a\x80b\xc3', b'\xed\xa0\x80',
             b'\x00\xff', b'\xa4 price']
    for l in lines:
        out.append(outcome(ustr.decode_raw_line, l))
    saved = (ustr.charadeLoaded, getattr(ustr, 'UniversalDetector', None))
    ustr.charadeLoaded = True
    ustr.UniversalDetector = FakeDetector
    for enc in [None, '', 'latin-1', 'ascii', 'utf-16', 'iso-8859-15', 'no-such-codec', 'cp1252']:
        for l in lines:
            FakeDetector.answers = [enc]
            out.append((enc, outcome(ustr.decode_raw_line, l), len(FakeDetector.answers)))
    ustr.charadeLoaded = saved[0]
    return out

class Target(irclib.IrcCommandDispatcher):
    def doPrivmsg(self): pass
    def doCap(self): pass
    def doCapLs(self): pass
    def doCapAck(self): pass
    def doFail(self): pass
    def doFailAccount_required(self): pass
    def doNoteX(self): pass
    def do001(self): pass
    doWarn = None
    doWarnNone = None
    def doWarnY(self): pass
def un_dispatch():
    out = []
    t = Target()
    cmds = ['PRIVMSG', 'privmsg', 'PrivMsg', 'CAP', 'cap', 'FAIL', 'fail', 'WARN', 'NOTE', 'note', '001', '',
            'ß', 'ǆ', 'NOPE', 'CAPLS', 'FAILX']
    argss = [None, [], (), ('LS',), ('*', 'LS'), ('*', 'ls'), ('*', 'ACK', 'x'), ('*', 'NEW'), ('*', ''),
             ('ACCOUNT_REQUIRED',), ('account_required', 'x'), ('X',), ('x', 'y'), ('Y',), ('none',), ('',),
             ('*',), ['*', 'LS', 'more']]
    for c in cmds:
        for a in argss:
            out.append((c, a, outcome(lambda: getattr(t.dispatchCommand(c, a), '__name__', None)
                                      if a is not None else
                                      getattr(t.dispatchCommand(c), '__name__', None))))
    return out

class HasLog(object):
    def __init__(self):
        self.calls = []
    def exception(self, *args):
        self.calls.append(args)
def un_firewall():
    out = []
    class Base(log.Firewalled):
        __firewalled__ = {'a': None, 'b': lambda self, *args, **kw: ('handled', args, sorted(kw.items())),
                          'c': lambda self, x: 1 // 0}
        def a(self, x, y=2):
            "doc of a"
            return x // y
        def b(self, x, y=2):
            return x // y
        def c(self, x):
            return [][x]
        def d(self, x):
            return [][x]
    class Child(Base):
        __firewalled__ = ['d', 'e']
        def a(self, x, y=2):
            raise KeyError(x)
        def d(self, x):
            return {}[x]
        def e(self):
            raise SystemExit(3)
    class Other(log.Firewalled):
        __firewalled__ = {'f': lambda self: 'other'}
    class Multi(Child, Other):
        def f(self):
            raise ValueError('f')
        def b(self, x, y=2):
            raise Weird('not an Exception')
    class Logged(Base):
        def __init__(self):
            self.log = HasLog()
        def a(self, x, y=2):
            raise RuntimeError('own log')
        def c(self, x):
            raise RuntimeError('own log, failing handler')
    for (cls, name, args, kw) in [
            (Base, 'a', (7,), {}), (Base, 'a', (7,), {'y': 0}), (Base, 'a', ('x',), {}), (Base, 'a', (), {}),
            (Base, 'b', (7,), {'y': 0}), (Base, 'b', (7, 0), {}), (Base, 'b', (9, 3), {}),
            (Base, 'c', (0,), {}), (Base, 'd', (0,), {}),
            (Child, 'a', ('k',), {}), (Child, 'b', (1, 0), {}), (Child, 'c', (5,), {}), (Child, 'd', ('z',), {}),
            (Child, 'e', (), {}),
            (Multi, 'f', (), {}), (Multi, 'b', (1,), {}), (Multi, 'a', ('m',), {}), (Multi, 'd', (1,), {}),
            (Logged, 'a', (1,), {}), (Logged, 'c', (1,), {}), (Logged, 'b', (1, 0), {})]:
        for testing in (False, True):
            log.testing = testing
            o = cls()
            r = outcome(getattr(o, name), *args, **kw)
            log.testing = False
            out.append((cls.__name__, name, testing, r, getattr(getattr(o, 'log', None), 'calls', None),
                        getattr(cls, name).__name__, getattr(cls, name).__doc__))
    out.append(sorted((n, sorted(k for k in vars(c) if not k.startswith('__')))
                      for (n, c) in [('Base', Base), ('Child', Child), ('Multi', Multi)]))
    out.append(outcome(log.MetaFirewall.getErrorHandler, {'x': 5}, 'x'))
    out.append(outcome(log.MetaFirewall.getErrorHandler, ['x'], 'x'))
    d = {}
    out.append((outcome(log.MetaFirewall.updateFirewalled, d, {'p': 1, 'q': None}),
                outcome(log.MetaFirewall.updateFirewalled, d, ('q', 'r')), sorted(d.items())))
    # the formatters
    for fmt in (log.formatter, log.pluginFormatter, log._stdoutFormatter):
        for (colorized, exn) in [(False, ValueError('v')), (True, ValueError('v')), (False, KeyboardInterrupt()),
                                 (True, SystemExit(2)), (False, Weird('w'))]:
            conf.supybot.log.stdout.colorized.setValue(colorized)
            def fe():
                try:
                    raise exn
                except BaseException:
                    return norm(fmt.formatException(sys.exc_info()))
            out.append((type(fmt).__name__, colorized, outcome(fe)))
        conf.supybot.log.stdout.colorized.setValue(False)
    # ... and what they make of a record, at every level
    for fmt in (log.formatter, log.pluginFormatter, log._stdoutFormatter):
        for colorized in (False, True):
            conf.supybot.log.stdout.colorized.setValue(colorized)
            for level in (5, logging.DEBUG, logging.INFO, logging.WARNING, logging.ERROR,
                          logging.CRITICAL, 60):
                for exc in (None, 'yes'):
                    def ff():
                        ei = None
                        if exc:
                            try:
                                raise LookupError('in a record')
                            except LookupError:
                                ei = sys.exc_info()
                        r = logging.LogRecord('supybot', level, '/x/y.py', 12, 'text %s', ('arg',), ei)
                        r.created = 1700000000.25
                        return norm(fmt.format(r))
                    out.append((type(fmt).__name__, colorized, level, exc, outcome(ff)))
        conf.supybot.log.stdout.colorized.setValue(False)
    for fmtstr in ('', '%H:%M', '%Y-%m-%dT%H:%M:%S'):
        conf.supybot.log.timestampFormat.setValue(fmtstr)
        out.append((fmtstr, outcome(log.timestamp, 1700000000.75), outcome(log.timestamp, 0)))
    class Mine(Exception):
        pass
    log.deadlyExceptions.append(Mine)
    def fe2():
        try:
            raise Mine('deadly now')
        except Mine:
            return log.formatter.formatException(sys.exc_info())
    out.append(outcome(fe2))
    log.deadlyExceptions.remove(Mine)
    return out

class StubDriver(object):
    def __init__(self, name, script, irc='unset'):
        self._name = name
        self.script = script
        self.events = []
        if irc != 'unset':
            self.irc = irc
    def run(self):
        self.events.append('run')
        if self.script:
            x = self.script.pop(0)
            if isinstance(x, BaseException):
                raise x
            if callable(x):
                x()
    def die(self):
        self.events.append('die')
        drivers.remove(self._name)
class StubIrcHolder(object):
    driver = 'set'
def un_driver_loop():
    out = []
    def state():
        return (sorted(drivers._drivers), drivers.empty(), takelog())
    out.append(state())
    h1 = StubIrcHolder()
    a = StubDriver('a', [None, RuntimeError('a fails'), None], irc=h1)
    b = StubDriver('b', [None, None, Weird('b is weird'), None])
    c = StubDriver('c', [lambda: drivers.remove('c'), None], irc=None)
    d = StubDriver('d', [lambda: drivers.add('e', e), None, lambda: drivers.remove('nope'), SystemExit(1)])
    e = StubDriver('e', [None, lambda: drivers.add('e', e2)])
    e2 = StubDriver('e', [lambda: drivers.add('a', a)])
    for x in (a, b, c, d):
        drivers.add(x._name, x)
    out.append(state())
    for i in range(7):
        out.append(outcome(drivers.run))
        out.append((state(), [(x._name, x.events[:], getattr(x, 'irc', 'noattr')) for x in (a, b, c, d, e, e2)],
                    h1.driver))
    # a name that died can be used again
    a2 = StubDriver('a', [None, None, None], irc=h1)
    b2 = StubDriver('b', [None, lambda: drivers.remove('b'), None])
    drivers.add('a', a2)
    drivers.add('b', b2)
    for i in range(4):
        out.append(outcome(drivers.run))
        out.append((state(), [(x._name, x.events[:], getattr(x, 'irc', 'noattr')) for x in (a, a2, b, b2)],
                    h1.driver))
    srv = drivers.Server('h.example', 6697, None, False)
    L = drivers.log
    for f in [lambda: L.connect(srv),
              lambda: L.connectError(srv, socket.gaierror(-2, 'Name or service not known')),
              lambda: L.connectError(srv, socket.error(111, 'refused')),
              lambda: L.connectError(srv, 'Timed out'),
              lambda: L.disconnect(srv), lambda: L.disconnect(srv, None), lambda: L.disconnect(srv, ''),
              lambda: L.disconnect(srv, 'closed'), lambda: L.disconnect(srv, 'closed.'),
              lambda: L.disconnect(srv, socket.error(104, 'reset')), lambda: L.disconnect(srv, 17),
              lambda: L.disconnect(srv, 0), lambda: L.disconnect(srv, ()), lambda: L.disconnect(srv, Exception()),
              lambda: L.connectError(srv, Exception()), lambda: L.connectError(srv, None),
              lambda: L.reconnect('net'), lambda: L.reconnect('net', 1700000000.5),
              lambda: L.reconnect('net', 'noon'), lambda: L.reconnect('%s net', 0),
              lambda: L.die('irc object')]:
        out.append(outcome(f))
    for s in ['', ' ', '\r\n', 'PING x', '  PING x \r\n', ':', '@a', ':p C a :b ', '\x00', 'ÿ', ': C']:
        out.append((s, outcome(lambda: (lambda m: m and (m.prefix, m.command, m.args))(drivers.parseMsg(s)))))
    return out

def un_state():
    out = []
    q = irclib.IrcMsgQueue()
    msgs = [ircmsgs.privmsg('#c', 'one'), ircmsgs.mode('#c', '+o x'), ircmsgs.join('#a'), ircmsgs.join('#b'),
            ircmsgs.IrcMsg(command='FOO', args=('bar',)), ircmsgs.pong('x'), ircmsgs.privmsg('#c', 'one'),
            ircmsgs.ping('y'), ircmsgs.who('#c'), ircmsgs.kick('#c', 'x'), ircmsgs.IrcMsg(command='foo')]
    for dup in (False, True):
        conf.supybot.protocols.irc.queuing.duplicates.setValue(dup)
        conf.supybot.protocols.irc.queuing.rateLimit.join.setValue(10)
        q.reset()
        out.append([(q.enqueue(m), len(q), bool(q), m in q) for m in msgs])
        out.append((repr(q), takelog()))
        seq = []
        for i in range(16):
            CLOCK.now += 4
            m = q.dequeue()
            seq.append((m and str(m), len(q), bool(q)))
        out.append(seq)
    conf.supybot.protocols.irc.queuing.duplicates.setValue(False)
    q2 = irclib.IrcMsgQueue(msgs[:3])
    out.append((repr(q2), str(q2), len(q2)))
    # callbacks by name; a zombie refuses messages
    irc = irclib.Irc('test')
    for cb in (Boom(), Quiet()):
        irc.addCallback(cb)
    for n in ['boom', 'Boom', 'BOOM', 'quiet', 'nope', '']:
        out.append((n, outcome(lambda: (lambda cb: cb and cb.name())(irc.getCallback(n)))))
    out.append(outcome(irc.addCallback, Boom()))
    out.append([cb.name() for cb in irc.removeCallback('BOOM')])
    out.append(sorted(cb.name() for cb in irc.callbacks))
    m1 = ircmsgs.privmsg('#c', 'queued')
    out.append((outcome(irc.queueMsg, m1), outcome(irc.queueMsg, m1), outcome(irc.sendMsg, m1),
                repr(irc.queue), repr(irc.fastqueue)))
    irc.zombie = True
    out.append((outcome(irc.queueMsg, ircmsgs.privmsg('#c', 'late')), outcome(irc.sendMsg, m1),
                repr(irc.queue), repr(irc.fastqueue)))
    irc.zombie = False
    # ChannelState
    c = irclib.ChannelState()
    for u in ['@a', '+b', '%c', 'd', '~e', '&f', '!g', '@+h', '', '@', '+@%i', '@%+']:
        out.append((u, outcome(c.addUser, u), dump_channel(c)))
    for args in [('#c', '+ov', 'd', 'd'), ('#c', '-o+h-v', 'a', 'a', 'b'), ('#c', '+b-b+b', 'x', 'x', 'y'),
                 ('#c', '+eIq', '1', '2', '3'), ('#c', '+lk-l', '5', 'key'), ('#c', '+s-s+m'), ('#c', '-k', 'key'),
                 ('#c',), ('#c', ''), ('#c', '+'), ('#c', 'x'), ('#c', '+o'), ('#c', '*o', 'a'), ('#c', '+-+', 'a'),
                 ('#c', '+o-', 'zz'), ('#c', '+vvvv', 'p', 'q')]:
        m = ircmsgs.IrcMsg(prefix='n!u@h', command='MODE', args=args)
        out.append((args, outcome(c.doMode, m), dump_channel(c)))
    out.append((outcome(c.setMode, 'o'), outcome(c.setMode, 'l', '3'), outcome(c.unsetMode, 'l'),
                outcome(c.unsetMode, 'l'), outcome(c.unsetMode, 'b')))
    c.replaceUser('a', 'A2'); c.removeUser('d'); c.removeUser('nobody')
    out.append(dump_channel(c))
    c2 = irclib.ChannelState()
    c2.__setstate__(c.__getstate__())
    out.append((c == c2, c2 == irclib.ChannelState(), [c.isOp('h'), c.isVoice('h'), c.isHalfop('c'),
                c.isOpPlus('e'), c.isVoicePlus('c'), c.isHalfopPlus('e')]))
    # the 005 converters, through do005
    st = irclib.IrcState()
    for tok in ['PREFIX=(ov)@+', 'PREFIX=(ov)@', 'PREFIX=@+', 'PREFIX=', 'PREFIX=)(', 'PREFIX=(o)v)', 'PREFIX',
                'MAXLIST=b:1', 'MAXLIST=beI:50,q:10', 'MAXLIST=b', 'MAXLIST=b:x', 'MAXLIST=', 'MAXLIST=b:1:2,e:3',
                'MAXBANS=5', 'MAXBANS=b:5', 'MAXBANS=be:5,q:1', 'MAXBANS=e:5', 'MAXBANS=x', 'MAXBANS=b:x', 'MAXBANS=',
                'MAXBANS=b:1,e', 'MODES=', 'MODES=4', 'MODES=x', 'NICKLEN=9', 'nicklen=10', 'NICKLEN=', 'NICKLEN=1.5',
                'WATCH=128', 'FOO=bar=baz', 'FOO', '=x', '=', 'SILENCE=-1', 'CHANTYPES=#', 'chantypes']:
        m = ircmsgs.IrcMsg(prefix='srv', command='005', args=('bot', tok, 'are supported'))
        r = outcome(st.do005, None, m)
        out.append((tok, r, sorted(((k, dump_value(v)) for (k, v) in st.supported.items()), key=repr)))
    out.append(sorted(st._005converters.keys()))
    return out

class StubIrc(object):
    """Just enough of an Irc for SocketDriver."""
    network = 'test'
    zombie = False
    def __init__(self):
        self.out = []
        self.fed = []
        self.resets = 0
        self.driver = None
        self.on_take = None
    def takeMsg(self):
        if self.on_take:
            self.on_take()
        return self.out.pop(0) if self.out else None
    def feedMsg(self, msg):
        self.fed.append(str(msg))
    def reset(self):
        self.resets += 1
    def __str__(self):
        return 'StubIrc'
def un_socketdriver():
    out = []
    irc = StubIrc()
    d = S.SocketDriver(irc)
    def st():
        return (sorted(dump_driver(d, irc).items()), irc.fed[:], irc.resets,
                [(s.sent, s._closed, s.events) for s in NET.socks], takelog(), NET.calls[:], STIME.slept[:])
    out.append(st())
    out.append(outcome(drivers.run))
    out.append(outcome(d.name))
    s = NET.socks[-1]
    # takeMsg that reconnects in the middle of a flush
    irc.out = ['ONE\r\n', 'TWO \ud800\r\n', 'THREE\r\n', 'FOUR\r\n']
    count = [0]
    def on_take():
        count[0] += 1
        if count[0] == 3:
            d.reconnect()
    irc.on_take = on_take
    out.append(outcome(d._sendIfMsgs)); out.append(st())
    irc.on_take = None
    s = NET.socks[-1]
    # e.args[0] checks of _handleSocketError
    for e in [socket.error(11, 'again'), socket.error(11), socket.error('11'), socket.error(),
              None]:
        d.eagains = 5
        r = outcome(d._handleSocketError, e)
        out.append((repr(e), r, st()))
        if not d.connected:
            d.nextReconnectTime = None
            d.reconnect()
    d.eagains = 120
    out.append((outcome(d._handleSocketError, socket.error(11, 'again')), d.eagains, d.connected))
    out.append((outcome(d._handleSocketError, socket.error(11, 'again')), d.eagains, d.connected, st()))
    d.nextReconnectTime = None
    d.reconnect()
    # scheduleReconnect twice: the "this is a bug" message; delays double up to the maximum
    conf.supybot.drivers.maxReconnectWait.setValue(35)
    for i in range(5):
        out.append((outcome(d.scheduleReconnect), d.currentDelay, d.nextReconnectTime))
    out.append(st())
    d.nextReconnectTime = None
    # reconnect variants
    srv = drivers.Server('override.example', 7777, None, False)
    for kw in [dict(wait=True), dict(wait=True, server=srv), dict(), dict(reset=False), dict(server=srv),
               dict(server=drivers.Server('x.example', 1, 9, False))]:
        d.nextReconnectTime = None
        r = outcome(lambda: d.reconnect(**kw))
        out.append((sorted(kw), r, st()))
    # _read with a zombie irc / no irc
    s = NET.socks[-1]
    s.rx.append(b'PING :a\r\nPING :b\r\n')
    irc.zombie = True
    irc.out = ['NOT SENT\r\n']
    out.append(outcome(d._read)); out.append(st())
    irc.zombie = False
    out.append(outcome(d.run)); out.append(st())
    # dying with unsent data
    irc.out = ['LAST WORDS\r\n']
    s.send_script.extend([3, socket.error(11, 'again'), 2])
    out.append(outcome(d.die)); out.append(st())
    for i in range(4):
        out.append(outcome(d._sendIfMsgs)); out.append(st())
    out.append(outcome(drivers.run)); out.append(st())
    out.append(outcome(d.anyCertValidationEnabled))
    return out

SCENARIOS = [
    ('corpus after handshake', sc_corpus_after_handshake),
    ('corpus raw, strictRfc', sc_corpus_raw_strict),
    ('sasl', sc_sasl(False)),
    ('sasl required', sc_sasl(True)),
    ('sts', sc_sts),
    ('ping timeout, ERROR', sc_ping_timeout),
    ('socket errors', sc_socket_errors),
    ('die', sc_die),
    ('fatal: select error', sc_fatal('ebadf')),
    ('fatal: socket.error()', sc_fatal('noargs')),
    ('fatal: KeyboardInterrupt', sc_fatal('keyboard')),
    ('a None callback', sc_fatal('none-callback')),
    ('two networks', sc_two_networks),
    ('unit: IrcMsg', un_ircmsg),
    ('unit: decode_raw_line', un_decode),
    ('unit: dispatchCommand', un_dispatch),
    ('unit: firewall, formatters', un_firewall),
    ('unit: driver loop', un_driver_loop),
    ('unit: queue, ChannelState, 005', un_state),
    ('unit: SocketDriver', un_socketdriver),
]

def in_child(fn):
    (r, w) = os.pipe()
    pid = os.fork()
    if pid == 0:
        code = 0
        try:
            os.close(r)
            signal.alarm(100)
            takelog()
            try:
                data = re.sub(r'0x[0-9a-fA-F]+', '0x?', repr(fn()))
            except BaseException:
                data = 'CHILD FAILED: ' + norm(traceback.format_exc())
            data = data.encode('utf-8', 'backslashreplace')
            with os.fdopen(w, 'wb') as f:
                f.write(data)
        except BaseException:
            code = 3
        finally:
            os._exit(code)
    os.close(w)
    chunks = []
    with os.fdopen(r, 'rb') as f:
        while True:
            c = f.read(1 << 16)
            if not c:
                break
            chunks.append(c)
    (_, status) = os.waitpid(pid, 0)
    return (status, b''.join(chunks))

# recorded on the unmodified tree with `demo.py --record`
EXPECT = {
    'corpus after handshake': '37aac4c58a1ddfbda1dde6f1',   # 206466 bytes observed
    'corpus raw, strictRfc': 'a126856bc094f67cce541902',   # 288625 bytes observed
    'sasl': 'dcca9627b9eb63805f93de09',   # 28519 bytes observed
    'sasl required': '9dc1baf3d9e22e110b299106',   # 34036 bytes observed
    'sts': 'd0ed0585b9ade95f71cde040',   # 16588 bytes observed
    'ping timeout, ERROR': '032dc964c64a537d354ad7bf',   # 47411 bytes observed
    'socket errors': '11187f901636749c96a92890',   # 85343 bytes observed
    'die': '258811b5a14fb18e3718caf4',   # 17626 bytes observed
    'fatal: select error': 'da9852fc644bc900cf12bcbb',   # 13660 bytes observed
    'fatal: socket.error()': '8d1dc8517bd4e36bded2c69f',   # 13659 bytes observed
    'fatal: KeyboardInterrupt': '18d267c175d478758eb41a2a',   # 13920 bytes observed
    'a None callback': '092186e94794ecf0befea46c',   # 34883 bytes observed
    'two networks': 'a75b6f553582a528e903c92d',   # 25514 bytes observed
    'unit: IrcMsg': '361dcbdb770219a4a7974a0a',   # 1265201 bytes observed
    'unit: decode_raw_line': '6c727cacd74834c8cdba115f',   # 3902 bytes observed
    'unit: dispatchCommand': 'e531e66d340be88e8c3ab8f9',   # 16159 bytes observed
    'unit: firewall, formatters': '3c11baaf9bf820666ac84d7a',   # 22894 bytes observed
    'unit: driver loop': '3f5ac7903ad59faa70ac86cb',   # 6587 bytes observed
    'unit: queue, ChannelState, 005': '9dbff6723057655724a92018',   # 20460 bytes observed
    'unit: SocketDriver': '98d90d79ed80c9c35bd3a37b',   # 42851 bytes observed
}

def main():
    record = '--record' in sys.argv
    dump = None
    if '--dump' in sys.argv:
        dump = open(sys.argv[sys.argv.index('--dump') + 1], 'wb')
    problems = []
    for (name, fn) in SCENARIOS:
        (status, data) = in_child(fn)
        h = hashlib.sha256(data).hexdigest()[:24]
        if dump:
            dump.write(('=== %s %s\n' % (name, h)).encode())
            dump.write(data.replace(b'), (', b'),\n (') + b'\n')
        if status != 0 or data.startswith(b'CHILD FAILED') or not data:
            problems.append('%s: scenario did not complete (status %r): %s'
                            % (name, status, data[:2000].decode('utf-8', 'replace')))
        elif record:
            print('    %r: %r,   # %d bytes observed' % (name, h, len(data)))
        elif EXPECT.get(name) != h:
            problems.append('%s: observations differ from the unmodified tree '
                            '(%s != %s)' % (name, h, EXPECT.get(name)))
        if b'ESCAPED' in data and name != 'fatal: KeyboardInterrupt':
            # (KeyboardInterrupt is one of log.deadlyExceptions: it is meant to
            # get out.  Nothing else does, not even a fatal select() error,
            # which drivers.run() logs before dropping the driver.)
            problems.append('%s: an exception escaped drivers.run()' % name)
        if b"('PINGED', 'test', False" in data or b"('PINGED', 'other', False" in data:
            problems.append('%s: a PING was not answered' % name)
    if dump:
        dump.close()
    if problems:
        print('FAIL')
        for p in problems:
            print(' -', p)
        return 1
    print('PASS' if not record else 'recorded')
    return 0

if __name__ == '__main__':
    code = 2
    try:
        code = main()
    except BaseException:
        traceback.print_exc()
    finally:
        sys.stdout.flush()
        os._exit(code)
