#!/usr/bin/env python
# -*- coding: utf-8 -*-
"""Equivalence demo for a behaviour-preserving refactor of the command
tokenizer (src/shlex.py, src/callbacks.py Tokenizer/tokenize, utils.str.dqrepr,
conf.ValidQuotes).

Every observable result of the sections below is folded into a sha256 digest
which is compared with the digest recorded on the unmodified tree (EXPECTED).
Run as:  cd <worktree> && python _mutants/c<i>/demo.py          (compare)
         cd <worktree> && python _mutants/c<i>/demo.py --record (print digests)
"""
import os
import sys

ROOT = os.path.dirname(os.path.dirname(os.path.dirname(os.path.abspath(__file__))))
sys.path.insert(0, ROOT)
os.chdir(ROOT)

import io
import time
import random
import shutil
import hashlib
import inspect
import logging
import tempfile
import threading
import contextlib

EXPECTED = {
    'A-lexer': (10309, '4f7adad2cd8d0bb0309a49657b8f0b2ab006e5e6f5c4701b4521ac9637d6adf6'),
    'B-Tokenizer': (55429, '1df686c5ce1b07f66b06b174ae0c14d38c74752d70d5a0fc972cbaec2ec4b0c4'),
    'C-tokenize': (15090, '147141c1d94f9abb13947b2394771738f62ae1377d02968518c0d5185f7f543a'),
    'D-quoting': (3404, 'db9676aa755084b561ea59d9adcb431792f17c35d3fef896d3dc55af6c74f068'),
    'E-conf': (50, '26cd12f1f87c79ed8f3a04746a6e9ff6292053795062ecdd62e919af671a20a6'),
    'F-bot': (150, 'f64b14b23fc82f3adc0ca1f5dc9c68e4f554ff6c58cfa9de215ebbdd8bf710a4'),
    'G-surface': (22, '36a4b9e9741dfe3a87313416e911ae32a77409cd2d5ecb62e99e1086ba8ba871'),
}

TMP = tempfile.mkdtemp(prefix='c13ctl_')


def finish(code):
    sys.stdout.flush()
    sys.stderr.flush()
    try:
        shutil.rmtree(TMP, ignore_errors=True)
    finally:
        os._exit(code)


def watchdog():
    time.sleep(110)
    print('FAIL: watchdog timeout')
    finish(3)

threading.Thread(target=watchdog, daemon=True).start()

###
# Bootstrap (like scripts/supybot-test): the registry file before supybot.conf.
###
for d in ('data', 'conf', 'logs', 'backup', 'tmp', 'web'):
    os.mkdir(os.path.join(TMP, d))
registryFilename = os.path.join(TMP, 'conf', 'demo.conf')
with open(registryFilename, 'w') as fd:
    fd.write("""
supybot.directories.data: %(d)s/data
supybot.directories.conf: %(d)s/conf
supybot.directories.log: %(d)s/logs
supybot.directories.backup: %(d)s/backup
supybot.directories.data.tmp: %(d)s/tmp
supybot.directories.data.web: %(d)s/web
supybot.reply.whenNotCommand: True
supybot.log.stdout: False
supybot.log.stdout.level: ERROR
supybot.log.level: DEBUG
supybot.log.format: %%(levelname)s %%(message)s
supybot.log.plugins.individualLogfiles: False
supybot.protocols.irc.throttleTime: 0
supybot.reply.whenAddressedBy.chars: @
supybot.networks.test.server: should.not.need.this
supybot.networks.test.ssl: False
supybot.nick: test
supybot.abuse.flood.command: False
supybot.abuse.flood.command.invalid: False
supybot.databases.users.allowUnregistration: True
""" % {'d': TMP})

import supybot.registry as registry
registry.open_registry(registryFilename)
import supybot.log as log
import supybot.conf as conf
conf.allowEval = True
conf.supybot.flush.setValue(False)
import supybot.utils as utils
import supybot.world as world
import supybot.shlex as shlex
import supybot.ircdb as ircdb
import supybot.irclib as irclib
import supybot.ircmsgs as ircmsgs
import supybot.plugin as plugin
import supybot.callbacks as callbacks
from supybot.utils import minisix

###
# Digest plumbing.
###
DIGESTS = {}
DUMP = os.environ.get('C13_DUMP')  # optional: file receiving every item
COUNTS = {}


class Section(object):
    def __init__(self, name):
        self.name = name
        self.h = hashlib.sha256()
        self.n = 0

    def add(self, *items):
        self.h.update(repr(items).encode('utf8', 'backslashreplace'))
        self.h.update(b'\n')
        self.n += 1
        if DUMP:
            with open(DUMP, 'ab') as fd:
                fd.write(('%s %r\n' % (self.name, items))
                         .encode('utf8', 'backslashreplace'))

    def close(self):
        DIGESTS[self.name] = self.h.hexdigest()
        COUNTS[self.name] = self.n


def describeExc(e):
    ctx = e.__context__
    cause = e.__cause__
    return ('EXC', type(e).__name__, str(e), repr(getattr(e, 'args', None)),
            type(ctx).__name__ if ctx is not None else None,
            str(ctx) if ctx is not None else None,
            type(cause).__name__ if cause is not None else None)


def label(v):
    return 'an iterator' if hasattr(v, '__next__') else repr(v)


def outcome(f, *args, **kwargs):
    try:
        return ('OK', f(*args, **kwargs))
    except BaseException as e:
        if isinstance(e, (KeyboardInterrupt, SystemExit)):
            raise
        return describeExc(e)

###
# Corpus.
###
HAND = [
    '', ' ', '  ', '\t', 'foo', 'foo bar', ' foo  bar ', 'foo\tbar', "it's",
    '""', '"', '"foo', 'foo"', 'foo"bar', 'foo"bar"', '"foo"bar', '"foo" bar',
    '"foo bar"', 'foo "" bar', 'foo "bar baz" quux', '"\\""', '"\\\\"',
    '"\\"foo\\""', '"\\', '"\\"', '"\\\\', '"a\\', '\\', '\\\\', 'a\\b',
    '\\"', '"\\n"', '"\\t\\r\\0"', '"\\x41"', '"\\x80"', '"\\xe9"',
    '"\\xc3\\xa9"', '"\\xff\\xfe"', '"\\x4"', '"\\x"', '"\\u00e9"', '"\\u597d"',
    '"\\ud800"', '"\\udfff"', '"\\ud83d\\ude00"', '"\\U0001f600"',
    '"\\U00110000"', '"\\u12"', '"\\N{BULLET}"', '"\\N{NO SUCH NAME}"',
    '"\\N{"', '"\\N"', '"\\777"', '"\\400"', '"\\8"', '"\\1"', '"\\q"',
    '"\\\n"', u'"好"', u'好', u'"\xe9"', u'\xe9t\xe9', u'"\U0001f600"',
    u'\U0001f600 \U0001f601', u'"\x80"', u'"\xff"', u'"Ā\\x41"',
    u'"\udc80"', u'\udc80', u'"\ud800"', u'"\\" 好 \\\\"',
    '[]', '[foo]', '[ foo ]', 'foo [bar]', 'foo bar [baz quux]', '[foo',
    'foo]', ']', '[', '[[', ']]', '[[]]', '[[foo] bar]', '[foo [bar [baz]]]',
    '[foo][bar]', 'foo[bar]baz', '"[foo]"', '"[" foo "]"', '["]"]', '[" ]',
    '[foo "bar]" baz]', '[]]', '[[]', 'a [b] c [d [e] f] g', '[""]', '[ ]',
    '<>', '<foo>', 'foo <bar>', '<foo', 'foo>', '<<a> b>', '"<foo>"', '<[a]>',
    '{}', '{foo}', 'foo {bar}', '{foo', 'foo}', '{{a} b}', '"{foo}"',
    '()', '(foo)', 'foo (bar)', '(foo', 'foo)', '((a) b)', '"(foo)"', '(a [b)]',
    '|', '||', '| foo', 'foo |', 'foo|bar', 'foo | bar', 'foo ||bar',
    'foo | bar | baz', 'foo bar | baz', 'foo | bar baz', 'foo bar | baz quux',
    'a | b | c | d', 'a|b|c|d|e', 'a b | c d | e f | g h', '"|"', 'foo "|" bar',
    '"a|b"', 'a "|" | b', '[a | b]', '[a|b] | c', 'a | [b | c]', 'a | [b',
    'a | b]', '[|]', '[a |]', '[| a]', 'a |[b]', '"a" | "b"', 'a | "',
    "'foo bar'", "'foo", "foo'", "'[foo]'", "'a|b'", "'\\''", "'\\x41'",
    '"a\'b"', "'a\"b'", '\'a\' "b" `c`', '`foo bar`', '`foo', '`\\``', '`[a]`',
    '"a"\'b\'', '"a" \'b', "''", '``', '"\'', '\'"', '`"\'', 'a`b', "a'b c'd",
    'foo#bar', '#foo', 'foo # bar', '"#"', 'foo\x00bar', '\x00', '"\x00"',
    'foo\rbar', 'foo\nbar', '"foo\nbar"', 'a\n#b\nc', 'a\r\nb', '\n', '\n\n"',
    '\x01\x02\x03', '\x7f', '\x1b[0m', u'\xa0', u'a\xa0b', u' ', u'a　b',
    u'﻿', u'￾', 'x' * 300, '[' * 40 + ']' * 40, '[' * 41 + ']' * 40,
    '[' * 40 + ']' * 41, '"' + '\\\\' * 50 + '"', '"' + '\\' * 51 + '"',
    ' '.join(['"a b"'] * 30), 'a | ' * 20 + 'b', 'source foo', 'source',
    'echo "foo', 'echo [echo "a b"] | echo [c]', '@echo "好"',
]


def randomCorpus(seed, n):
    r = random.Random(seed)
    alphabets = [
        list('[]<>{}()|"\'` \\ab'),
        list('[]|" \\nx41u0e9') + [u'\xe9', u'好'],
        list('"\\\\"" ab[]'),
        list('[] a'),
        list('| ab"'),
        list('\\xuUN{}0123456789abcdef"') + [' '],
        list('"\'`\\ #\t\x00\r\n[]|a') + [u'\U0001f600', u'\udc80', u'\x80',
                                         u'\xff', u'Ā'],
    ]
    out = []
    for i in range(n):
        alpha = alphabets[i % len(alphabets)]
        length = r.randrange(0, 24)
        out.append(u''.join(r.choice(alpha) for _ in range(length)))
    return out

CORPUS = HAND + randomCorpus(1313, 900)
SMALL = HAND + randomCorpus(77, 150)

###
# A. The lexer alone, with every public attribute observed after each step.
###
def lexerState(lexer):
    return (lexer.state, lexer.token, lexer.backslash, tuple(lexer.pushback),
            lexer.lineno, lexer.infile, len(lexer.filestack),
            lexer.commenters, lexer.whitespace, lexer.separators, lexer.quotes,
            lexer.source, lexer.debug)


def drain(lexer, limit=400, afterError=4, pushAt=None):
    events = []
    errors = 0
    for i in range(limit):
        if pushAt is not None and i in pushAt:
            lexer.push_token(pushAt[i])
            events.append(('push', lexerState(lexer)))
        r = outcome(lexer.get_token)
        events.append((r, lexerState(lexer)))
        if r[0] == 'EXC':
            errors += 1
            if errors > afterError:
                break
        elif r[1] == '':
            # Two more reads past the end of file.
            events.append((outcome(lexer.get_token), lexerState(lexer)))
            events.append((outcome(lexer.read_token), lexerState(lexer)))
            break
    return events


def configuredLexer(s, kind):
    lexer = shlex.shlex(minisix.io.StringIO(s), 'in-%s' % kind[0])
    if kind[0] == 'default':
        pass
    elif kind[0] == 'tok':
        lexer.commenters = ''
        lexer.quotes = kind[2]
        lexer.separators = '\x00\r\n \t' + kind[1] + kind[2]
    elif kind[0] == 'moobot':
        lexer.commenters = ''
        lexer.quotes = ''
        lexer.whitespace = ''
        lexer.separators += '|()'
    elif kind[0] == 'odd':
        lexer.commenters = '#;'
        lexer.quotes = '"`'
        lexer.whitespace = ' ,'
        lexer.separators = ' ,[]"`'
    return lexer


def sectionLexer():
    sec = Section('A-lexer')
    kinds = [('default',), ('tok', '', '"'), ('tok', '[]|', '"'),
             ('tok', '<>', '"\''), ('tok', '()|', '"`\''), ('tok', '{}', ''),
             ('moobot',), ('odd',)]
    for kind in kinds:
        for s in CORPUS:
            sec.add(kind, s, drain(configuredLexer(s, kind)))
    # push_token in the middle of a stream, and before anything was read.
    for s in SMALL:
        lexer = configuredLexer(s, ('tok', '[]|', '"'))
        sec.add('push', s, drain(lexer, pushAt={0: 'first', 2: '"pushed"',
                                                3: '', 5: '['}))
    # Debug output is part of what the module does.
    for level in (1, 2, 3):
        for s in SMALL[::3]:
            for kind in (('default',), ('tok', '[]|', '"'), ('moobot',)):
                lexer = configuredLexer(s, kind)
                lexer.debug = level
                buf = io.StringIO()
                with contextlib.redirect_stdout(buf):
                    ev = drain(lexer, pushAt={1: 'p'})
                sec.add('debug', level, kind, s, ev, buf.getvalue())
    # Inclusions: push_source / pop_source / sourcehook / error_leader.
    incdir = os.path.join(TMP, 'inc')
    os.mkdir(incdir)
    with open(os.path.join(incdir, 'one.txt'), 'w') as fd:
        fd.write('alpha "beta gamma" source "two.txt" delta\n# comment\nlast')
    with open(os.path.join(incdir, 'two.txt'), 'w') as fd:
        fd.write('x [y] \'z z\'\n')
    for text in ('a source one.txt b', 'source "one.txt"', 'a source',
                 'source missing.txt b', 'source one.txt source two.txt c'):
        lexer = shlex.shlex(minisix.io.StringIO(text),
                            os.path.join(incdir, 'main.txt'))
        lexer.source = 'source'
        events = []
        for i in range(40):
            r = outcome(lexer.get_token)
            st = lexerState(lexer)
            st = st[:5] + (os.path.basename(st[5] or ''),) + st[6:]
            leader = lexer.error_leader().replace(incdir, '<inc>')
            if r[0] == 'EXC':
                r = r[:2] + (r[2].replace(incdir, '<inc>'),)
            events.append((r, st, leader))
            if r[0] == 'EXC' or r[1] == '':
                break
        sec.add('source', text, events)
    lexer = shlex.shlex(minisix.io.StringIO('a b'), 'f')
    sec.add(lexer.error_leader(), lexer.error_leader('g', 7),
            lexer.error_leader(lineno=3))
    # No instream: stdin is used.
    lexer = shlex.shlex()
    sec.add(lexer.instream is sys.stdin, lexer.infile, lexerState(lexer)[:5])
    sec.close()

###
# B. The Tokenizer class.
###
def sectionTokenizer():
    sec = Section('B-Tokenizer')
    classSeparators = callbacks.Tokenizer.separators
    for brackets in ('', '[]', '<>', '{}', '()'):
        for pipe in (False, True):
            for quotes in ('"', "'", '"\'', '"`\'', ''):
                t = callbacks.Tokenizer(brackets=brackets, pipe=pipe,
                                        quotes=quotes)
                sec.add('attrs', sorted(vars(t).items()))
                corpus = CORPUS if quotes in ('"', '"`\'') else SMALL
                for s in corpus:
                    sec.add(brackets, pipe, quotes, s, outcome(t.tokenize, s))
                # The same object is reusable and unchanged.
                sec.add('attrs-after', sorted(vars(t).items()))
    # Every string of up to five characters over the special characters.
    import itertools
    t = callbacks.Tokenizer('[]', True, '"')
    t2 = callbacks.Tokenizer('<>', False, '"\'')
    for n in range(0, 6):
        for chars in itertools.product('[]|"\\ a', repeat=n):
            s = ''.join(chars)
            sec.add('exhaustive', s, outcome(t.tokenize, s))
            if n < 5:
                s2 = s.replace('[', '<').replace(']', '>').replace('|', "'")
                sec.add('exhaustive2', s2, outcome(t2.tokenize, s2))
    sec.add('class', callbacks.Tokenizer.separators == classSeparators,
            callbacks.Tokenizer.separators)
    # Defaults, positional arguments, odd arguments.
    t = callbacks.Tokenizer()
    sec.add('default', sorted(vars(t).items()),
            [outcome(t.tokenize, s) for s in SMALL])
    t = callbacks.Tokenizer('[]', True, '"')
    sec.add('positional', sorted(vars(t).items()))
    t = callbacks.Tokenizer('[]', 1, '"')
    sec.add('pipe=1', sorted(vars(t).items()),
            [outcome(t.tokenize, s) for s in SMALL[::2]])
    t = callbacks.Tokenizer('[]', 0, '"')
    sec.add('pipe=0', sorted(vars(t).items()),
            [outcome(t.tokenize, s) for s in SMALL[::2]])
    t = callbacks.Tokenizer('[]x', False, '"')
    sec.add('three', sorted(vars(t).items()),
            [outcome(t.tokenize, s) for s in ('a[b]xc', 'x', '[x]', 'axb')])
    for bad in (dict(brackets='['), dict(brackets=['[', ']']),
                dict(brackets=('[', ']')), dict(quotes=None),
                dict(brackets=None), dict(brackets=0), dict(quotes=['"']),
                dict(brackets='[]', pipe=True, quotes=5)):
        def make():
            t = callbacks.Tokenizer(**bad)
            return sorted(vars(t).items())
        sec.add('bad', sorted(bad.items(), key=repr), outcome(make))
    sec.add('class-after', callbacks.Tokenizer.separators)
    # Non-string inputs to tokenize.
    t = callbacks.Tokenizer('[]', True, '"')
    for bad in (None, b'foo [bar]', 5, ['a']):
        sec.add('badinput', repr(bad), outcome(t.tokenize, bad))

    # A subclass with its own separators.
    class Sub(callbacks.Tokenizer):
        separators = ' ,'
    t = Sub('[]', True, '"')
    sec.add('sub', sorted(vars(t).items()), Sub.separators,
            [outcome(t.tokenize, s) for s in ('a,b [c,d]|e', 'a\tb', '"a,b",c')])
    sec.close()

###
# C. callbacks.tokenize under the configuration.
###
def sectionConfigured():
    sec = Section('C-tokenize')
    nested = conf.supybot.commands.nested
    quotes = conf.supybot.commands.quotes
    conf.registerNetwork('test')

    def probe(tag):
        for (channel, network) in ((None, None), ('#chan', 'test'),
                                   ('#chan', None), (None, 'test'),
                                   ('#other', 'test'), ('#CHAN', 'test'),
                                   ('#chan', 'othernet')):
            for s in SMALL:
                sec.add(tag, channel, network, s,
                        outcome(callbacks.tokenize, s, channel=channel,
                                network=network))
        sec.add(tag, 'positional',
                outcome(callbacks.tokenize, 'a [b] | c', '#chan', 'test'))
        for (channel, network) in (('notachannel', None), ('#chan', 'no net'),
                                   ('#a b', 'test'), ('', ''), (5, None)):
            sec.add(tag, 'badtarget', repr(channel), repr(network),
                    outcome(callbacks.tokenize, 'a [b] | "c', channel=channel,
                            network=network))
        for bad in (None, b'foo', 5):
            sec.add(tag, 'badinput', repr(bad), outcome(callbacks.tokenize, bad))

    probe('defaults')
    nested.brackets.get(':test').get('#chan').setValue('<>')
    nested.pipeSyntax.get(':test').get('#chan').setValue(True)
    quotes.get(':test').get('#chan').setValue('"\'')
    probe('chan')
    nested.pipeSyntax.setValue(True)
    nested.brackets.setValue('{}')
    quotes.setValue('`"')
    nested.brackets.get(':test').setValue('()')
    probe('global')
    nested.setValue(False)
    probe('no-nesting')
    nested.setValue(True)
    nested.brackets.get(':test').get('#chan').setValue('')
    quotes.get(':test').get('#chan').setValue('')
    probe('empty')
    # Back to the defaults for the following sections.
    for (value, default) in ((nested.pipeSyntax, False), (nested.brackets, '[]'),
                             (quotes, '"')):
        value.setValue(default)
        value.get(':test').setValue(default)
        value.get(':test').get('#chan').setValue(default)
    probe('restored')
    sec.close()

###
# D. dqrepr / quoted, and the round trip through the tokenizer.
###
def sectionQuoting():
    sec = Section('D-quoting')
    dqrepr = utils.str.dqrepr
    for i in list(range(0x300)) + [0x2028, 0xd7ff, 0xd800, 0xdc80, 0xdfff,
                                   0xe000, 0xfffd, 0xffff, 0x10000, 0x1f600,
                                   0x10ffff]:
        c = minisix.chr(i) if hasattr(minisix, 'chr') else chr(i)
        sec.add(i, dqrepr(c), utils.str.quoted(c),
                outcome(callbacks.tokenize, dqrepr(c)))
    r = random.Random(4242)
    pools = [
        list('[]<>{}()|"\'`\\ abn0x'),
        [chr(i) for i in range(1, 0x100) if i not in (10, 13)],
        [u'好', u'\xe9', u'\U0001f600', u'Ā', '"', '\\', ' ', '|',
         '[', ']', u'\x80', u'\xff', u'\xc3', u'\xa9'],
    ]
    t = callbacks.Tokenizer('[]', True, '"')
    for i in range(1500):
        pool = pools[i % len(pools)]
        args = [u''.join(r.choice(pool) for _ in range(r.randrange(0, 9)))
                for _ in range(r.randrange(0, 5))]
        text = ' '.join(map(dqrepr, args))
        sec.add(args, text, outcome(callbacks.tokenize, text),
                outcome(t.tokenize, text),
                outcome(callbacks.tokenize, '[%s]' % text),
                outcome(callbacks.tokenize, ' '.join(map(utils.str.quoted, args))))
    for s in CORPUS:
        sec.add(s, outcome(dqrepr, s), outcome(utils.str.quoted, s),
                outcome(lambda: callbacks.tokenize(dqrepr(s))))
    for bad in (None, 5, b'abc', b'', ['a', '"', u'\xe9'], ['ab'], ('a', 'b'),
                [1], [], {'a': 1}, [b'a'], [b'\xe9'], ['a', b'\xe9'],
                [u'\xe9', 5], ['ab', 5], iter('a"b')):
        sec.add('bad', label(bad), outcome(dqrepr, bad),
                None if hasattr(bad, '__next__')
                else outcome(utils.str.quoted, bad))

    class S(str):
        pass
    sec.add('subclass', dqrepr(S('a"b\\c\n')), type(dqrepr(S('x'))).__name__)
    sec.close()

###
# E. The configuration variables themselves.
###
def sectionConf():
    sec = Section('E-conf')
    q = conf.supybot.commands.quotes
    b = conf.supybot.commands.nested.brackets
    for v in ('"', "'", '`', '"\'`', '', '""', 'a', '" ', '"a', '[', u'\xab',
              None, 5, ['"'], ['"', 'x'], ('`',), b'"', ['x', 5], ['"', 5],
              [5, 'x'], iter('"x')):
        sec.add('quotes.setValue', label(v), outcome(q.setValue, v),
                outcome(q), outcome(str, q))
    for v in ('"', "'", '`"', '', 'a"', ' ', '"  ', ' " '):
        sec.add('quotes.set', repr(v), outcome(q.set, v), outcome(q),
                outcome(str, q))
    q.setValue('"')
    for v in ('[]', '<>', '{}', '()', '', '[', '][', '[]]', 'ab', None, 5):
        sec.add('brackets.setValue', repr(v), outcome(b.setValue, v),
                outcome(b), outcome(str, b))
    for v in ('[]', '<>', ' ', '', '()', '( )', 'x'):
        sec.add('brackets.set', repr(v), outcome(b.set, v), outcome(b))
    b.setValue('[]')
    sec.add(conf.ValidQuotes.__doc__, conf.ValidQuotes.__slots__,
            conf.ValidBrackets.validStrings, q._default, b._default,
            q.help(), b.help())
    v = conf.ValidQuotes('`', 'help')
    sec.add(str(v), v(), outcome(v.setValue, 'x'), v())
    sec.add(outcome(conf.ValidQuotes, 'x', 'help'))
    sec.close()

###
# F. End to end: a syntax error is reported to the user (or logged).
###
class Recorder(logging.Handler):
    def __init__(self):
        logging.Handler.__init__(self)
        self.records = []

    def emit(self, record):
        self.records.append((record.levelname, record.msg,
                             tuple(map(str, record.args or ()))))


def sectionBot():
    sec = Section('F-bot')
    for irc in world.ircs[:]:
        irc._reallyDie()
    conf.supybot.reply.error.detailed.setValue(True)
    ircdb.users.reload()
    ircdb.ignores.reload()
    ircdb.channels.reload()
    irc = irclib.Irc('test')
    while irc.takeMsg() is not None:
        pass
    for name in ('Misc', 'Owner', 'Config', 'Utilities'):
        module = plugin.loadPluginModule(name)
        plugin.loadPluginClass(irc, module)
    irc.feedMsg(ircmsgs.IrcMsg(':server 001 test :Welcome'))
    irc.feedMsg(ircmsgs.IrcMsg(':test!bot@host JOIN #chan'))
    while irc.takeMsg() is not None:
        pass
    recorder = Recorder()
    log._logger.addHandler(recorder)
    prefix = 'nick!user@host.domain.tld'
    queries = [
        '@echo foo', '@echo "foo bar"  baz', '@echo "foo', '@echo [echo foo',
        '@echo foo]', '@echo [echo "a b"] c', '@echo "[echo a]" | b',
        '@echo "\\ud800"', '@echo "\\N{NOPE}"', u'@echo "好" 好',
        '@echo "\\x80" "\\xc3\\xa9"', '@echo "a\\"b\\\\"', '@echo <echo a>',
        '@echo a | echo b', '@| echo', '@echo a |', '@echo \'a b\'',
        '@echo "\\U00110000"', '@"', '@[]', '@[', '@]', '@echo []',
        '@echo [echo [echo [echo "]"]]]', '@echo "a]" ]',
    ]

    def run(tag, target):
        for q in queries:
            del recorder.records[:]
            irc.feedMsg(ircmsgs.privmsg(target, q, prefix=prefix))
            # Commands that are not threaded run inside feedMsg.
            replies = []
            while True:
                m = irc.takeMsg()
                if m is None:
                    break
                replies.append((m.command, m.args))
            logs = [r for r in recorder.records
                    if r[0] in ('WARNING', 'ERROR', 'CRITICAL')
                    or 'Syntax error' in r[1]]
            sec.add(tag, target, q, replies, logs)

    run('detailed', '#chan')
    run('detailed', 'test')
    conf.supybot.reply.error.detailed.setValue(False)
    run('terse', '#chan')
    conf.supybot.reply.error.detailed.setValue(True)
    nested = conf.supybot.commands.nested
    nested.brackets.get(':test').get('#chan').setValue('<>')
    nested.pipeSyntax.get(':test').get('#chan').setValue(True)
    conf.supybot.commands.quotes.get(':test').get('#chan').setValue('\'"')
    run('chan-config', '#chan')
    run('chan-config-private', 'test')
    nested.setValue(False)
    run('no-nesting', '#chan')
    nested.setValue(True)
    nested.brackets.get(':test').get('#chan').setValue('[]')
    nested.pipeSyntax.get(':test').get('#chan').setValue(False)
    conf.supybot.commands.quotes.get(':test').get('#chan').setValue('"')
    log._logger.removeHandler(recorder)
    sec.close()

###
# G. Public surface: names and signatures other modules rely on.
###
def publicNames(obj):
    return sorted(n for n in dir(obj) if not n.startswith('_'))


def signatures(obj):
    out = []
    for n in publicNames(obj):
        f = getattr(obj, n)
        if inspect.isfunction(f) or inspect.ismethod(f):
            out.append((n, str(inspect.signature(f)), f.__doc__))
    return out


def sectionSurface():
    sec = Section('G-surface')
    sec.add(publicNames(shlex), shlex.__all__, publicNames(shlex.shlex),
            signatures(shlex.shlex), shlex.shlex.__doc__)
    sec.add(sorted(vars(shlex.shlex(minisix.io.StringIO('a'))).keys()))
    sec.add(publicNames(callbacks.Tokenizer), signatures(callbacks.Tokenizer),
            str(inspect.signature(callbacks.Tokenizer)),
            str(inspect.signature(callbacks.tokenize)),
            callbacks.tokenize.__doc__, callbacks.Tokenizer.__doc__)
    sec.add(publicNames(callbacks))
    sec.add(publicNames(utils.str), str(inspect.signature(utils.str.dqrepr)),
            utils.str.dqrepr.__doc__, str(inspect.signature(utils.str.quoted)),
            utils.str.quoted.__doc__)
    sec.add(publicNames(conf), publicNames(conf.ValidQuotes),
            publicNames(conf.ValidBrackets),
            [c.__name__ for c in conf.ValidQuotes.__mro__],
            str(inspect.signature(conf.ValidQuotes.setValue)),
            str(inspect.signature(conf.get)))
    # The MoobotFactoids plugin drives supybot.shlex with its own settings.
    module = plugin.loadPluginModule('MoobotFactoids')
    pick = sys.modules[module.__name__ + '.plugin'].pickOptions
    state = random.getstate()
    for s in ('(a|a)', '(a', 'a)', 'x (b|b|b) y', '((c|c)|(c|c))', '"(d|d)"',
              'no options', '(|)', '()', '(e) | f', "it's (g|g)", '#(h|h)',
              ' (i|i)\t', '(j|j', '((k|k)', ''):
        random.seed(5)
        sec.add('moobot', s, outcome(pick, s))
    random.setstate(state)
    sec.close()


def main():
    record = '--record' in sys.argv
    sections = [sectionLexer, sectionTokenizer, sectionConfigured,
                sectionQuoting, sectionConf, sectionBot, sectionSurface]
    for f in sections:
        started = time.time()
        f()
        if record or '--verbose' in sys.argv:
            sys.stderr.write('%s: %.1fs\n' % (f.__name__, time.time() - started))
    if record:
        print('EXPECTED = {')
        for name in sorted(DIGESTS):
            print('    %r: (%d, %r),' % (name, COUNTS[name], DIGESTS[name]))
        print('}')
        return 0
    bad = []
    for name in sorted(set(DIGESTS) | set(EXPECTED)):
        got = (COUNTS.get(name), DIGESTS.get(name))
        if EXPECTED.get(name) != got:
            bad.append((name, EXPECTED.get(name), got))
    if bad or not EXPECTED:
        for (name, want, got) in bad:
            print('MISMATCH %s: expected %r, got %r' % (name, want, got))
        print('FAIL')
        return 1
    print('sections: %s' % ', '.join('%s(%d)' % (n, COUNTS[n])
                                    for n in sorted(COUNTS)))
    print('PASS')
    return 0


if __name__ == '__main__':
    try:
        code = main()
    except BaseException:
        import traceback
        traceback.print_exc()
        print('FAIL')
        code = 2
    finish(code)
