import os, sys, tempfile, shutil, socket, collections, traceback
sys.path.insert(0, os.getcwd())           # cwd = the worktree: supybot -> src
_scratch = tempfile.mkdtemp(prefix='c11demo')
_reg = os.path.join(_scratch, 'demo.conf')
with open(_reg, 'w') as fd:
    fd.write('supybot.directories.data: %(d)s/data\n'
             'supybot.directories.conf: %(d)s/conf\n'
             'supybot.directories.log: %(d)s/logs\n'
             'supybot.log.stdout: False\n'
             'supybot.log.level: CRITICAL\n'
             'supybot.nick: test\n' % {'d': _scratch})
import supybot.registry as registry
registry.open_registry(_reg)
import supybot.log as log
import supybot.conf as conf
import logging
logging.disable(logging.CRITICAL)
import supybot.utils as utils
import supybot.world as world
import supybot.ircmsgs as ircmsgs
import supybot.drivers as drivers
import supybot.drivers.Socket as S


class FakeSock(object):
    """A scripted socket.  send_script: ints (accept at most that many bytes)
    or 'EAGAIN'; when exhausted every send is complete.  recv_script: bytes
    (returned as such, must fit the size asked), 'EAGAIN', 'TIMEOUT', b''
    (EOF); when exhausted recv times out."""
    def __init__(self):
        self.sent = bytearray()
        self.send_script = collections.deque()
        self.recv_script = collections.deque()
        self._closed = False
    def send(self, data):
        data = bytes(data)
        k = self.send_script.popleft() if self.send_script else len(data)
        if k == 'EAGAIN':
            raise socket.error(11, 'Resource temporarily unavailable')
        k = min(k, len(data))
        self.sent += data[:k]
        return k
    def recv(self, n):
        if not self.recv_script:
            raise socket.timeout('timed out')
        item = self.recv_script[0]
        if item == 'EAGAIN':
            self.recv_script.popleft()
            raise socket.error(11, 'Resource temporarily unavailable')
        if item == 'TIMEOUT':
            self.recv_script.popleft()
            raise socket.timeout('timed out')
        if len(item) > n:                   # like the OS: give n bytes now
            self.recv_script[0] = item[n:]
            return item[:n]
        self.recv_script.popleft()
        return item
    def readable(self):
        return bool(self.recv_script)
    def settimeout(self, t): pass
    def connect(self, addr): pass
    def shutdown(self, how): pass
    def close(self): self._closed = True
    def fileno(self): return 7


class StubIrc(object):
    """Stands for irclib.Irc: a queue of outgoing messages, a record of what
    was fed."""
    def __init__(self, network):
        self.network = network
        self.zombie = False
        self.driver = None
        self.queue = collections.deque()
        self.fed = []
        self.on_feed = None
    def takeMsg(self):
        return self.queue.popleft() if self.queue else None
    def feedMsg(self, msg):
        self.fed.append(str(msg))
        if self.on_feed is not None:
            self.on_feed(self, msg)
    def reset(self): pass
    def __str__(self): return 'StubIrc(%s)' % self.network


socks = []
def _getSocket(*args, **kwargs):
    s = FakeSock()
    socks.append(s)
    return s
utils.net.getSocket = _getSocket
utils.net.getAddressFromHostname = lambda *a, **k: '127.0.0.1'
def _select(r, w, x, timeout=None):
    return ([c for c in r if c.readable()], list(w), [])
S.select.select = _select


def newDriver(network):
    conf.registerNetwork(network, ssl=False)
    getattr(conf.supybot.networks, network).servers.setValue(
        ['irc.example.org:6667'])
    irc = StubIrc(network)
    before = len(socks)
    driver = S.SocketDriver(irc)
    irc.driver = driver
    assert driver.connected and len(socks) == before + 1, 'stub connect failed'
    return irc, driver, socks[-1]


def pump(driver, sock, rounds=50):
    """Runs the driver until nothing is left to read or write."""
    for _ in range(rounds):
        driver.run()
        if not sock.readable() and not driver.outbuffer \
                and not driver.irc.queue:
            break


def expected_msgs(stream):
    """What the bot must see: one message per complete non-blank line."""
    out = []
    for line in stream.split(b'\n')[:-1]:
        text = line.decode('utf8', 'replace').strip()
        if text:
            try:
                out.append(str(ircmsgs.IrcMsg(text)))
            except ircmsgs.MalformedIrcMsg:
                pass                        # not an IRC message: skipped
    return out


failures = []
def check(label, got, want):
    if got != want:
        failures.append(label)
        if isinstance(got, list) and isinstance(want, list):
            i = 0
            while i < min(len(got), len(want)) and got[i] == want[i]:
                i += 1
            print('MISMATCH %s: %d message(s) delivered, %d expected; first '
                  'difference at #%d\n   got  %.200r\n   want %.200r'
                  % (label, len(got), len(want), i, got[i:i+1], want[i:i+1]))
        else:
            print('MISMATCH %s\n   got  %r\n   want %r' % (label, got, want))


def finish():
    shutil.rmtree(_scratch, ignore_errors=True)
    if failures:
        print('FAIL (%d violation(s): %s)' % (len(failures), ', '.join(failures[:5])))
        sys.stdout.flush()
        os._exit(1)
    print('PASS')
    sys.stdout.flush()
    os._exit(0)

import random

def wire(msgs):
    """The property: exactly the UTF-8 encodings of the messages, in order."""
    return b''.join(str(m).encode('utf-8', 'replace') for m in msgs)

_n = [0]
def fresh():
    _n[0] += 1
    return newDriver('c%d' % _n[0])

TEXTS = ['hello', 'h\xe9llo w\xf6rld', '€uro \U0001f600', 'a' * 300,
         '日本語 ' * 40, 'lone \ud800 surrogate', 'x', ' lead',
         'trail ', '\xa0', 'tab\there']

def random_msg(rnd):
    k = rnd.randrange(7)
    t = rnd.choice(TEXTS)
    if k == 0: return ircmsgs.privmsg('#chan', t)
    if k == 1: return ircmsgs.notice('nick', t)
    if k == 2: return ircmsgs.ping((t.split() or ['p'])[0])
    if k == 3: return ircmsgs.IrcMsg('PRIVMSG #chan %s' % t.strip().split(' ')[0])
    if k == 4: return ircmsgs.IrcMsg('PRIVMSG #chan :%s\r\n' % t)
    if k == 5: return ircmsgs.IrcMsg(command='PRIVMSG', args=('#chan', t),
                                     server_tags={'+draft/reply': 'ab\xe9'})
    return ircmsgs.join('#ch\xe4n')

def out_trials(rnd):
    for trial in range(300):
        irc, driver, sock = fresh()
        msgs = [random_msg(rnd) for _ in range(rnd.randrange(0, 8))]
        want = wire(msgs)
        # messages arrive in the queue in several batches, between polls
        batches = []
        rest = list(msgs)
        while rest:
            k = rnd.randrange(1, len(rest) + 1)
            batches.append(rest[:k]); rest = rest[k:]
        for batch in batches:
            irc.queue.extend(batch)
            for _ in range(rnd.randrange(0, 12)):
                sock.send_script.append(rnd.choice(
                    [1, 1, 2, 3, 5, 17, 100, 511, 512, 'EAGAIN']))
            driver.run()
        pump(driver, sock, 3000)
        if bytes(sock.sent) != want or driver.outbuffer != b'':
            check('outgoing trial %d' % trial, bytes(sock.sent), want)
            return
        driver.die()

LINES = [b':irc.example.org 001 test :Welcome\r\n', b'PING :abc\r\n',
         b'PING abc\n', b'\r\n', b'\n', b' \r\n', b':onlyprefix\r\n',
         b':n!u@h PRIVMSG #c :caf\xc3\xa9 \xe2\x82\xac \xf0\x9f\x98\x80\r\n',
         b':n!u@h PRIVMSG #c :latin caf\xe9\r\n',          # not UTF-8
         b':n!u@h PRIVMSG #c :cut \xe2\x82\r\n',          # truncated char
         b':n!u@h PRIVMSG #c :cut \xf0\x9f\n',
         b'@time=2024-05-06T07:08:09.123Z;msgid=x :n!u@h PRIVMSG #c :tagged\r\n',
         b'@time :n!u@h PRIVMSG #c :bad time tag\r\n',
         b'@time=yesterday :n!u@h PRIVMSG #c :bad time tag\r\n',
         b':n!u@h PRIVMSG #c :with\rCR inside\r\n',
         b':n!u@h PRIVMSG #c :trailing spaces   \r\n',
         b'  :n!u@h PRIVMSG #c :leading spaces\r\n',
         b':n!u@h PRIVMSG #c :' + b'\xc3\xa9' * 600 + b'\r\n',   # > 1024 bytes
         b'@' + b';'.join(b'+k%d=%s' % (i, b'v' * 50) for i in range(30))
              + b' :n!u@h PRIVMSG #c :long tags\r\n',
         b'\xff\xfe\r\n', b':n!u@h NICK :\xc3\xa9ric\r\n']

def in_trials(rnd):
    for trial in range(300):
        irc, driver, sock = fresh()
        stream = b''.join(rnd.choice(LINES) for _ in range(rnd.randrange(0, 10)))
        if rnd.random() < 0.5:
            stream += rnd.choice(LINES)[:-2]        # an unfinished last line
        want = expected_msgs(stream)
        mode = rnd.randrange(4)
        p = 0
        while p < len(stream):
            k = {0: 1, 1: rnd.randrange(1, 4), 2: rnd.randrange(1, 60),
                 3: rnd.choice([1, 500, 1023, 1024, 1024, 3000])}[mode]
            sock.recv_script.append(stream[p:p + k]); p += k
            if rnd.random() < 0.2:
                sock.recv_script.append(rnd.choice(['TIMEOUT', 'EAGAIN']))
        pump(driver, sock, 20000)
        assert not sock.readable()
        if irc.fed != want:
            check('incoming trial %d' % trial, irc.fed, want)
            return
        tail = stream.split(b'\n')[-1]
        if driver.inbuffer != tail:
            check('incoming trial %d: inbuffer' % trial, driver.inbuffer, tail)
            return
        driver.die()
    # every cut in two of one stream with all the kinds of lines
    stream = b''.join(LINES[:17] + LINES[19:])
    want = expected_msgs(stream)
    for p in range(1, len(stream)):
        irc, driver, sock = fresh()
        sock.recv_script.extend([stream[:p], stream[p:]])
        pump(driver, sock, 100)
        if irc.fed != want:
            check('cut at %d' % p, irc.fed, want)
            return
        driver.die()

def both_ways(rnd):
    """Reads and writes interleaved: a PING is answered by a PONG."""
    irc, driver, sock = fresh()
    def on_feed(irc, msg):
        if msg.command == 'PING':
            irc.queue.append(ircmsgs.pong(msg.args[0]))
    irc.on_feed = on_feed
    stream = b''.join(b'PING :t\xc3\xa9st%d\r\n' % i for i in range(50))
    p = 0
    while p < len(stream):
        k = rnd.randrange(1, 30)
        sock.recv_script.append(stream[p:p + k]); p += k
    sock.send_script.extend(rnd.choice([1, 2, 3, 'EAGAIN', 40]) for _ in range(300))
    pump(driver, sock, 5000)
    check('ping/pong fed', irc.fed, expected_msgs(stream))
    check('ping/pong sent', bytes(sock.sent),
          ''.join('PONG :t\xe9st%d\r\n' % i for i in range(50)).encode('utf8'))

def epochs():
    """What is buffered belongs to the connection: none of it survives a
    reconnection, in either direction."""
    irc, driver, sock = fresh()
    irc.queue.extend([ircmsgs.privmsg('#a', 'first \xe9'), ircmsgs.ping('one')])
    sock.send_script.extend([5, 'EAGAIN', 'EAGAIN'])
    sock.recv_script.append(b'PING :a\r\n:n!u@h PRIVMSG #c :unfinish')
    driver.run()        # writes, reads, writes after the read, writes again
    assert not sock.send_script
    check('epoch 1 sent', bytes(sock.sent), b'PRIVM')
    check('epoch 1 fed', irc.fed, ['PING :a\n'])
    assert driver.inbuffer and driver.outbuffer
    driver.reconnect()
    sock2 = socks[-1]
    assert sock2 is not sock and sock._closed and driver.connected
    check('buffers emptied', (driver.inbuffer, driver.outbuffer), (b'', b''))
    irc.queue.append(ircmsgs.ping('two'))
    sock2.recv_script.append(b'ed\r\nPING :b\r\n')
    pump(driver, sock2, 20)
    check('epoch 2 sent', bytes(sock2.sent), b'PING :two\r\n')
    check('epoch 2 fed', irc.fed, ['PING :a\n', 'ed\n', 'PING :b\n'][:1] +
          expected_msgs(b'ed\r\nPING :b\r\n'))
    check('epoch 1 untouched', bytes(sock.sent), b'PRIVM')

    # a handler reconnects while a chunk with several lines is being fed:
    # the remaining lines came from the connection that was left
    irc, driver, sock = fresh()
    def on_feed(irc, msg):
        if msg.command == 'ERROR':
            driver.reconnect()
    irc.on_feed = on_feed
    sock.recv_script.append(b'PING :a\r\nERROR :bye\r\nPING :lost\r\nPING :par')
    driver.run()
    check('reconnect in handler', irc.fed, ['PING :a\n', 'ERROR :bye\n'])
    check('reconnect in handler: inbuffer', driver.inbuffer, b'')
    sock2 = socks[-1]
    sock2.recv_script.append(b'PING :new\r\n')
    pump(driver, sock2, 20)
    check('after reconnect in handler', irc.fed,
          ['PING :a\n', 'ERROR :bye\n', 'PING :new\n'])

def errors():
    # EAGAIN is tolerated 121 times in a row, whatever the direction; a
    # success resets the count
    irc, driver, sock = fresh()
    sock.recv_script.extend(['EAGAIN'] * 121)
    for _ in range(121):
        driver.run()
    check('121 EAGAIN: still connected', (driver.connected, driver.eagains), (True, 121))
    sock.recv_script.append(b'PING :x\r\n')
    driver.run()
    check('count reset by recv', (driver.connected, driver.eagains, irc.fed),
          (True, 0, ['PING :x\n']))
    irc.queue.append(ircmsgs.ping('y\xe9'))
    sock.send_script.extend(['EAGAIN'] * 121 + [3])
    for _ in range(121):
        driver._sendIfMsgs()
    check('121 EAGAIN on send', (driver.connected, driver.eagains, bytes(sock.sent)),
          (True, 121, b''))
    driver._sendIfMsgs()
    check('count reset by send', (driver.eagains, bytes(sock.sent), driver.outbuffer),
          (0, b'PIN', 'G :y\xe9\r\n'.encode('utf8')))
    sock.send_script.extend(['EAGAIN'] * 122)
    for _ in range(121):
        driver._sendIfMsgs()
    check('before the 122nd', driver.connected, True)
    driver._sendIfMsgs()
    check('122nd EAGAIN disconnects',
          (driver.connected, sock._closed, driver.nextReconnectTime is not None,
           driver in S.SocketDriver._instances), (False, True, True, False))
    check('nothing more was written', bytes(sock.sent), b'PIN')

    # another socket error on send: disconnected, nothing written twice
    irc, driver, sock = fresh()
    irc.queue.append(ircmsgs.ping('z'))
    def broken(data):
        raise socket.error(32, 'Broken pipe')
    sock.send = broken
    driver._sendIfMsgs()
    check('EPIPE', (driver.connected, sock._closed), (False, True))

    # end of file: the unfinished line is not delivered
    irc, driver, sock = fresh()
    sock.recv_script.extend([b'PING :a\r\nPING :unfinished', b''])
    driver.run(); driver.run()
    check('EOF', (irc.fed, driver.connected, sock._closed), (['PING :a\n'], False, True))

    # a dying driver takes no new message but finishes what it was writing
    irc, driver, sock = fresh()
    irc.queue.append(ircmsgs.IrcMsg(command='QUIT', args=('bye \xe9',)))
    sock.send_script.extend([2, 'EAGAIN', 3])
    driver._sendIfMsgs()
    driver.die()
    irc.queue.append(ircmsgs.ping('never'))
    for _ in range(5):
        driver._sendIfMsgs()
    check('zombie flush', (bytes(sock.sent), sock._closed, len(irc.queue)),
          ('QUIT :bye \xe9\r\n'.encode('utf8'), True, 1))


def main():
    rnd = random.Random(2024)
    out_trials(rnd)
    in_trials(rnd)
    both_ways(rnd)
    epochs()
    errors()
    print('%d driver(s) exercised' % _n[0])


try:
    main()
except BaseException:
    traceback.print_exc()
    failures.append('exception')
finish()
