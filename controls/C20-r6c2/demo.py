#!/usr/bin/env python
"""Equivalence demo for the C20 controls (plugin load/unload/reload and the
dispatcher order).  Drives irclib.Irc.addCallback/getCallback/removeCallback,
IrcCallback.callPrecedence, callbacks.Commands, plugin.loadPluginModule /
loadPluginClass and the Owner commands load/unload/reload/_loadPlugins over
synthetic and bundled plugins, records every observable result (return values,
exceptions, replies, callback order, command sets, configuration, log calls,
sys.modules) and compares a digest with the one recorded on the unmodified tree.

Run: cd <worktree> && python _mutants/c<i>/demo.py      (prints PASS / FAIL)
     DEMO_DUMP=file   writes the full observation list to `file`.
"""
import os
import sys

EXPECTED = 'd2da519f646bccfcec6ce0ef1bda7c255c748ffe862d5721439e23af3c19f28b'

ROOT = os.path.dirname(os.path.dirname(os.path.dirname(os.path.abspath(__file__))))
if os.environ.get('PYTHONHASHSEED') != '0':
    # sets of strings are iterated in a few places (renames): pin the str hash
    env = dict(os.environ)
    env['PYTHONHASHSEED'] = '0'
    os.execve(sys.executable, [sys.executable] + sys.argv, env)

sys.path.insert(0, ROOT)
os.chdir(ROOT)

import re
import zlib
import random
import shutil
import hashlib
import logging
import tempfile
import textwrap
import traceback
import types

TMP = tempfile.mkdtemp(prefix='c20demo')
OUT = []


def norm(s):
    s = str(s)
    s = s.replace(TMP, '<TMP>').replace(ROOT, '<ROOT>')
    s = re.sub(r'0x[0-9a-fA-F]+', '0xX', s)
    s = re.sub(r'Thread #\d+', 'Thread #N', s)
    return s


def rec(*parts):
    OUT.append(norm(' | '.join(str(p) for p in parts)))


def finish(code):
    try:
        shutil.rmtree(TMP, ignore_errors=True)
    finally:
        sys.stdout.flush()
        os._exit(code)


def main():
    for d in ('data', 'conf', 'logs', 'backup', 'plugins', 'plugins2'):
        os.mkdir(os.path.join(TMP, d))
    regfile = os.path.join(TMP, 'conf', 'demo.conf')
    with open(regfile, 'w') as fd:
        fd.write(textwrap.dedent("""
            supybot.directories.data: %(t)s/data
            supybot.directories.conf: %(t)s/conf
            supybot.directories.log: %(t)s/logs
            supybot.directories.backup: %(t)s/backup
            supybot.directories.data.tmp: %(t)s/data/tmp
            supybot.reply.whenNotCommand: True
            supybot.log.stdout: False
            supybot.log.level: DEBUG
            supybot.log.plugins.individualLogfiles: False
            supybot.protocols.irc.throttleTime: 0
            supybot.reply.whenAddressedBy.chars: @
            supybot.networks: test
            supybot.networks.test.servers: should.not.need.this:6667
            supybot.networks.test.ssl: False
            supybot.nick: bot
            supybot.abuse.flood.command: False
            supybot.plugins.Lazy: False
            supybot.plugins.Eager: True
            supybot.plugins.lowercase: True
            supybot.plugins.Broken: False
            supybot.plugins.ErrPlug: True
            supybot.plugins.NoDb: True
            supybot.plugins.Vanished: True
            supybot.plugins.Ghost: True
            supybot.plugins.CfgMissing: True
            supybot.plugins.ImpOther: True
            supybot.plugins.BadInit: True
            supybot.plugins.Dep: True
            supybot.commands.renames.Ren: renone
            supybot.commands.renames.Ren.renone: renamedone
            """) % {'t': TMP})
    import supybot
    import supybot.registry as registry
    registry.open_registry(regfile)
    import supybot.log as log
    import supybot.conf as conf
    conf.supybot.flush.setValue(False)
    import supybot.utils as utils
    import supybot.world as world
    import supybot.ircdb as ircdb
    import supybot.irclib as irclib
    import supybot.ircmsgs as ircmsgs
    import supybot.ircutils as ircutils
    import supybot.callbacks as callbacks
    import supybot.plugin as plugin
    import supybot.plugins as plugins

    # ------------------------------------------------------------------
    # log capture: every log call (level, formatted message, exception type)
    # ------------------------------------------------------------------
    class Capture(logging.Handler):
        skip = ('Starting log for', 'Spawning thread', 'Ending thread',
                'Total memory', 'gc.collect', 'Flushing', 'Regexp cache',
                'Pattern cache', 'Doing debug world',
                # frame-by-frame dump of the locals of a traceback
                'Locals by frame, innermost last')

        def emit(self, record):
            try:
                msg = record.getMessage()
            except Exception as e:
                msg = 'UNFORMATTABLE %r %r' % (record.msg, record.args)
            for s in self.skip:
                if s in msg:
                    return
            # derived from the function names in the traceback
            msg = re.sub(r'Exception id: \S+', 'Exception id: <id>', msg)
            exc = ''
            if record.exc_info and record.exc_info[0] is not None:
                exc = '%s: %s' % (record.exc_info[0].__name__,
                                  record.exc_info[1])
            rec('LOG', record.levelname, msg, exc)
    for h in list(log._logger.handlers):
        log._logger.removeHandler(h)
    cap = Capture()
    cap.setLevel(-1)
    log._logger.addHandler(cap)
    log._logger.setLevel(-1)

    # deterministic hashes for every callback: the topological sort of
    # addCallback iterates over sets of callbacks
    def pinnedHash(self):
        return zlib.crc32(self.__class__.__name__.encode()) & 0xffffff
    irclib.IrcCallback.__hash__ = pinnedHash

    conf.supybot.directories.plugins.setValue(
        [os.path.join(TMP, 'plugins'), os.path.join(TMP, 'nonexistent'),
         os.path.join(TMP, 'plugins2')])

    # a control module the synthetic plugins consult
    ctl = types.ModuleType('demo_ctl')
    ctl.flags = {}
    ctl.trace = []
    ctl.NoSuitableDatabase = plugins.NoSuitableDatabase
    sys.modules['demo_ctl'] = ctl

    def drainTrace():
        t = ctl.trace[:]
        del ctl.trace[:]
        return t

    # ==================================================================
    # Part A: irclib level, synthetic IrcCallbacks
    # ==================================================================
    irc = irclib.Irc('test')
    while irc.takeMsg() is not None:
        pass
    rec('A', 'shared callbacks list', irc.callbacks is irclib._callbacks)
    irc.callbacks = []
    calls = []

    def mk(name, before=(), after=(), hashval=None, mode='std'):
        d = {}

        class Base(irclib.IrcCallback):
            callBefore = before
            callAfter = after

            def name(self):
                calls.append('name:' + name)
                return name

            def __repr__(self):
                return '<cb %s>' % name

            def callPrecedence(self, irc):
                calls.append('prec:' + name)
                if mode == 'raise':
                    raise RuntimeError('precedence of %s' % name)
                if mode == 'selfafter':
                    return ([], [self])
                if mode == 'dupes':
                    r = irclib.IrcCallback.callPrecedence(self, irc)
                    return (r[0] + r[0], r[1] + r[1])
                return irclib.IrcCallback.callPrecedence(self, irc)
        if hashval is not None:
            Base.__hash__ = lambda self: hashval
        Base.__name__ = name
        return Base()

    def order():
        return [cb.__class__.__name__ for cb in irc.callbacks]

    def tryop(label, f):
        del calls[:]
        try:
            r = f()
            res = 'ok %r' % (r,)
        except BaseException as e:
            res = 'EXC %s: %s' % (e.__class__.__name__, e)
        # the exact sequence of name()/callPrecedence() calls is observable to
        # a plugin that overrides them
        h = hashlib.sha256('\n'.join(calls).encode()).hexdigest()[:12]
        rec('A', label, res, order(), len(calls), h)

    names = ['P%d' % i for i in range(10)]

    def variants(n, rng):
        return rng.choice([n, n.lower(), n.upper(), n, n])

    for seed in range(40):
        rng = random.Random(seed)
        irc.callbacks[:] = []
        pool = {}
        cyclic = seed % 4 == 3
        for (i, n) in enumerate(names):
            # acyclic unless `cyclic`: only refer to lower indexes for
            # "after", higher for "before"
            if cyclic:
                cands = names + ['Unknown', 'Nope']
                after = tuple(variants(rng.choice(cands), rng)
                              for _ in range(rng.randrange(0, 3)))
                before = tuple(variants(rng.choice(cands), rng)
                               for _ in range(rng.randrange(0, 3)))
            else:
                lower = names[:i] + ['Unknown']
                higher = names[i+1:] + ['Nope']
                after = tuple(variants(rng.choice(lower), rng)
                              for _ in range(rng.randrange(0, 3)))
                before = tuple(variants(rng.choice(higher), rng)
                               for _ in range(rng.randrange(0, 3)))
            mode = 'std'
            if seed % 5 == 4 and i == 7:
                mode = 'raise'
            if seed % 7 == 6 and i == 5:
                mode = 'dupes'
            pool[n] = (before, after, rng.randrange(0, 64), mode)
        rec('A', 'seed', seed, sorted(pool.items()))
        for step in range(30):
            op = rng.choice(['add', 'add', 'add', 'remove', 'get', 'addvar'])
            n = rng.choice(names)
            if op == 'add':
                cb = mk(n, *pool[n])
                tryop('add %s' % n, lambda: irc.addCallback(cb))
            elif op == 'addvar':
                v = variants(n, rng)
                cb = mk(v, *pool[n])
                tryop('add %s' % v, lambda: irc.addCallback(cb))
            elif op == 'remove':
                v = variants(n, rng)
                tryop('remove %s' % v, lambda: irc.removeCallback(v))
            else:
                v = variants(n, rng)
                tryop('get %s' % v, lambda: irc.getCallback(v))

    # hand-written corner cases
    irc.callbacks[:] = []
    tryop('self before', lambda: irc.addCallback(mk('S', before=('S',))))
    tryop('self after', lambda: irc.addCallback(mk('S', after=('s',))))
    tryop('selfafter obj', lambda: irc.addCallback(mk('S', mode='selfafter')))
    tryop('plain', lambda: irc.addCallback(mk('S')))
    tryop('dup', lambda: irc.addCallback(mk('s')))
    tryop('a', lambda: irc.addCallback(mk('A', before=('B',))))
    tryop('b closes cycle', lambda: irc.addCallback(mk('B', before=('a',))))
    tryop('b ok', lambda: irc.addCallback(mk('B', after=('A', 'a', 'Zed'))))
    tryop('c first', lambda: irc.addCallback(
        mk('C', before=('A', 'B', 'S', 'c2'))))
    tryop('get none', lambda: irc.getCallback('nothing'))
    tryop('get empty', lambda: irc.getCallback(''))
    tryop('get nonstr', lambda: irc.getCallback(None))
    tryop('remove nonstr', lambda: irc.removeCallback(None))
    tryop('remove none', lambda: irc.removeCallback('nothing'))
    tryop('remove B', lambda: irc.removeCallback('b'))
    tryop('remove B again', lambda: irc.removeCallback('B'))
    # two callbacks with the same name put in by hand are both removed
    irc.callbacks.append(mk('A'))
    tryop('remove both A', lambda: irc.removeCallback('A'))
    # default IrcCallback repr / callPrecedence / name
    class Plain(irclib.IrcCallback):
        callBefore = ('S', 'Missing')
        callAfter = ('c',)
    p = Plain()
    rec('A', 'plain', repr(p), p.name(), p.callPrecedence(irc))
    tryop('plain add', lambda: irc.addCallback(p))
    tryop('plain again', lambda: irc.addCallback(Plain()))
    # same hash for everybody
    irc.callbacks[:] = []
    for (i, n) in enumerate(['H1', 'H2', 'H3', 'H4', 'H5']):
        after = ('H%d' % (i + 2),) if i < 4 and i % 2 == 0 else ()
        tryop('samehash ' + n,
              lambda: irc.addCallback(mk(n, after=after, hashval=7)))

    # ==================================================================
    # Part B: callbacks.Commands
    # ==================================================================
    irc.callbacks = irclib._callbacks
    del irc.callbacks[:]

    class Nest(callbacks.Plugin):
        """A plugin with nested commands."""
        attr = 5

        class sub(callbacks.Commands):
            def inner(self, irc, msg, args):
                """takes no arguments"""
                irc.reply('inner')

            def sub(self, irc, msg, args):
                """takes no arguments"""
                irc.reply('subsub')

            class deeper(callbacks.Commands):
                def leaf(self, irc, msg, args):
                    """takes no arguments"""
                    irc.reply('leaf')

        def outer(self, irc, msg, args):
            """takes no arguments"""
            irc.reply('outer')

        def nest(self, irc, msg, args):
            """takes no arguments"""
            irc.reply('nestnest')

        def Not_canonical(self, irc, msg, args):
            """takes no arguments"""

        def wrongargs(self, irc, msg):
            """no"""

        @staticmethod
        def static(self, irc, msg, args):
            """no"""

        @property
        def prop(self):
            ctl.trace.append('prop read')
            return 3

    nest = Nest(irc)
    rec('B', 'cbs', [c.name() for c in nest.cbs],
        [c.name() for c in nest.cbs[0].cbs])
    rec('B', 'list', nest.listCommands())
    rec('B', 'list extra', nest.listCommands(['zzz', 'outer', 'aaa']))
    rec('B', 'list sub', nest.sub.listCommands(), nest.sub.deeper.listCommands())
    for n in sorted(set(dir(nest)) - set(dir(callbacks.Plugin))) + \
            ['name', 'doPrivmsg', '__init__', 'listCommands', 'nosuch',
             'outFilter', 'die']:
        rec('B', 'isCommandMethod', n, nest.isCommandMethod(n))
    rec('B', 'prop', drainTrace())
    argsets = [['outer'], ['nest'], ['nest', 'outer'], ['nest', 'nest'],
               ['nest', 'nest', 'nest'], ['sub'], ['sub', 'inner'],
               ['sub', 'sub'], ['nest', 'sub', 'inner'], ['sub', 'deeper'],
               ['sub', 'deeper', 'leaf'], ['nest', 'sub', 'deeper', 'leaf'],
               ['deeper', 'leaf'], ['inner'], ['nosuch'], ['nest', 'nosuch'],
               ['outer', 'extra'], ['wrongargs'], ['attr'], ['prop'],
               ['static'], ['sub', 'nosuch'], ['nest', 'sub']]
    for a in argsets:
        try:
            g = nest.getCommand(a)
        except Exception as e:
            g = 'EXC %s' % e.__class__.__name__
        g2 = nest.getCommand(a, stripOwnName=False)
        try:
            m = nest.getCommandMethod(a)
            m = getattr(m, '__qualname__', m)
        except BaseException as e:
            m = 'EXC %s: %s' % (e.__class__.__name__, e)
        rec('B', 'getCommand', a, g, g2, nest.isCommand(a), m)
    for a in (['attr'], ['prop'], ['static'], ['wrongargs']):
        # bypass the assertion of getCommandMethod: what it does for
        # attributes that are not commands
        try:
            saved = Nest.getCommand
            Nest.getCommand = lambda self, args, stripOwnName=True: args
            try:
                m = nest.getCommandMethod(a)
            finally:
                Nest.getCommand = saved
            m = getattr(m, '__qualname__', m)
        except BaseException as e:
            m = 'EXC %s: %s' % (e.__class__.__name__, e)
        rec('B', 'getCommandMethod raw', a, m)
    rec('B', 'isCommand str', nest.isCommand('outer'), nest.isCommand('prop'),
        nest.isCommand(('outer',)), nest.isCommand(None))
    try:
        rec('B', 'getCommand noncanon', nest.getCommand(['Outer']))
    except AssertionError as e:
        rec('B', 'getCommand noncanon', 'AssertionError', e)
    callbacks.Commands._disabled.add('outer')
    rec('B', 'disabled all', nest.listCommands(), nest.getCommand(['outer']))
    callbacks.Commands._disabled.remove('outer')
    callbacks.Commands._disabled.add('inner', 'sub')
    callbacks.Commands._disabled.add('nest', 'Other')
    rec('B', 'disabled sub', nest.listCommands(), nest.getCommand(['sub', 'inner']))
    callbacks.Commands._disabled.remove('inner', 'sub')
    callbacks.Commands._disabled.remove('nest', 'Other')
    rec('B', 'enabled', nest.listCommands())
    rec('B', 'property reads in total', len(drainTrace()))

    # ==================================================================
    # synthetic plugin packages
    # ==================================================================
    def write(path, text):
        d = os.path.dirname(path)
        if not os.path.isdir(d):
            os.makedirs(d)
        with open(path, 'w') as fd:
            fd.write(textwrap.dedent(text))

    TEMPLATE = '''
        import sys
        import demo_ctl
        demo_ctl.trace.append('import %(name)s')
        if demo_ctl.flags.get('%(name)s.import') is not None:
            exc = demo_ctl.flags['%(name)s.import']
            raise exc
        %(header)s
        import supybot.callbacks as callbacks
        from supybot.commands import wrap

        class %(name)s(callbacks.Plugin):
            """Synthetic plugin %(name)s."""
            callBefore = %(before)r
            callAfter = %(after)r
            %(classbody)s

            def __init__(self, irc):
                demo_ctl.trace.append('init %(name)s')
                if demo_ctl.flags.get('%(name)s.init') is not None:
                    raise demo_ctl.flags['%(name)s.init']
                self.__parent = super(%(name)s, self)
                self.__parent.__init__(irc)

            def die(self):
                demo_ctl.trace.append('die %(name)s')
                if demo_ctl.flags.get('%(name)s.die') is not None:
                    raise demo_ctl.flags['%(name)s.die']
                self.__parent.die()

            def %(lname)scmd(self, irc, msg, args):
                """takes no arguments

                Replies with the name of the plugin."""
                irc.reply('%(name)s here')
            %(lname)scmd = wrap(%(lname)scmd)

            def shared(self, irc, msg, args):
                """takes no arguments

                A command every synthetic plugin has."""
                irc.reply('shared of %(name)s')
            shared = wrap(shared)

        Class = %(name)s
        %(footer)s

        def configure(advanced):
            pass
        '''

    def mkplugin(name, before=(), after=(), header='', footer='',
                 classbody='', dirname='plugins', folder=None):
        write(os.path.join(TMP, dirname, folder or name, '__init__.py'),
              TEMPLATE % {'name': name, 'lname': name.lower(),
                          'before': before, 'after': after, 'header': header,
                          'footer': footer, 'classbody': classbody})

    mkplugin('Alpha')
    mkplugin('Beta', after=('alpha',),
             header='from . import config',
             footer='''
        def reload(x=None):
            demo_ctl.trace.append('Beta.reload(%r)' % (x,))
            return 'beta-state'
''')
    write(os.path.join(TMP, 'plugins', 'Beta', 'config.py'), '''
        import demo_ctl
        demo_ctl.trace.append('exec Beta.config')
        ''')
    mkplugin('Gamma', before=('Beta', 'NoSuchPlugin'), after=('Alpha', 'OWNER'))
    mkplugin('Delta', before=('Alpha', 'gamma'))
    mkplugin('Cyc1', before=('Cyc2',))
    mkplugin('Cyc2', before=('cyc1',))
    mkplugin('SelfRef', after=('selfref',))
    mkplugin('BadInit')
    mkplugin('Ren', classbody='''
            def renone(self, irc, msg, args):
                """takes no arguments

                To be renamed."""
                irc.reply('renone')
            renone = wrap(renone)
''')
    mkplugin('Hidden', classbody='public = False', dirname='plugins2')
    mkplugin('Dep', footer='deprecated = True')
    mkplugin('NotDep', footer='deprecated = False')
    mkplugin('Lazy')
    mkplugin('Eager', after=('Lazy', 'Utilities'))
    mkplugin('AfterMisc', after=('Misc',))
    mkplugin('lowerplug')
    mkplugin('lowercase')
    mkplugin('Broken')
    mkplugin('ErrPlug')
    mkplugin('NoDb')
    mkplugin('CfgMissing')
    mkplugin('ImpOther')
    mkplugin('Vanished')
    write(os.path.join(TMP, 'plugins', 'BadSyntax', '__init__.py'),
          'def broken(:\n    pass\n')
    write(os.path.join(TMP, 'plugins', 'NoClass', '__init__.py'),
          'import demo_ctl\ndemo_ctl.trace.append("import NoClass")\n')
    write(os.path.join(TMP, 'plugins', 'AttrErr', '__init__.py'), '''
        class Class(object):
            def __init__(self, irc):
                raise AttributeError('something else')
        ''')
    write(os.path.join(TMP, 'plugins', 'TwoGiven', '__init__.py'), '''
        import supybot.callbacks as callbacks
        class TwoGiven(callbacks.Plugin):
            def __init__(self):
                pass
        Class = TwoGiven
        ''')
    write(os.path.join(TMP, 'plugins', 'TwoGivenOld', '__init__.py'), '''
        import supybot.callbacks as callbacks
        class TwoGivenOld(callbacks.Plugin):
            def __init__(self, irc):
                raise TypeError('__init__() takes exactly 1 argument (2 given)')
        Class = TwoGivenOld
        ''')
    write(os.path.join(TMP, 'plugins', 'TypeErr', '__init__.py'), '''
        import supybot.callbacks as callbacks
        class TypeErr(callbacks.Plugin):
            def __init__(self, irc):
                raise TypeError('unrelated type error')
        Class = TypeErr
        ''')
    write(os.path.join(TMP, 'plugins', 'BadSub', '__init__.py'), '''
        from . import sub
        raise RuntimeError('BadSub fails after importing its submodule')
        ''')
    write(os.path.join(TMP, 'plugins', 'BadSub', 'sub.py'), 'x = 1\n')
    write(os.path.join(TMP, 'plugins', 'NotAPackage.txt'), 'just a file\n')
    os.mkdir(os.path.join(TMP, 'plugins', 'EmptyDir'))

    # ==================================================================
    # Part C: plugin.loadPluginModule / loadPluginClass directly
    # ==================================================================
    def modstate(*prefixes):
        return sorted(k for k in sys.modules
                      if any(k == p or k.startswith(p + '.') for p in prefixes))

    def tryload(label, name, **kw):
        try:
            m = plugin.loadPluginModule(name, **kw)
            res = 'ok %s %s' % (m.__name__, norm(getattr(m, '__file__', None)))
        except BaseException as e:
            res = 'EXC %s: %s' % (e.__class__.__name__, e)
            m = None
        rec('C', label, res, drainTrace(),
            conf.supybot.directories.plugins(),
            modstate('BadSub', 'BadSyntax', 'Alpha', 'alpha', 'Dep', 'NoClass',
                     'EmptyDir', 'Nonexistent', 'Ep'))
        return m

    rec('C', 'dirs before', conf.supybot.directories.plugins())
    tryload('first load removes the invalid dir', 'Alpha')
    tryload('again', 'Alpha')
    tryload('lower', 'alpha')
    tryload('upper', 'ALPHA')
    tryload('second dir', 'hidden')
    tryload('missing', 'Nonexistent')
    tryload('missing lower', 'nonexistent.py')
    tryload('regex meta', 'Al(pha')
    tryload('regex dot', 'Alph.')
    tryload('file not package', 'NotAPackage.txt')
    tryload('empty dir', 'EmptyDir')
    tryload('syntax', 'BadSyntax')
    tryload('syntax lower', 'badsyntax')
    tryload('badsub', 'BadSub')
    tryload('noclass', 'NoClass')
    tryload('deprecated', 'Dep')
    tryload('deprecated ignore', 'Dep', ignoreDeprecation=True)
    tryload('deprecated positional', 'dep', ignoreDeprecation=False)
    tryload('not deprecated', 'NotDep')
    tryload('bundled', 'Utilities')
    tryload('bundled lower', 'utilities')
    ctl.flags['Alpha.import'] = ImportError('boom')
    tryload('import raises ImportError', 'Alpha')
    ctl.flags['Alpha.import'] = KeyboardInterrupt('stop')
    tryload('import raises KeyboardInterrupt', 'Alpha')
    del ctl.flags['Alpha.import']
    tryload('recovered', 'Alpha')

    class FakeEntryPoint(object):
        def __init__(self, name):
            self.name = name

        def load(self):
            ctl.trace.append('entrypoint load %s' % self.name)
            m = types.ModuleType('Ep' + self.name)
            m.deprecated = (self.name == 'EpDep')
            return m

    class FakePkgResources(object):
        @staticmethod
        def iter_entry_points(group):
            ctl.trace.append('iter %s' % group)
            return [FakeEntryPoint('Other'), FakeEntryPoint('EpPlug'),
                    FakeEntryPoint('epplug'), FakeEntryPoint('EpDep')]
    savedPkg = plugin.pkg_resources
    rec('C', 'entrypoint none', plugin.loadPluginFromEntrypoint('EpPlug'))
    plugin.pkg_resources = FakePkgResources
    tryload('entrypoint', 'epPLUG')
    tryload('entrypoint deprecated', 'epdep')
    tryload('entrypoint missing', 'EpNone')
    tryload('entrypoint shadowed by dir', 'alpha')
    plugin.pkg_resources = savedPkg

    def snapshot():
        cbs = []
        for cb in irc.callbacks:
            cmds = cb.listCommands() if hasattr(cb, 'listCommands') else None
            cbs.append((cb.name(), cmds))
        return cbs

    def confstate():
        d = {}
        for name in sorted(conf.supybot.plugins()):
            try:
                g = conf.supybot.plugins.get(name)
                d[name] = (g(), g.public())
            except Exception as e:
                d[name] = e.__class__.__name__
        rn = {}
        try:
            renames = conf.supybot.commands.renames
        except registry.NonExistentRegistryEntry:
            return (d, 'no renames group')
        for (k, v) in renames.getValues(fullNames=False):
            rn[k] = sorted(v())
        return (d, rn)

    def tryclass(label, name, **kw):
        try:
            m = plugin.loadPluginModule(name, ignoreDeprecation=True)
            cb = plugin.loadPluginClass(irc, m, **kw)
            res = 'ok %s %s %s' % (cb.name(), cb.classModule is m,
                                   cb.__class__.__name__)
        except BaseException as e:
            res = 'EXC %s: %s' % (e.__class__.__name__, e)
        rec('C', label, res, drainTrace(), snapshot())

    rec('C', 'conf0', confstate())
    tryclass('class Alpha', 'Alpha')
    tryclass('class Alpha twice', 'alpha')
    # until now supybot.commands.renames did not exist (Owner's config
    # registers it): loadPluginClass went through its NonExistentRegistryEntry
    # branch
    rec('C', 'conf0b', confstate())
    tryload('Owner module', 'Owner')
    tryclass('class Beta', 'beta', register=True)
    tryclass('class Gamma', 'Gamma', register=False)
    tryclass('class Delta', 'Delta')
    tryclass('class Cyc1', 'Cyc1')
    tryclass('class Cyc2', 'Cyc2')
    tryclass('class SelfRef', 'SelfRef')
    tryclass('class NoClass', 'NoClass')
    tryclass('class AttrErr', 'AttrErr')
    tryclass('class TwoGiven', 'TwoGiven')
    tryclass('class TwoGivenOld', 'TwoGivenOld')
    tryclass('class TypeErr', 'TypeErr')
    ctl.flags['BadInit.init'] = ValueError('ctor fails')
    tryclass('class BadInit', 'BadInit')
    tryclass('class Hidden', 'Hidden')
    tryclass('class Ren (configured rename)', 'Ren')
    ren = irc.getCallback('ren')
    rec('C', 'ren attrs', hasattr(ren, 'renone'), hasattr(ren, 'renamedone'),
        ren.listCommands())
    rec('C', 'conf1', confstate())
    # renameCommand / registerRename
    for (n, new) in [('alphacmd', 'alphacmd'), ('alphacmd', 'shared'),
                     ('alphacmd', 'New_Name'), ('alphacmd', 'newname'),
                     ('nosuch', 'other')]:
        a = irc.getCallback('Alpha')
        try:
            r = plugin.renameCommand(a, n, new)
            res = 'ok %r' % (r,)
        except BaseException as e:
            res = 'EXC %s: %s' % (e.__class__.__name__, e)
        rec('C', 'renameCommand', n, new, res, a.listCommands())
    plugin.renameCommand(irc.getCallback('Alpha'), 'newname', 'alphacmd')
    g = plugin.registerRename('Alpha')
    rec('C', 'registerRename group', g._name, sorted(g()))
    v = plugin.registerRename('Alpha', 'alphacmd')
    rec('C', 'registerRename cmd', v._name, v(), sorted(g()))
    v = plugin.registerRename('Alpha', 'alphacmd', 'acmd')
    rec('C', 'registerRename new', v._name, v(), sorted(g()))
    conf.supybot.commands.renames.unregister('Alpha')
    rec('C', 'conf2', confstate())
    for cb in irc.removeCallback('Ren') + irc.removeCallback('Hidden'):
        cb.die()
    # the class attribute renamed by the configured rename stays renamed on
    # the class: a second instantiation must fail the same way on both trees
    tryclass('class Ren again', 'Ren')
    rec('C', 'final', snapshot(), drainTrace())
    for cb in list(irc.callbacks):
        for x in irc.removeCallback(cb.name()):
            x.die()
    rec('C', 'emptied', snapshot(), drainTrace())
    # forget the class-level rename: fresh module for part D
    for k in modstate('Ren', 'Alpha', 'Beta', 'Gamma', 'Delta', 'Hidden'):
        del sys.modules[k]

    # ==================================================================
    # Part D: the Owner plugin
    # ==================================================================
    u = ircdb.users.newUser()
    u.name = 'boss'
    u.addCapability('owner')
    u.addHostmask('boss!*@*')
    ircdb.users.setUser(u)
    PREFIX = 'boss!user@host.example'
    OTHER = 'luser!user@elsewhere.example'

    ownerModule = plugin.loadPluginModule('Owner')
    owner = plugin.loadPluginClass(irc, ownerModule)
    rec('D', 'owner loaded', snapshot(), drainTrace())
    rec('D', 'second Owner', )
    try:
        ownerModule.Class(irc)
        rec('D', 'second Owner instantiated')
    except AssertionError as e:
        rec('D', 'second Owner refused', e)

    def replies():
        r = []
        while True:
            m = irc.takeMsg()
            if m is None:
                break
            r.append((m.command, m.args))
        return r

    def order():
        return [cb.name() for cb in irc.callbacks]

    def violations():
        bad = []
        idx = {}
        for (i, cb) in enumerate(irc.callbacks):
            if cb.name().lower() in idx:
                bad.append('dup %s' % cb.name())
            idx[cb.name().lower()] = i
        for cb in irc.callbacks:
            for n in getattr(cb, 'callBefore', ()):
                if n.lower() in idx and idx[n.lower()] < idx[cb.name().lower()]:
                    bad.append('%s !< %s' % (cb.name(), n))
            for n in getattr(cb, 'callAfter', ()):
                if n.lower() in idx and idx[n.lower()] > idx[cb.name().lower()]:
                    bad.append('%s !> %s' % (cb.name(), n))
        if order() and order()[0] != 'Owner':
            bad.append('Owner not first')
        return bad

    def cmd(text, prefix=PREFIX, to='#chan'):
        rec('D', '>>>', text)
        irc.feedMsg(ircmsgs.privmsg(to, '@' + text, prefix=prefix))
        rec('D', 'replies', replies())
        rec('D', 'order', order(), violations())
        rec('D', 'trace', drainTrace())
        h = hashlib.sha256(repr((snapshot(), confstate())).encode()).hexdigest()
        rec('D', 'state', h[:16])

    irc.feedMsg(ircmsgs.IrcMsg(':server 001 bot :Welcome'))
    irc.feedMsg(ircmsgs.IrcMsg(':server 376 bot :End of MOTD'))
    replies()
    cmd('list')
    cmd('load Misc')
    cmd('list')
    cmd('load Alpha')
    cmd('load alpha')
    cmd('load ALPHA.py')
    cmd('load beta.py')
    cmd('list')
    cmd('list Beta')
    cmd('betacmd')
    cmd('shared')
    cmd('alpha shared')
    cmd('load Gamma')
    cmd('load delta')
    cmd('load Cyc1')
    cmd('load Cyc2')
    cmd('shared')
    cmd('cyc2cmd')
    cmd('load SelfRef')
    cmd('load Nonexistent')
    cmd('load BadSyntax')
    cmd('load BadSub')
    ctl.flags['Lazy.import'] = ImportError('boom')
    cmd('load Lazy')
    ctl.flags['Lazy.import'] = ImportError("No module named 'config'")
    cmd('load Lazy')
    ctl.flags['Lazy.import'] = ImportError('something about Lazy')
    cmd('load Lazy')
    del ctl.flags['Lazy.import']
    cmd('load BadInit')
    cmd('load TwoGiven')
    cmd('load TwoGivenOld')
    cmd('load TypeErr')
    cmd('load NoClass')
    cmd('load AttrErr')
    cmd('load Dep')
    cmd('load --deprecated Dep')
    cmd('load --deprecated NotDep')
    cmd('load Hidden')
    cmd('load AfterMisc')
    cmd('unload AfterMisc')
    cmd('load Ren')
    cmd('list Ren')
    cmd('renamedone')
    cmd('load')
    cmd('load Alpha', prefix=OTHER)
    cmd('unload Alpha', prefix=OTHER)
    cmd('reload Alpha', prefix=OTHER)
    cmd('list')
    # unload
    cmd('unload Owner')
    cmd('unload owner')
    cmd('unload OWNER')
    cmd('reload Owner')
    cmd('reload owner')
    cmd('owner unload Owner')
    cmd('unload Nonloaded')
    cmd('unload gamma')
    cmd('unload gamma')
    cmd('list')
    cmd('gammacmd')
    cmd('load GAMMA')
    ctl.flags['Dep.die'] = RuntimeError('die fails')
    cmd('unload Dep')
    del ctl.flags['Dep.die']
    cmd('unload hidden')
    cmd('unload')
    # reload
    cmd('reload Beta')
    cmd('reload beta')
    cmd('reload Nonloaded')
    cmd('reload Alpha')
    ctl.flags['Alpha.import'] = ImportError('gone')
    cmd('reload Alpha')
    cmd('alphacmd')
    ctl.flags['Alpha.import'] = SyntaxError('bad syntax in new version')
    cmd('reload alpha')
    cmd('alphacmd')
    ctl.flags['Alpha.import'] = RuntimeError('module body fails')
    cmd('reload ALPHA')
    cmd('alphacmd')
    del ctl.flags['Alpha.import']
    ctl.flags['Alpha.die'] = RuntimeError('die fails in reload')
    cmd('reload Alpha')
    del ctl.flags['Alpha.die']
    cmd('alphacmd')
    ctl.flags['Beta.import'] = ImportError('beta gone')
    cmd('reload Beta')
    del ctl.flags['Beta.import']
    cmd('betacmd')
    ctl.flags['Delta.init'] = ValueError('ctor fails in reload')
    cmd('reload Delta')
    del ctl.flags['Delta.init']
    cmd('deltacmd')
    cmd('load Delta')
    shutil.rmtree(os.path.join(TMP, 'plugins', 'Vanished'))
    cmd('load Vanished')
    mkplugin('Vanished')
    cmd('load Vanished')
    shutil.rmtree(os.path.join(TMP, 'plugins', 'Vanished'))
    cmd('reload Vanished')
    cmd('vanishedcmd')
    cmd('reload Misc')
    cmd('list')
    # renames through the Owner commands, then reload applies them
    cmd('rename Alpha alphacmd firstcmd')
    cmd('firstcmd')
    cmd('reload Alpha')
    cmd('list Alpha')
    cmd('firstcmd')
    cmd('unrename Alpha')
    cmd('list Alpha')
    cmd('disable shared')
    cmd('list Alpha')
    cmd('shared')
    cmd('enable shared')
    cmd('disable Alpha shared')
    cmd('list Alpha')
    cmd('list Beta')
    cmd('enable Alpha shared')
    cmd('defaultplugin shared Beta')
    cmd('shared')
    cmd('defaultplugin --remove shared')
    # random walk over load/unload/reload
    rng = random.Random(2020)
    walk = ['Alpha', 'Beta', 'Gamma', 'Delta', 'Cyc1', 'Cyc2', 'Lazy',
            'Eager', 'Misc', 'Utilities', 'NotDep', 'Owner', 'SelfRef']
    for i in range(60):
        op = rng.choice(['load', 'unload', 'reload'])
        n = rng.choice(walk)
        n = rng.choice([n, n, n.lower(), n.upper()])
        cmd('%s %s' % (op, n))
    cmd('list')

    # _loadPlugins (what a new connection does)
    for n in ('Lazy', 'Eager', 'Misc', 'Alpha', 'Dep', 'BadInit', 'NotDep'):
        for cb in irc.removeCallback(n):
            cb.die()
    drainTrace()
    ctl.flags['Broken.import'] = RuntimeError('broken at import')
    conf.registerPlugin('lowerplug', True)
    ctl.flags['ErrPlug.init'] = callbacks.Error('ErrPlug says no')
    ctl.flags['NoDb.init'] = plugins.NoSuitableDatabase(['sqlite3'])
    ctl.flags['CfgMissing.import'] = ImportError("No module named 'config'")
    ctl.flags['ImpOther.import'] = ImportError('cannot import name x')
    for (important, always, miscValue) in [(True, True, False),
                                           (True, False, False),
                                           (False, True, True)]:
        conf.supybot.plugins.alwaysLoadImportant.setValue(always)
        conf.supybot.plugins.Misc.setValue(miscValue)
        world.starting = True
        rec('D', '_loadPlugins', important, always, miscValue)
        r = owner._loadPlugins(irc)
        rec('D', '_loadPlugins ->', r, world.starting, order(), violations(),
            drainTrace())
        rec('D', 'conf', confstate())
        for n in ('Lazy', 'Eager', 'Misc', 'Dep', 'BadInit'):
            for cb in irc.removeCallback(n):
                cb.die()
        drainTrace()
    ctl.flags.clear()
    # Owner.callPrecedence
    rec('D', 'owner precedence',
        [[c.name() for c in part] for part in owner.callPrecedence(irc)])
    rec('D', 'final', snapshot(), confstate())

    digest = hashlib.sha256('\n'.join(OUT).encode('utf-8')).hexdigest()
    dump = os.environ.get('DEMO_DUMP')
    if dump:
        with open(dump, 'w') as fd:
            fd.write('\n'.join(OUT) + '\n')
    if os.environ.get('DEMO_RECORD'):
        print(digest)
        return 0
    if digest == EXPECTED:
        print('PASS (%d observations, digest %s)' % (len(OUT), digest[:16]))
        return 0
    print('FAIL: digest %s != expected %s (%d observations)'
          % (digest, EXPECTED, len(OUT)))
    return 1


if __name__ == '__main__':
    try:
        code = main()
    except BaseException:
        traceback.print_exc()
        print('FAIL: exception in the demo')
        code = 2
    finish(code)
