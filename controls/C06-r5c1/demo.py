import os, sys, tempfile, time, shutil
sys.path.insert(0, os.getcwd())
base = tempfile.mkdtemp(prefix='mut5c06_')
for d in ('data', 'conf', 'logs'):
    os.mkdir(os.path.join(base, d))
regfile = os.path.join(base, 'conf', 'test.conf')
with open(regfile, 'w') as fd:
    fd.write("""
supybot.directories.data: %(b)s/data
supybot.directories.conf: %(b)s/conf
supybot.directories.log: %(b)s/logs
supybot.log.stdout: False
supybot.log.level: CRITICAL
supybot.log.plugins.individualLogfiles: False
supybot.protocols.irc.throttleTime: 0
supybot.reply.whenAddressedBy.chars: @
supybot.networks.test.server: should.not.need.this
supybot.nick: test
""" % {'b': base})
import supybot
import supybot.registry as registry
registry.open_registry(regfile)
import supybot.log as log
import supybot.conf as conf
conf.supybot.flush.setValue(False)
import supybot.world as world
import supybot.irclib as irclib
import supybot.ircmsgs as ircmsgs
import supybot.ircutils as ircutils
import supybot.ircdb as ircdb
import supybot.callbacks as callbacks
import supybot.plugin as plugin
assert os.path.realpath(supybot.__file__).startswith(os.path.realpath(os.getcwd())), supybot.__file__
conf.supybot.abuse.flood.command.setValue(False)
conf.registerNetwork('test')
conf.supybot.networks.test.ssl.setValue(False)


def wire_errors(data):
    """The property, on the bytes of ONE message: why it is not exactly one
    well-formed IRC line (empty list: it is)."""
    errs = []
    if not data.endswith(b'\r\n'):
        errs.append('not terminated by CR LF')
    body = data[:-2] if data.endswith(b'\r\n') else data
    for (c, name) in ((b'\r', 'CR'), (b'\n', 'LF'), (b'\x00', 'NUL')):
        if c in body:
            errs.append('%s inside the line' % name)
    rest = data
    if data.startswith(b'@'):
        rest = data.split(b' ', 1)[1]
    if len(rest) > 512:
        errs.append('%d bytes (tags excluded) > 512' % len(rest))
    return errs


def make_irc(plugins):
    irc = irclib.Irc('test')
    for name in plugins:
        plugin.loadPluginClass(irc, plugin.loadPluginModule(name))
    drain(irc)
    irc.feedMsg(ircmsgs.IrcMsg(':srv 001 test :Welcome'))
    irc.feedMsg(ircmsgs.IrcMsg(':srv 376 test :End of MOTD'))
    irc.feedMsg(ircmsgs.IrcMsg(':test!bot@bothost JOIN #chan'))
    irc.feedMsg(ircmsgs.IrcMsg(':srv 353 test = #chan :@test al bo'))
    irc.feedMsg(ircmsgs.IrcMsg(':srv 366 test #chan :End of NAMES'))
    irc.feedMsg(ircmsgs.IrcMsg(':al!al@host JOIN #chan'))
    drain(irc)
    return irc


def drain(irc, wait=0.3):
    """Everything the bot hands to its driver, as messages."""
    out = []
    deadline = time.time() + wait
    while True:
        m = irc.takeMsg()
        if m is not None:
            out.append(m)
            continue
        if time.time() > deadline:
            return out
        time.sleep(0.02)


def say(irc, text, prefix='al!al@host', target='#chan'):
    irc.feedMsg(ircmsgs.IrcMsg(':%s PRIVMSG %s :%s' % (prefix, target, text)))
    return drain(irc)

# --- C1 (control): the refactored paths against reference implementations ---
# The references below are transcriptions of the ORIGINAL code; the demo
# passes iff the code under test (original or refactored) agrees with them on
# every case, and every serialised message satisfies the property.
import socket
import random
import itertools
import supybot.utils as utils
import supybot.drivers.Socket as Socket

failures = []
counts = {}


def expect(section, what, got, want):
    counts[section] = counts.get(section, 0) + 1
    if got != want:
        failures.append((section, what, got, want))


def ref_valid(s):
    return '\r' not in s and '\n' not in s and '\x00' not in s


def ref_safe(s):
    if not isinstance(s, str):
        s = str(s)
    if ref_valid(s):
        return s
    else:
        return repr(s)


def ref_escape(v):
    out = []
    for c in v:
        out.append({'\\': '\\\\', ' ': '\\s', ';': '\\:', '\r': '\\r',
                    '\n': '\\n'}.get(c, c))
    return ''.join(out)


def ref_tags(tags):
    parts = []
    for (key, value) in tags.items():
        if value is None:
            parts.append(key)
        else:
            parts.append('%s=%s' % (key, ref_escape(value)))
    return '@' + ';'.join(parts)


def ref_str(prefix, command, args, tags):
    if prefix:
        if len(args) > 1:
            s = ':%s %s %s :%s\r\n' % (prefix, command,
                                       ' '.join(args[:-1]), args[-1])
        else:
            if args:
                s = ':%s %s :%s\r\n' % (prefix, command, args[0])
            else:
                s = ':%s %s\r\n' % (prefix, command)
    else:
        if len(args) > 1:
            s = '%s %s :%s\r\n' % (command, ' '.join(args[:-1]), args[-1])
        else:
            if args:
                s = '%s :%s\r\n' % (command, args[0])
            else:
                s = '%s\r\n' % command
    if tags:
        s = ref_tags(tags) + ' ' + s
    return s


def ref_truncate(line):
    if line[0] == '@':
        (t, rest) = line.split(' ', 1)
        t += ' '
    else:
        (t, rest) = ('', line)
    b = rest.encode('utf-8', 'replace')
    if len(b) > 512:
        return t + b[:510].decode('utf-8', 'ignore') + '\r\n'
    return line


def ref_encode(line):
    return line.encode('utf-8', 'replace')


# A. isValidArgument / safeArgument ------------------------------------------
alphabet = ['a', ' ', '\r', '\n', '\x00', 'é', ':']
strings = ['']
for n in range(1, 5):
    strings.extend(''.join(t) for t in itertools.product(alphabet, repeat=n))
rnd = random.Random(606)
pool = alphabet + ['\x01', '\x02', '\x03', ' ', '\x85', '\x0b', '\x0c',
                   '\x1c', '€', '𝄞', '\ud800', '\\', 'n', '"', "'"]
for _ in range(3000):
    strings.append(''.join(rnd.choice(pool)
                           for _ in range(rnd.randrange(0, 40))))
strings += ['x' * 600 + '\n', '\n' + 'x' * 600, 'x' * 600, 'abc\n', 'abc\r\n',
            'abc\n\n', '\n', '\r', '\x00']
for s in strings:
    expect('A', 'isValidArgument(%r)' % s, ircutils.isValidArgument(s),
           ref_valid(s))
    expect('A', 'safeArgument(%r)' % s, ircutils.safeArgument(s),
           ref_safe(s))
for s in (5, None, 3.5, b'x\n', ['a\n'], ('a', 'b'), Exception('boom\r\n'),
          ircutils.IrcString('Foo\n'), ircutils.IrcString('Foo')):
    expect('A', 'safeArgument(%r)' % (s,), ircutils.safeArgument(s),
           ref_safe(s))
for s in (5, None):
    try:
        ircutils.isValidArgument(s)
        got = 'no error'
    except TypeError:
        got = 'TypeError'
    expect('A', 'isValidArgument(%r)' % (s,), got, 'TypeError')

# B. IrcMsg.__init__ / __str__ / tags ----------------------------------------
prefixes = ['', 'nick!user@host', 'irc.example.org']
commands = ['PRIVMSG', 'NOTICE', 'MODE', '005', 'QUIT']
argpool = ['', '#chan', 'a b', ':x', 'é€𝄞', 'x' * 30, '+o', '\x01ACTION hi\x01']
tagsets = [None, {}, {'label': 'abc'}, {'a': None}, {'a': None, 'b': ''},
           {'+draft/reply': 'x y;z\\w\r\n', 'k': None, 'é': 'é'},
           {'msgid': 'a\\b', 'time': '2011-10-19T16:40:51.620Z'}]
for prefix in prefixes:
    for command in commands:
        for n in range(0, 5):
            for args in itertools.islice(
                    itertools.product(argpool, repeat=n), 0, 400, 7):
                for tags in tagsets:
                    for ctor in (tuple, list):
                        m = ircmsgs.IrcMsg(prefix=prefix, command=command,
                                           args=ctor(args), server_tags=tags)
                        want = ref_str(prefix, command, args, tags or {})
                        what = (prefix, command, args, tags)
                        expect('B', what, str(m), want)
                        expect('B', what, str(m), want)  # cached
                        expect('B', what, len(m), len(want))
                        m2 = ircmsgs.IrcMsg(msg=m)
                        expect('B', ('copy',) + what, str(m2), want)
                        if args:
                            m3 = ircmsgs.IrcMsg(msg=m, args=args[::-1])
                            expect('B', ('copy+args',) + what, str(m3),
                                   ref_str(prefix, command, args[::-1],
                                           tags or {}))
# invalid arguments are refused, at every position, in both constructors
good = ircmsgs.IrcMsg(command='PRIVMSG', args=('#chan', 'ok'))
for badarg in ('a\nb', '\n', 'abc\n', 'abc\r', '\rabc', 'a\x00', '\x00',
               'x\r\nQUIT :bye', 'abc\n\n'):
    for n in range(1, 4):
        for pos in range(n):
            args = ['ok'] * n
            args[pos] = badarg
            for kw in ({}, {'msg': good}):
                try:
                    ircmsgs.IrcMsg(command='PRIVMSG', args=tuple(args), **kw)
                    got = 'accepted'
                except AssertionError as e:
                    got = 'AssertionError%r' % (e.args,)
                expect('B', ('refuse', badarg, n, pos, sorted(kw)), got,
                       'AssertionError(%r,)' % (tuple(args),))
for (f, a) in ((ircmsgs.privmsg, ('#chan', 'a\nb')),
               (ircmsgs.notice, ('al', 'a\rb')),
               (ircmsgs.action, ('#chan', 'a\x00b')),
               (ircmsgs.topic, ('#chan', 'new\ntopic')),
               (ircmsgs.kick, ('#chan', 'bo', 'out\n')),
               (ircmsgs.part, ('#chan', 'bye\r\nQUIT')),
               (ircmsgs.quit, ('bye\n',)),
               (ircmsgs.mode, ('#chan', ('+b', 'x\n')))):
    try:
        f(*a)
        got = 'accepted'
    except AssertionError:
        got = 'AssertionError'
    expect('B', ('helper', f.__name__, a), got, 'AssertionError')
# parsed messages keep their line; tags are parsed/escaped both ways
raw = '@aaa=b\\:bb;ccc;d=e\\se\\r\\n :nick!ident@host.com PRIVMSG me :Hello'
m = ircmsgs.IrcMsg(raw)
expect('B', 'parsed raw', str(m), raw + '\n')
expect('B', 'parsed tags', m.server_tags,
       {'aaa': 'b;bb', 'ccc': None, 'd': 'e e\r\n'})
m._str = None
expect('B', 'rebuilt', str(m),
       '@aaa=b\\:bb;ccc;d=e\\se\\r\\n :nick!ident@host.com PRIVMSG me '
       ':Hello\r\n')
expect('B', 'format one tag set', ircmsgs._format_server_tags(
    {'k': 'v w', 'n': None, 'e': ''}), '@k=v\\sw;n;e=')

# C. Irc.takeMsg / _truncateMsg ----------------------------------------------
irc = make_irc(['Owner', 'Misc', 'Utilities', 'Reply', 'String', 'Channel'])


def taken(m):
    irc.sendMsg(m)
    got = drain(irc, wait=0.0)
    return got


units = ['x', 'é', '€', '𝄞', '\ud800', 'a€']
heads = [('PRIVMSG', ('#chan',)), ('NOTICE', ('al',)), ('TOPIC', ('#chan',)),
         ('KICK', ('#chan', 'bo')), ('MODE', ('#chan', '+b')),
         ('PRIVMSG', ('#' + 'c' * 200,)), ('WHOIS', ('n' * 520,)),
         ('QUIT', ())]
n_trunc = 0
for (command, head) in heads:
    for unit in units:
        for tags in (None, {'label': 'L1'}, {'+draft/reply': 'a b;c\r\n'}):
            base_line = ref_str('', command, head + ('',), tags or {})
            if tags:
                base_len = len(ref_encode(base_line.split(' ', 1)[1]))
            else:
                base_len = len(ref_encode(base_line))
            ulen = len(ref_encode(unit))
            for total in list(range(505, 521)) + [300, 1024, 5000]:
                reps = max(0, (total - base_len) // ulen)
                for extra in (0, 1):
                    text = unit * (reps + extra)
                    args = head + (text,)
                    m = ircmsgs.IrcMsg(command=command, args=args,
                                       server_tags=dict(tags) if tags
                                       else None)
                    full = ref_str('', command, args, tags or {})
                    want = ref_truncate(full)
                    if want != full:
                        n_trunc += 1
                    got = taken(m)
                    what = (command, head[:1], unit, tags, total, extra)
                    expect('C', what + ('count',), len(got), 1)
                    if got:
                        expect('C', what, str(got[0]), want)
                        expect('C', what + ('id',), got[0] is m, True)
                        expect('C', what + ('wire',),
                               wire_errors(ref_encode(str(got[0]))), [])
expect('C', 'some messages were truncated', n_trunc > 500, True)
expect('C', '_truncateMsg returns None',
       irc._truncateMsg(ircmsgs.privmsg('#chan', 'y' * 900)), None)

# D. SocketDriver._sendIfMsgs -------------------------------------------------


class FakeSock(object):
    """Accepts at most `chunk` bytes per send()."""
    def __init__(self):
        self.sent = b''
        self.chunk = 1 << 20
        self._closed = False
    def settimeout(self, t): pass
    def connect(self, addr): pass
    def send(self, data):
        data = bytes(data)[:self.chunk]
        self.sent += data
        return len(data)
    def recv(self, n):
        raise socket.timeout()
    def fileno(self): return -1
    def shutdown(self, how): pass
    def close(self): self._closed = True


utils.net.getSocket = lambda *a, **k: FakeSock()
utils.net.getAddressFromHostname = lambda *a, **k: '127.0.0.1'
conf.supybot.networks.test.servers.setValue(['irc.example.org:6667'])
driver = Socket.SocketDriver(irc)
irc.driver = driver
expect('D', 'connected', driver.connected, True)
for chunk in (1 << 20, 7, 1):
    driver.conn.chunk = chunk
    driver.conn.sent = b''
    wanted = b''
    batch = [ircmsgs.privmsg('#chan', 'hello %d' % chunk),
             ircmsgs.notice('al', 'é€𝄞' * 10),
             ircmsgs.privmsg('#chan', 'sur\ud800ro\udfffgate'),
             ircmsgs.action('#chan', 'z' * 700),
             ircmsgs.IrcMsg(command='PRIVMSG', args=('#chan', '€' * 400),
                            server_tags={'label': 'x y'}),
             ircmsgs.topic('#chan', '\ud800' * 600),
             ircmsgs.IrcMsg(command='PING', args=('123',))]
    for m in batch:
        irc.sendMsg(m)
        wanted += ref_encode(ref_truncate(ref_str('', m.command, m.args,
                                                  m.server_tags)))
    for _ in range(5000):
        driver._sendIfMsgs()
        if not driver.outbuffer and len(driver.conn.sent) >= len(wanted):
            break
    expect('D', ('bytes written', chunk), driver.conn.sent, wanted)
    body = driver.conn.sent
    lines = [l + b'\r\n' for l in body.split(b'\r\n')[:-1]]
    expect('D', ('one line per message', chunk), len(lines), len(batch))
    for l in lines:
        expect('D', ('wire', chunk, l[:30]), wire_errors(l), [])
driver.conn.chunk = 1 << 20
driver.conn.sent = b''

# E. end to end: commands, through the real driver ----------------------------


def cmd(text):
    driver.conn.sent = b''
    irc.feedMsg(ircmsgs.IrcMsg(':al!al@host PRIVMSG #chan :%s' % text))
    deadline = time.time() + 0.4
    while time.time() < deadline:
        driver._sendIfMsgs()
        time.sleep(0.02)
    data = driver.conn.sent
    lines = [l + b'\r\n' for l in data.split(b'\r\n')[:-1]]
    expect('E', ('complete lines', text[:30]), b''.join(lines), data)
    for l in lines:
        expect('E', ('wire', text[:30], l[:30]), wire_errors(l), [])
    return lines


expect('E', 1, cmd('@echo "one\\ntwo"'), [b"PRIVMSG #chan :'one\\ntwo'\r\n"])
expect('E', 2, cmd('@echo "one\\n"'), [b"PRIVMSG #chan :'one\\n'\r\n"])
expect('E', 3, cmd('@echo "x\\r\\nQUIT :bye"'),
       [b"PRIVMSG #chan :'x\\r\\nQUIT :bye'\r\n"])
expect('E', 4, cmd('@echo "nul\\0here"'),
       [b"PRIVMSG #chan :'nul\\x00here'\r\n"])
expect('E', 5, cmd('@reply notice "psst\\n"'),
       [b"NOTICE #chan :al: 'psst\\n'\r\n"])
expect('E', 6, cmd('@reply private "psst\\r"'),
       [b"NOTICE al :'psst\\r'\r\n"])
expect('E', 7, cmd('@reply action waves'),
       [b'PRIVMSG #chan :\x01ACTION waves\x01\r\n'])
expect('E', 8, cmd('@reply action "wa\\nves"'),
       [b"PRIVMSG #chan :\x01ACTION 'wa\\nves'\x01\r\n"])
expect('E', 9, cmd('@echo \x02bold\x02 \x0304red\x03 plain'),
       [b'PRIVMSG #chan :\x02bold\x02 \x0304red\x03 plain\r\n'])
expect('E', 10, cmd('@reply action ' + 'x' * 700),
       [b'PRIVMSG #chan :\x01ACTION ' + b'x' * 487 + b'\r\n'])
expect('E', 11, cmd('@reply action [chr 55296] [chr 233]'),
       [b'PRIVMSG #chan :\x01ACTION ? \xc3\xa9\x01\r\n'])
long_lines = cmd('@echo ' + ' '.join(['w€rd%d' % i for i in range(400)]))
expect('E', 'long reply: first chunk + more', len(long_lines), 1)
expect('E', 'long reply: has the more suffix',
       long_lines and long_lines[0].endswith(b'more messages)\x02\r\n'), True)
more_lines = cmd('@more')
expect('E', 'more: one chunk', len(more_lines), 1)
conf.supybot.reply.mores.setValue(False)
expect('E', 'mores off: one truncated line',
       [len(l) for l in cmd('@echo ' + 'é' * 900)], [511])
conf.supybot.reply.mores.setValue(True)
expect('E', 'nick prefix',
       cmd('@reply reply "a\\nb"'), [b"PRIVMSG #chan :al: 'a\\nb'\r\n"])

print('cases per section:', sorted(counts.items()))
seen = sum(counts.values())
bad = failures[:20]

print('%d checks' % seen)
code = 0
if seen < 20000:
    print('FAIL: not all the cases ran')
    code = 1
elif bad:
    for b in bad:
        print('MISMATCH', ascii(b)[:400])
    print('FAIL (%d mismatches)' % len(failures))
    code = 1
else:
    print('PASS')
sys.stdout.flush()
shutil.rmtree(base, ignore_errors=True)
os._exit(code)
