#!/usr/bin/env python
"""Equivalence demo for the C10 controls (channel / user state tracking).

Drives the real ChannelState / IrcState / Irc objects, ircutils.separateModes
and the case-insensitive containers through unit probes, error paths and long
randomly generated IRC sessions, records every observable result (return
values, exceptions, state snapshots, message tags, queued messages, log calls)
and compares a digest of the record with the one taken on the unmodified tree.

  cd /tmp/mut6_C10 && /venv/bin/python _mutants/c<i>/demo.py [--record] [--dump FILE]
"""
import os
import sys
import copy
import pickle
import random
import shutil
import hashlib
import tempfile
import itertools
import traceback

EXPECTED = '9fd00cce1b9eb54479cd5a914aa3548e3011026112f46cc710522f613560a46d'

code = 1
try:
    sys.path.insert(0, os.getcwd())
    base = tempfile.mkdtemp(prefix='c10demo')
    for d in ('data', 'conf', 'logs'):
        os.mkdir(os.path.join(base, d))
    regfile = os.path.join(base, 'conf', 'test.conf')
    with open(regfile, 'w') as fd:
        fd.write("""
supybot.directories.data: %(b)s/data
supybot.directories.conf: %(b)s/conf
supybot.directories.log: %(b)s/logs
supybot.log.stdout: False
supybot.log.stdout.level: CRITICAL
supybot.log.level: CRITICAL
supybot.log.plugins.individualLogfiles: False
supybot.protocols.irc.throttleTime: 0
supybot.networks.test.server: should.not.need.this
supybot.networks.test.ssl: False
supybot.nick: bot
supybot.ident: botid
supybot.user: bot user
""" % {'b': base})
    import supybot.registry as registry
    registry.open_registry(regfile)
    import supybot.log as log
    import supybot.conf as conf
    conf.supybot.flush.setValue(False)
    import supybot.utils as utils
    import supybot.world as world
    import supybot.ircdb as ircdb
    import supybot.irclib as irclib
    import supybot.ircmsgs as ircmsgs
    import supybot.ircutils as ircutils
    conf.registerNetwork('test')
    conf.supybot.protocols.irc.ping.setValue(False)

    REC = []

    def rec(*a):
        REC.append(repr(a))

    # ------------------------------------------------------------------
    # deterministic clock inside irclib, recorded log calls
    # ------------------------------------------------------------------
    class Clock(object):
        def __init__(self):
            self.now = 1000000.0
        def time(self):
            self.now += 0.25
            return self.now
        def __getattr__(self, name):
            import time as _t
            return getattr(_t, name)
    clock = Clock()
    irclib.time = clock

    def canon(x):
        """repr() that does not depend on memory addresses or set order."""
        if isinstance(x, ircmsgs.IrcMsg):
            return 'IrcMsg(%r)' % str(x)
        if isinstance(x, (set, frozenset)):
            return '%s{%s}' % (type(x).__name__,
                               ','.join(sorted(canon(e) for e in x)))
        if isinstance(x, dict):
            return 'dict{%s}' % ','.join(sorted(
                '%s:%s' % (canon(k), canon(v)) for (k, v) in x.items()))
        if isinstance(x, (list, tuple)):
            return '%s[%s]' % (type(x).__name__,
                               ','.join(canon(e) for e in x))
        if isinstance(x, (str, int, float, bool, type(None), bytes)):
            return '%s:%r' % (type(x).__name__, x)
        if isinstance(x, irclib.Irc):
            return 'Irc(%s)' % x.network
        if isinstance(x, irclib.ChannelState):
            return chanSnap(x)
        if callable(x):
            return 'callable:%s' % getattr(x, '__name__', type(x).__name__)
        return 'obj:%s' % type(x).__name__

    def mklog(level):
        def f(fmt, *args):
            if level == 'exception':
                (t, v, __) = sys.exc_info()
                rec('LOG', level, fmt, tuple(canon(a) for a in args),
                    getattr(t, '__name__', None), str(v))
            else:
                rec('LOG', level, fmt, tuple(canon(a) for a in args))
        return f
    for level in ('debug', 'info', 'warning', 'error', 'critical',
                  'exception'):
        setattr(log, level, mklog(level))

    def chanSnap(c):
        return 'Chan(%s)' % ';'.join([
            'users=' + ','.join(sorted(str.__str__(u) for u in c.users)),
            'ops=' + ','.join(sorted(str.__str__(u) for u in c.ops)),
            'halfops=' + ','.join(sorted(str.__str__(u) for u in c.halfops)),
            'voices=' + ','.join(sorted(str.__str__(u) for u in c.voices)),
            'bans=' + ','.join(sorted(str.__str__(u) for u in c.bans)),
            'types=' + ','.join(sorted(set(
                type(u).__name__ for s in (c.users, c.ops, c.halfops,
                                           c.voices, c.bans) for u in s))),
            'topic=%r' % (c.topic,),
            'created=%r' % (c.created,),
            'modes=' + repr(list(c.modes.items())),  # insertion order matters
            ])

    def stateSnap(irc):
        st = irc.state
        return (
            [(k, chanSnap(c)) for (k, c) in st.channels.items()],
            list(st.channels),                      # folded keys, in order
            list(st.channels.keys()),
            list(st.nicksToHostmasks.items()),
            list(st.nicksToHostmasks),
            [(k, canon(v)) for (k, v) in st.supported.items()],
            st.ircd,
            irc.nick, irc.prefix, irc.server,
            list(irc.startedSync.items()),
            sorted(st.batches.keys()),
        )

    def call(label, f, *args, **kwargs):
        try:
            r = f(*args, **kwargs)
        except BaseException as e:
            rec(label, 'EXC', type(e).__name__, str(e))
            return None
        rec(label, 'RET', canon(r))
        return r

    # ------------------------------------------------------------------
    # A. pure functions and containers
    # ------------------------------------------------------------------
    alphabet = '+-ovhbklntseqIx'
    argpool = [(), ('Al',), ('Al', '12'), ('*!*@h', 'key', '7'),
               ('-3', 'x', 'y', 'z')]
    for n in (1, 2, 3):
        for combo in itertools.product(alphabet, repeat=n):
            ms = ''.join(combo)
            for args in argpool:
                inp = [ms] + list(args)
                keep = list(inp)
                r = call(('sep', ms, args), ircutils.separateModes, inp)
                assert inp == keep
                if r is not None and n < 3:
                    call(('join', ms, args), ircutils.joinModes, r)
    rnd = random.Random(1010)
    for i in range(3000):
        ms = ''.join(rnd.choice(alphabet) for _ in range(rnd.randint(0, 9)))
        args = tuple(rnd.choice(['a', 'B[', '42', '0x1', ' 5', '1.5', '*!*@*',
                                 '']) for _ in range(rnd.randint(0, 6)))
        call(('sepT', ms, args), ircutils.separateModes, (ms,) + args)
    for bad in ([], (), None, '', [''], ['+o'], ['+l', 'x'], [None], [5],
                ['+o', None], ['+k', 7], '+o nick'):
        call(('sepBad', repr(bad)), ircutils.separateModes, bad)

    # ChannelState unit probes
    CS = irclib.ChannelState
    sigils = ['', '@', '%', '+', '&', '~', '!', '@%', '@+', '%+', '@%+',
              '+@', '~@', '&!', '++', '!%+']
    for sg in sigils:
        for nick in ('', 'nick', 'N[ck', 'a@b', 'x+y', '#c', '@', '+%'):
            c = CS()
            call(('addUser', sg, nick), c.addUser, sg + nick)
            rec('addUser.state', sg, nick, chanSnap(c))
    c = CS()
    for u in ('@Op', '%Half', '+Voice', '@%+All', 'Plain', '~Own{}', '&adm',
              '!ult'):
        c.addUser(u)
    for n in ('op', 'OP', 'half', 'voice', 'all', 'plain', 'OWN[]', 'own{}',
              'nobody', 'Adm', 'ULT'):
        rec('is', n, c.isOp(n), c.isOpPlus(n), c.isVoice(n), c.isVoicePlus(n),
            c.isHalfop(n), c.isHalfopPlus(n))
    for (o, n) in (('op', 'Op2'), ('ALL', 'all'), ('nobody', 'x'),
                   ('own[]', 'Own[]'), ('half', 'voice'), ('plain', 'PLAIN')):
        call(('replaceUser', o, n), c.replaceUser, o, n)
        rec('replaceUser.state', chanSnap(c))
    for n in ('op2', 'VOICE', 'nobody', 'all'):
        call(('removeUser', n), c.removeUser, n)
        rec('removeUser.state', chanSnap(c))
    for m in 'ovhbeq':
        call(('setMode', m), c.setMode, m, 1)
        call(('unsetMode', m), c.unsetMode, m)
    for (m, v) in (('k', 'key'), ('l', 10), ('s', None), ('I', 'x')):
        call(('setMode', m), c.setMode, m, v)
    call('unsetMode.k', c.unsetMode, 'k')
    call('unsetMode.absent', c.unsetMode, 'z')
    rec('modes', chanSnap(c))
    modelines = [
        ('#c', '+o', 'Plain'), ('#c', '-o+v', 'plain', 'PLAIN'),
        ('#c', '+ohv', 'a', 'b', 'c'), ('#c', '-ohv', 'A', 'B', 'C'),
        ('#c', '+b', '*!*@Bad'), ('#c', '+b'), ('#c', '-b', '*!*@bad'),
        ('#c', '-b', '*!*@never'), ('#c', '+e', 'x!*@*'), ('#c', '-e', 'x'),
        ('#c', '+q-q', 'q1', 'q2'), ('#c', '+I', 'inv'), ('#c', '-I', 'inv'),
        ('#c', '+sntk', 'sekrit'), ('#c', '+l', '25'), ('#c', '-l'),
        ('#c', '-k', 'sekrit'), ('#c', '-snt+m'), ('#c', '+l-l+l', '1', '2'),
        ('#c', '+k-k+k', 'a', 'b', 'c'), ('#c', '-z+z-y'), ('#c',),
        ('#c', ''), ('#c', '+'), ('#c', '-'), ('#c', '+o', '42'),
        ('#c', '+v', '007'), ('#c', '+b', '12'), ('#c', '-o', '42'),
        ('#c', '+ooo', 'x'), ('#c', 'o', 'noSign'), ('#c', '+x-x+xk', 'K'),
        ('#c', '+f', '5:10'), ('#c', '+j', '3:4'), ('#c', '+Lq', '#o', 'qq'),
    ]
    for ml in modelines:
        m = ircmsgs.IrcMsg(prefix='srv.example', command='MODE', args=ml)
        call(('chan.doMode', ml), c.doMode, m)
        rec('chan.doMode.state', chanSnap(c))
    d = CS()
    rec('eq', c == c, c == copy.deepcopy(c), c == d, d == CS(), c != d)
    call('eq.other', CS.__eq__, c, object())
    call('eq.none', CS.__eq__, c, None)
    st = call('getstate', c.__getstate__)
    e = CS()
    call('setstate', e.__setstate__, st)
    rec('setstate.eq', e == c, chanSnap(e))
    p = pickle.loads(pickle.dumps(c))
    rec('pickle', p == c, chanSnap(p))

    # containers
    D = ircutils.IrcDict()
    for (k, v) in (('#Foo', 1), ('#foo', 2), ('N[]~', 3), ('n{}^', 4),
                   ('Bar', 5), ('bAR|', 6), ('bar\\', 7)):
        D[k] = v
        rec('IrcDict', list(D), list(D.items()), D.keys(), len(D),
            list(D.values()))
    rec('IrcDict.get', D.get('#FOO'), D.get('zz'), D.get('zz', 9),
        'n[]~' in D, 'BAR|' in D, 'nope' in D, None in D)
    call('IrcDict.del', D.__delitem__, 'N{]^')
    call('IrcDict.del.absent', D.__delitem__, 'N{]^')
    call('IrcDict.getitem.absent', D.__getitem__, 'Missing[')
    call('IrcDict.pop', D.pop, '#FOO')
    call('IrcDict.pop.absent', D.pop, '#FOO')
    call('IrcDict.setdefault', D.setdefault, 'BAR', 99)
    rec('IrcDict.after', list(D), list(D.items()), D.keys(), repr(D))
    rec('IrcDict.eq', D == ircutils.IrcDict(dict(D.items())),
        D == {'Bar': 5}, pickle.loads(pickle.dumps(D)) == D,
        repr(copy.deepcopy(D)))
    P = utils.InsensitivePreservingDict({'Foo': 1, 'BAR': 2})
    P['foo'] = 3
    P[None] = 4
    rec('IPD', list(P), list(P.items()), P.keys(), repr(P), P[None],
        P.get('bar'), repr(utils.InsensitivePreservingDict.fromkeys(
            ['A', 'a', 'b'], 7)), repr(P.__reduce__()))
    S = ircutils.IrcSet(['Al', 'AL', 'b[', 'B{'])
    S.add('c~')
    S.discard('C^')
    S.discard('never')
    call('IrcSet.remove', S.remove, 'never')
    rec('IrcSet', sorted(str.__str__(x) for x in S), 'B[' in S, 'x' in S,
        S.__reduce__()[0].__name__, sorted(S.__reduce__()[1][0]),
        sorted(pickle.loads(pickle.dumps(S))))
    for (a, b) in (('A[', 'a{'), ('A~', 'a^'), ('\\', '|'), ('a', 'b'),
                   ('É', 'é')):
        rec('strEqual', a, b, ircutils.strEqual(a, b), ircutils.toLower(a),
            ircutils.toLower(a, 'ascii'), ircutils.toLower(b, 'rfc1459'),
            ircutils.IrcString(a) == b, hash(ircutils.IrcString(a)) ==
            hash(ircutils.IrcString(b)))
    call('toLower.bad', ircutils.toLower, 'x', 'strict-rfc1459')
    call('strEqual.bad', ircutils.strEqual, 'x', None)
    rec('IrcString.eq', ircutils.IrcString('x') == None,
        ircutils.IrcString('x') != 5, ircutils.IrcString('x').lowered)

    # ------------------------------------------------------------------
    # B. sessions through Irc.feedMsg
    # ------------------------------------------------------------------
    class Recorder(irclib.IrcCallback):
        """Sees every message after the state update, with its tags."""
        def name(self):
            return 'Recorder'
        def __call__(self, irc, msg):
            tags = dict(msg.tags)
            for k in ('receivedAt', 'receivedOn', 'receivedBy'):
                tags.pop(k, None)
            if 'batch' in tags:
                tags['batch'] = (tags['batch'].type, tags['batch'].arguments,
                                 len(tags['batch'].messages))
            rec('CB', str(msg).rstrip('\r\n'), canon(tags),
                canon(msg.channel))

    def newIrc():
        for i in list(world.ircs):
            world.ircs.remove(i)
        irclib.Irc.REQUEST_CAPABILITIES.discard('sasl')
        irc = irclib.Irc('test', callbacks=[])
        class Driver(object):
            def reconnect(self, *args, **kwargs):
                rec('DRIVER.reconnect', args, sorted(kwargs.items()))
            def die(self):
                rec('DRIVER.die')
        irc.driver = Driver()
        irc.addCallback(Recorder())
        origQueue, origSend = irc.queueMsg, irc.sendMsg
        def queueMsg(msg):
            r = origQueue(msg)
            rec('QUEUE', str(msg).rstrip('\r\n'), canon(r))
            return r
        def sendMsg(msg):
            r = origSend(msg)
            rec('SEND', str(msg).rstrip('\r\n'), canon(r))
            return r
        irc.queueMsg = queueMsg
        irc.sendMsg = sendMsg
        return irc

    def feed(irc, line):
        rec('FEED', line)
        try:
            msg = ircmsgs.IrcMsg(line)
        except BaseException as e:
            rec('PARSE-EXC', type(e).__name__, str(e))
            return
        try:
            irc.feedMsg(msg)
        except BaseException as e:
            rec('FEED-EXC', type(e).__name__, str(e))
        rec('STATE', stateSnap(irc))

    def drain(irc):
        out = []
        for i in range(10000):
            m = irc.takeMsg()
            if m is None:
                break
            out.append(str(m).rstrip('\r\n'))
        rec('DRAIN', out)

    NICKS = ['alice', 'Bob', 'carol[]', 'dave|x', 'Eve^', 'frank`', 'G~g',
             'hal\\', 'ivy{2}', 'Jo-e']
    CHANS = ['#chan', '#Other', '&local', '#a[b]', '#x~y', '!12345z', '+plus']

    def flipcase(s, r):
        tr = {'[': '{', ']': '}', '\\': '|', '~': '^',
              '{': '[', '}': ']', '|': '\\', '^': '~'}
        out = []
        for ch in s:
            k = r.random()
            if k < 0.3:
                ch = tr.get(ch, ch.swapcase())
            out.append(ch)
        return ''.join(out)

    class Server(object):
        """A small reference server: keeps its own truth so that the generated
        traffic is mostly conformant, with a sprinkle of nonconformant lines."""
        def __init__(self, seed, irc, opts):
            self.r = random.Random(seed)
            self.irc = irc
            self.opts = opts
            self.users = {}     # nick -> (user, host)
            self.chans = {}     # name -> {nick: set(prefix letters)}
            self.bot = irc.nick
            for n in NICKS:
                self.users[n] = ('u' + n[:2].lower().strip('[]\\|{}^~`'),
                                 'host-%d.example' % len(self.users))
            self.users[self.bot] = ('botid', 'bot.example')
            self.batchn = 0

        def mask(self, n):
            (u, h) = self.users[n]
            return '%s!%s@%s' % (n, u, h)

        def spell(self, s):
            if self.r.random() < self.opts.get('respell', 0.3):
                return flipcase(s, self.r)
            return s

        def welcome(self):
            b = self.bot
            yield ':srv.example 001 %s :Welcome' % b
            yield ':srv.example 002 %s :Your host is srv.example' % b
            if self.opts.get('short004'):
                yield ':srv.example 004 %s srv.example' % b
            else:
                yield (':srv.example 004 %s srv.example ircd-9.9 iowsx '
                       'bklmnopstvhI bklovhI' % b)
            yield (':srv.example 005 %s %s :are supported' %
                   (b, self.opts.get('isupport',
                    'CHANTYPES=#&!+ PREFIX=(ohv)@%+ MODES=4 NICKLEN=30 '
                    'MAXLIST=beI:60 MAXBANS=b:50,e:10 CASEMAPPING=rfc1459 '
                    'EXCEPTS INVEX=I CHANMODES=beI,k,l,imnpst KEYLEN= '
                    'TOPICLEN=x WATCH=128 CHANNELLEN=50')))
            yield (':srv.example 005 %s MAXBANS=30 MAXLIST=b PREFIX=@+ '
                   'PREFIX=(qaohv~&@%%+ :are supported' % b)
            yield ':srv.example 375 %s :- motd' % b
            yield ':srv.example 376 %s :End of MOTD' % b

        def names(self, ch, multi, uhnames):
            members = self.chans.get(ch, {})
            items = []
            order = {'o': '@', 'h': '%', 'v': '+', 'q': '~', 'a': '&',
                     'u': '!'}
            for n in sorted(members):
                pl = [order[p] for p in 'qauohv' if p in members[n]]
                if not multi:
                    pl = pl[:1]
                who = self.mask(n) if uhnames else n
                items.append(''.join(pl) + who)
            kind = self.r.choice('=@*')
            self.r.shuffle(items)
            for i in range(0, max(len(items), 1), 4):
                yield ':srv.example 353 %s %s %s :%s' % (
                    self.bot, kind, self.spell(ch), ' '.join(items[i:i + 4]))
            yield ':srv.example 366 %s %s :End of NAMES' % (self.bot, ch)

        def step(self):
            r = self.r
            nick = r.choice(sorted(self.users))
            kind = r.choice(['join', 'join', 'join', 'part', 'kick', 'quit',
                             'nick', 'nick', 'mode', 'mode', 'mode', 'topic',
                             'names', 'who', 'whox', 'chghost', 'away',
                             '324', '329', '367', '332', 'botjoin', 'botjoin',
                             'botnick', 'umode', 'odd', 'batch', '315',
                             'privmsg', 'botpart', 'botkick'])
            b = self.bot
            if kind in ('join', 'botjoin'):
                if kind == 'botjoin':
                    nick = b
                chs = r.sample(CHANS, r.randint(1, 3))
                if nick != b:
                    chs = [c for c in chs if c in self.chans] or chs[:1]
                for c in chs:
                    self.chans.setdefault(c, {})[nick] = set()
                tgt = ','.join(self.spell(c) for c in chs)
                if r.random() < 0.3:
                    yield ':%s JOIN %s acct :Real Name' % (self.mask(nick),
                                                          tgt)
                else:
                    yield ':%s JOIN %s' % (self.mask(nick), tgt)
                if nick == b:
                    for c in chs:
                        for line in self.names(c, r.random() < 0.6,
                                               r.random() < 0.5):
                            yield line
            elif kind in ('part', 'botpart'):
                if kind == 'botpart':
                    nick = b
                mine = [c for c in self.chans if nick in self.chans[c]]
                chs = r.sample(mine, min(len(mine), r.randint(1, 2)))
                if r.random() < 0.2:
                    chs.append(r.choice(CHANS))
                if not chs:
                    chs = ['#nowhere']
                for c in chs:
                    if c in self.chans:
                        self.chans[c].pop(nick, None)
                        if nick == b:
                            del self.chans[c]
                tgt = ','.join(self.spell(c) for c in chs)
                yield ':%s PART %s%s' % (self.mask(nick), tgt,
                                         r.choice(['', ' :bye']))
            elif kind in ('kick', 'botkick'):
                cands = [c for c in self.chans if self.chans[c]]
                if not cands:
                    yield ':%s KICK #nowhere %s :x' % (self.mask(nick), nick)
                    return
                c = r.choice(sorted(cands))
                victims = r.sample(sorted(self.chans[c]),
                                   min(len(self.chans[c]), r.randint(1, 3)))
                if kind == 'botkick' and b in self.chans[c]:
                    victims.insert(r.randint(0, len(victims)), b)
                gone = []
                for v in victims:
                    gone.append(v)
                    if v == b:
                        break
                for v in gone:
                    self.chans[c].pop(v, None)
                if b in gone:
                    del self.chans[c]
                yield ':%s KICK %s %s%s' % (
                    self.mask(nick), self.spell(c),
                    ','.join(self.spell(v) for v in victims),
                    r.choice(['', ' :out', ' reason']))
            elif kind == 'quit':
                if nick == b:
                    return
                for c in self.chans:
                    self.chans[c].pop(nick, None)
                yield ':%s QUIT%s' % (self.mask(nick),
                                      r.choice(['', ' :Ping timeout']))
                # the user comes back later under the same name
            elif kind in ('nick', 'botnick'):
                if kind == 'botnick':
                    nick = b
                k = r.random()
                if k < 0.4:
                    new = flipcase(nick, r)
                elif k < 0.8:
                    new = nick.rstrip('_0123456789') + r.choice(
                        ['_', '1', '22', ''])
                else:
                    new = r.choice(sorted(self.users))
                if new != nick and new in self.users:
                    return
                line = ':%s NICK %s' % (self.mask(nick), new)
                if new != nick:
                    self.users[new] = self.users.pop(nick)
                    for c in self.chans:
                        if nick in self.chans[c]:
                            self.chans[c][new] = self.chans[c].pop(nick)
                    if nick == b:
                        self.bot = new
                yield line
            elif kind == 'mode':
                if not self.chans:
                    yield ':%s MODE #nowhere +o %s' % (self.mask(nick), nick)
                    return
                c = r.choice(sorted(self.chans))
                ms = []
                args = []
                for i in range(r.randint(1, 5)):
                    sign = r.choice('+-')
                    m = r.choice('oooovvvhhbbbkklsntmieIqx')
                    if r.random() < 0.5 or not ms:
                        ms.append(sign)
                    cur = [x for x in ms if x in '+-'][-1]
                    ms.append(m)
                    if m in 'ovh':
                        who = r.choice(sorted(self.chans[c]) or [nick])
                        args.append(self.spell(who))
                        if who in self.chans[c]:
                            if cur == '+':
                                self.chans[c][who].add(m)
                            else:
                                self.chans[c][who].discard(m)
                    elif m in 'beIq':
                        args.append(r.choice(['*!*@Bad.example', '*!*@bad.EXAMPLE',
                                              'x[!*@*', 'X{!*@*', '$a:acct',
                                              '1234']))
                    elif m == 'k':
                        args.append(r.choice(['key', 'KEY', '99']))
                    elif m == 'l' and cur == '+':
                        args.append(r.choice(['10', '0', 'x']))
                if r.random() < 0.1 and args:
                    args.pop()
                yield ':%s MODE %s %s%s' % (
                    self.mask(nick), self.spell(c), ''.join(ms),
                    ''.join(' ' + a for a in args))
            elif kind == 'umode':
                yield ':%s MODE %s %s' % (b, self.spell(b),
                                          r.choice(['+i', '-i+w', '+Zi']))
            elif kind == 'topic':
                c = r.choice(sorted(self.chans) + ['#nowhere'])
                k = r.random()
                if k < 0.15:
                    yield ':%s TOPIC %s' % (self.mask(nick), self.spell(c))
                else:
                    yield ':%s TOPIC %s :%s' % (
                        self.mask(nick), self.spell(c),
                        r.choice(['', 'new topic', 'Topic: with colon',
                                  ' lead']))
            elif kind == '332':
                c = r.choice(sorted(self.chans) + ['#nowhere'])
                yield ':srv.example 332 %s %s :the %s topic' % (
                    b, self.spell(c), c)
                yield ':srv.example 333 %s %s %s 1500000000' % (
                    b, c, self.mask(nick))
            elif kind == 'names':
                c = r.choice(sorted(self.chans) + ['#nowhere'])
                for line in self.names(c, r.random() < 0.5, r.random() < 0.5):
                    yield line
            elif kind == 'who':
                (u, h) = self.users[nick]
                yield ':srv.example 352 %s %s %s %s srv.example %s H@ :0 Real' % (
                    b, r.choice(sorted(self.chans) + ['*']), u, h,
                    self.spell(nick))
            elif kind == 'whox':
                (u, h) = self.users[nick]
                k = r.random()
                if k < 0.7:
                    yield (':srv.example 354 %s 1 %s 10.0.0.1 %s %s H@ acct '
                           ':Real Name' % (b, u, h, self.spell(nick)))
                elif k < 0.85:
                    yield (':srv.example 354 %s 2 %s 10.0.0.1 %s %s H@ acct '
                           ':Real Name' % (b, u, h, nick))
                else:
                    yield ':srv.example 354 %s 1 %s %s' % (b, u, nick)
            elif kind == 'chghost':
                (u, h) = self.users[nick]
                nu = r.choice([u, 'new' + u])
                nh = r.choice([h, 'cloak/%s' % u, 'V6:HOST::1'])
                self.users[nick] = (nu, nh)
                old = '%s!%s@%s' % (nick, u, h)
                yield ':%s CHGHOST %s %s' % (old, nu, nh)
            elif kind == 'away':
                yield ':%s AWAY%s' % (self.mask(nick),
                                      r.choice(['', ' :gone fishing']))
            elif kind == '324':
                c = r.choice(sorted(self.chans) + ['#nowhere'])
                yield ':srv.example 324 %s %s %s' % (
                    b, self.spell(c),
                    r.choice(['+nt', '+ntk key', '+ntlk 5 key', '+', '',
                              '+s-n', '+ov a b', '-k+l * 7', '+imf 4:5',
                              '-ov+s a b']))
            elif kind == '329':
                c = r.choice(sorted(self.chans) + ['#nowhere'])
                yield ':srv.example 329 %s %s %s' % (
                    b, self.spell(c), r.choice(['1500000000', '0', 'abc']))
            elif kind == '367':
                c = r.choice(sorted(self.chans) + ['#nowhere'])
                yield ':srv.example 367 %s %s %s %s 1356276459' % (
                    b, self.spell(c),
                    r.choice(['*!*@Listed', '*!*@listed', 'q[!*@*']),
                    self.mask(nick))
                yield ':srv.example 368 %s %s :End of ban list' % (b, c)
            elif kind == '315':
                c = r.choice(sorted(self.chans) + ['#nowhere'] +
                             [k for (k, __) in self.irc.startedSync.items()])
                yield ':srv.example 315 %s %s :End of WHO' % (b, self.spell(c))
            elif kind == 'privmsg':
                c = r.choice(sorted(self.chans) + [b])
                yield ':%s PRIVMSG %s :hello there' % (self.mask(nick), c)
            elif kind == 'batch':
                self.batchn += 1
                name = 'b%d' % self.batchn
                yield ':srv.example BATCH +%s netsplit a.example b.example' % name
                for n in r.sample(sorted(self.users), 2):
                    if n == b:
                        continue
                    for c in self.chans:
                        self.chans[c].pop(n, None)
                    yield '@batch=%s :%s QUIT :a.example b.example' % (
                        name, self.mask(n))
                yield ':srv.example BATCH -%s' % name
            elif kind == 'odd':
                yield r.choice([
                    ':srv.example 353 %s = #chan' % b,
                    ':srv.example 353 %s #chan :a b' % b,
                    ':srv.example 353 %s = #odd :@ + @%%' % b,
                    ':srv.example 353 %s @ #odd2 :' % b,
                    ':srv.example 332 %s #nowhere :t' % b,
                    ':%s KICK #nowhere' % self.mask(nick),
                    ':%s KICK #chan' % self.mask(nick),
                    ':srv.example JOIN #chan',
                    'JOIN #noprefix',
                    ':%s JOIN' % self.mask(nick),
                    ':%s PART' % self.mask(nick),
                    ':%s NICK' % self.mask(nick),
                    ':%s TOPIC' % self.mask(nick),
                    ':%s MODE' % self.mask(nick),
                    ':%s MODE #chan' % self.mask(nick),
                    ':%s MODE #newchan +nt' % self.mask(nick),
                    ':srv.example MODE #chan +o' ,
                    ':%s CHGHOST onlyuser' % self.mask(nick),
                    ':srv.example CHGHOST u h',
                    ':srv.example 324 %s' % b,
                    ':srv.example 329 %s #chan' % b,
                    ':srv.example 367 %s #chan' % b,
                    ':srv.example 367 %s' % b,
                    ':srv.example 352 %s #chan u h' % b,
                    ':srv.example 315 %s' % b,
                    ':srv.example BATCH ?x',
                    ':srv.example BATCH -unknown',
                    '@batch=nope :%s PRIVMSG #chan :x' % self.mask(nick),
                    ':srv.example 005 %s PREFIX=(ov@+ MAXLIST=b MAXBANS=e:1 '
                    'MODES=x =v A= :are supported' % b,
                    ':srv.example 004 %s' % b,
                    ':srv.example 004 %s srv' % b,
                    ':srv.example 005 %s CHANTYPES :are supported' % b,
                    ':srv.example 005 %s CHANTYPES=# CHANNELLEN=6 :are supported' % b,
                    ':srv.example 005 %s CHANTYPES=#&!+ CHANNELLEN=50 :are supported' % b,
                    ':srv.example 433 * %s :Nickname is already in use' % b,
                    ':srv.example 499 %s :Unknown error numeric' % b,
                    ':%s ERROR :something' % self.mask(nick),
                    'ERROR :Closing Link: bot (too fast)',
                    'ERROR :Reconnecting too fast, throttled',
                    'PING :srv.example',
                    ':%s!other@else PRIVMSG %s :same nick other prefix' % (b, b),
                    ':%s PRIVMSG %s :nick instead of prefix' % (b, b),
                ])

    def session(seed, steps, opts):
        rec('SESSION', seed, steps, sorted(opts.items()))
        irc = newIrc()
        srv = Server(seed, irc, opts)
        drain(irc)
        for line in srv.welcome():
            feed(irc, line)
        drain(irc)
        for i in range(steps):
            for line in srv.step():
                feed(irc, line)
            if srv.r.random() < 0.1:
                drain(irc)
            if opts.get('reset') and srv.r.random() < 0.01:
                rec('RESET')
                irc.reset()
                srv.chans.clear()
                srv.bot = irc.nick
                srv.users.setdefault(srv.bot, ('botid', 'bot.example'))
                rec('STATE', stateSnap(irc))
                for line in srv.welcome():
                    feed(irc, line)
        # derived observables at the end
        st = irc.state
        call('copy.eq', lambda: (st.copy() == st, st.copy() != st))
        call('reduce', lambda: [canon(x) for x in st.__reduce__()[1][1:]])
        for c in CHANS + ['#nowhere']:
            call(('getTopic', c), st.getTopic, flipcase(c, srv.r))
        for n in sorted(srv.users):
            call(('nickToHostmask', n), st.nickToHostmask, flipcase(n, srv.r))
        drain(irc)
        feed(irc, 'ERROR :Closing Link: bot (Quit)')
        feed(irc, 'ERROR :Reconnecting too fast, throttled')
        irc.zombie = True
        feed(irc, ':%s JOIN #zombie' % irc.prefix)
        irc.zombie = False
        return irc

    session(1, 700, {})
    session(2, 700, {'respell': 0.0})
    session(3, 500, {'respell': 0.8, 'short004': True, 'reset': True})
    session(4, 500, {'isupport': 'CHANTYPES=# PREFIX=(ov)@+ CASEMAPPING=ascii',
                     'reset': True})

    # non-default configuration: follow identification through nick changes
    conf.supybot.followIdentificationThroughNickChanges.setValue(True)
    try:
        for (name, mask) in (('alice', 'alice!ual@host-0.example'),
                             ('bob', 'Bob!ubo@host-1.example')):
            u = ircdb.users.newUser()
            u.name = name
            u.addAuth(mask)
            u.addAuth(mask.replace('example', 'EXAMPLE'))
            ircdb.users.setUser(u)
        irc = session(5, 400, {})
        for uid in (1, 2):
            u = ircdb.users.getUser(uid)
            rec('AUTH', u.name, [m for (__, m) in u.auth])
    finally:
        conf.supybot.followIdentificationThroughNickChanges.setValue(False)

    # ------------------------------------------------------------------
    # C. direct handler calls: error paths without the firewall
    # ------------------------------------------------------------------
    irc = newIrc()
    st = irc.state
    for line in (':srv.example 001 bot :hi',
                 ':bot!botid@bot.example JOIN #Chan,#two',
                 ':srv.example 353 bot = #chan :@bot +alice %Bob @+carol[]'):
        feed(irc, line)
    direct = [
        ('doKick', ':a!b@c KICK #missing bot'),
        ('doKick', ':a!b@c KICK #chan'),
        ('doKick', ':a!b@c KICK #CHAN alice,BOT,Bob'),
        ('doKick', ':a!b@c KICK #two nobody,,alice'),
        ('do332', ':srv 332 bot #missing :t'),
        ('do332', ':srv 332 bot #two'),
        ('do353', ':srv 353 bot #two :x'),
        ('do353', ':srv 353 bot = #two :x y z extra'),
        ('do353', ':srv 353 bot = #new :@ x'),
        ('do353', ':srv 353 bot @ #TWO :~&@%+q!u@h +w!u@h plain'),
        ('do352', ':srv 352 bot #two u h'),
        ('do352', ':srv 352 bot #two u h srv N H :0 r'),
        ('do354', ':srv 354 bot 1 u ip h N H acct :gecos'),
        ('do354', ':srv 354 bot 1 u ip h N H acct'),
        ('do354', ':srv 354 bot 7 u ip h N H acct :gecos'),
        ('doChghost', ':n!u@h CHGHOST nu'),
        ('doChghost', ':n!u@h CHGHOST nu nh extra'),
        ('doChghost', ':n!u@h CHGHOST nu nh'),
        ('doChghost', ':srv CHGHOST nu nh'),
        ('doJoin', ':n!u@h JOIN'),
        ('doJoin', ':n!u@h JOIN #two,#three,,#TWO'),
        ('doJoin', ':srv JOIN #four'),
        ('doJoin', 'JOIN #five'),
        ('doPart', ':n!u@h PART'),
        ('doPart', ':n!u@h PART #three,#missing,#two'),
        ('doPart', ':BOT!u@h PART #three,#three'),
        ('do367', ':srv 367 bot #two'),
        ('do367', ':srv 367 bot'),
        ('do367', ':srv 367 bot #missing x!*@*'),
        ('do367', ':srv 367 bot #TWO x!*@* setter 1'),
        ('doMode', ':n!u@h MODE'),
        ('doMode', ':n!u@h MODE #two'),
        ('doMode', ':n!u@h MODE #brandnew +o n'),
        ('doMode', ':n!u@h MODE bot +i'),
        ('doMode', ':n!u@h MODE #two +ok-v n'),
        ('do324', ':srv 324 bot'),
        ('do324', ':srv 324 bot #missing +nt'),
        ('do324', ':srv 324 bot #two'),
        ('do324', ':srv 324 bot #two +ntk-s+ov key a b'),
        ('do324', ':srv 324 bot #two -kn+l key 5'),
        ('do329', ':srv 329 bot #two'),
        ('do329', ':srv 329 bot #two notint'),
        ('do329', ':srv 329 bot #missing notint'),
        ('do329', ':srv 329 bot #two 12345'),
        ('doTopic', ':n!u@h TOPIC'),
        ('doTopic', ':n!u@h TOPIC #two'),
        ('doTopic', ':n!u@h TOPIC #missing :x'),
        ('doTopic', ':n!u@h TOPIC #TWO :set'),
        ('doNick', ':n!u@h NICK'),
        ('doNick', ':n!u@h NICK N'),
        ('doNick', ':srv NICK other'),
        ('doNick', 'NICK noprefix'),
        ('doQuit', ':N!u@h QUIT'),
        ('doQuit', ':srv QUIT'),
        ('doQuit', 'QUIT'),
        ('doAway', ':alice!u@h AWAY'),
        ('doAway', 'AWAY'),
        ('do004', ':srv 004 bot'),
        ('do004', ':srv 004'),
        ('do005', ':srv 005'),
        ('do005', ':srv 005 bot PREFIX=(ov@+ PREFIX=(o)@+ PREFIX=@ MAXLIST=b:x '
                  'MAXLIST=bq:5,e:6 MAXBANS=5 MAXBANS=e:5 MAXBANS=be:7 '
                  'MODES= MODES=3 NICKLEN=z X=a=b Y :are supported'),
        ('doBatch', ':srv BATCH +x t a b'),
        ('doBatch', ':srv BATCH +y'),
        ('doBatch', ':srv BATCH -x'),
        ('doBatch', ':srv BATCH -x'),
        ('doBatch', ':srv BATCH x'),
        ('doBatch', ':srv BATCH'),
    ]
    for (meth, line) in direct:
        m = ircmsgs.IrcMsg(line)
        call(('direct', meth, line), getattr(st, meth), irc, m)
        rec('direct.tags', canon(dict(m.tags)))
        rec('direct.state', stateSnap(irc))
    for (meth, line) in [
            ('doJoin', ':bot!botid@bot.example JOIN'),
            ('doJoin', ':bot!botid@bot.example JOIN #a,#b,#C'),
            ('doJoin', ':BOT!botid@bot.example JOIN #notme'),
            ('doJoin', ':other!botid@bot.example JOIN #notme'),
            ('doJoin', 'JOIN #noprefix'),
            ('do315', ':srv 315 bot'),
            ('do315', ':srv 315 bot #c :End'),
            ('do315', ':srv 315 bot #C :End again'),
            ('do315', ':srv 315 bot #unknown :End'),
            ('doChghost', ':bot!botid@bot.example CHGHOST nu'),
            ('doChghost', ':bot!botid@bot.example CHGHOST nu nh'),
            ('doChghost', ':Bot!botid@bot.example CHGHOST xu xh'),
            ('doChghost', ':srv CHGHOST xu xh'),
            ('doNick', ':bot!nu@nh NICK'),
            ('doNick', ':srv NICK x'),
            ('doNick', ':bot!nu@nh NICK Bot2'),
            ('doNick', ':bot!nu@nh NICK Bot3'),
            ('doNick', ':Bot2!nu@nh NICK bot'),
            ('doError', ':srv ERROR :nothing special'),
            ]:
        m = ircmsgs.IrcMsg(line)
        call(('irc.direct', meth, line), getattr(irc, meth), m)
        rec('irc.direct.state', stateSnap(irc))
    drain(irc)
    rec('isChannel', [(c, irc.isChannel(c)) for c in CHANS + ['nick', '', '#']])

    blob = '\n'.join(REC).encode('utf-8', 'backslashreplace')
    digest = hashlib.sha256(blob).hexdigest()
    if '--dump' in sys.argv:
        with open(sys.argv[sys.argv.index('--dump') + 1], 'wb') as fd:
            fd.write(blob)
    if '--record' in sys.argv:
        print('records:', len(REC), 'digest:', digest)
        code = 0
    elif digest == EXPECTED:
        print('PASS')
        code = 0
    else:
        print('FAIL: digest %s != expected %s (%d records)'
              % (digest, EXPECTED, len(REC)))
        code = 1
    shutil.rmtree(base, ignore_errors=True)
except BaseException:
    traceback.print_exc()
    print('FAIL: exception in demo')
    code = 1
sys.stdout.flush()
os._exit(code)
