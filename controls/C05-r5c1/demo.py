"""C05 control demo: the parse/serialise property holds, and (digest of every
observable result over a fixed pseudo-random corpus + hand-written edge cases)
nothing observable changed.

 1. build(prefix, command, args, tags) -> str -> IrcMsg(line): same prefix,
    command, args, tags; str(parsed) == line.
 2. escape/unescape of tag values is the identity; unescape of arbitrary text
    (invalid escapes, lone trailing backslash) matches a reference implementation.
 3. IrcMsg(line) for arbitrary text: a message or MalformedIrcMsg, nothing else;
    str(IrcMsg(line)) is the line; drivers.parseMsg agrees (None when malformed).
"""
import os, sys, random, hashlib, tempfile, traceback

ROOT = os.getcwd()
sys.path.insert(0, ROOT)
os.chdir(tempfile.mkdtemp(prefix='c05c1'))   # supybot creates logs/ etc. in cwd

# sha256 over the repr of every result below, computed on the unmodified tree
GOLDEN = '52e9d86846e3882062710ab7c7d9239080b498fee7000b110e6bb1d1e504ba9b'

failures = []
digest = hashlib.sha256()

def violation(s):
    failures.append(s)
    if len(failures) <= 20:
        print('  VIOLATION:', s)

def record(*things):
    digest.update(repr(things).encode('utf-8', 'backslashreplace'))
    digest.update(b'\0')

def ref_unescape(s):
    out = []
    i = 0
    table = {'\\': '\\', 's': ' ', ':': ';', 'r': '\r', 'n': '\n'}
    while i < len(s):
        c = s[i]
        if c != '\\':
            out.append(c)
            i += 1
        elif i + 1 == len(s):
            i += 1                      # lone backslash at the end: dropped
        elif s[i+1] == '\n':
            i += 1                      # '.' does not match a newline: lone backslash
        else:
            out.append(table.get(s[i+1], s[i+1]))
            i += 2
    return ''.join(out)

def ref_serialise(prefix, command, args, tags, escape):
    words = []
    if tags:
        words.append('@' + ';'.join(
            k if v is None else k + '=' + escape(v) for (k, v) in tags.items()))
    if prefix:
        words.append(':' + prefix)
    words.append(command)
    words.extend(args[:-1])
    if args:
        words.append(':' + args[-1])
    return ' '.join(words) + '\r\n'

def main():
    from supybot import conf, log
    conf.supybot.log.stdout.setValue(False)
    from supybot import drivers, ircmsgs
    rnd = random.Random(20260930)

    prefixes = ['', 'nick!user@host', 'irc.example.org', 'a!b@c!d', 'x@y', u'n\xefck!\xfc@h\xf4st',
                'we!ird@2001:db8::1', 'tab\there!u@h', ':colon!u@h']
    commands = ['PRIVMSG', 'NOTICE', '001', '005', 'cap', 'JOIN', 'TAGMSG', 'X', u'\xc9']
    mid_alphabet = u'abcXYZ019#&+!@:;=\\,.-_\t\x1d\xa0\xe9\u2603\u3000'
    trail_alphabet = mid_alphabet + u'    :::\x01\x02\x03'
    keys = ['a', 'b', 'msgid', 'account', '+draft/reply', '+example.com/k', 'example.com/x-y',
            'batch', 'label', u'cl\xe9']
    val_alphabet = u'ab0 ;;\\\\\r\n:=s rn@\xe9\u2603\t'

    def word(alphabet, lo, hi):
        return ''.join(rnd.choice(alphabet) for _ in range(rnd.randint(lo, hi)))

    def middle():
        while True:
            w = word(mid_alphabet, 1, 8)
            if not w.startswith(':'):
                return w

    def tagdict():
        n = rnd.choice([0, 0, 1, 1, 2, 3, 5])
        d = {}
        for k in rnd.sample(keys, n):
            d[k] = rnd.choice([None, '', word(val_alphabet, 0, 10), word(val_alphabet, 1, 4),
                               '\\', '\\\\', '\\s', '\\:', 'a\\', ' ', ';', '\r\n'])
        return d

    # ---- 1. build -> serialise -> parse
    built = []
    for prefix in prefixes:                       # hand-written corners
        for args in [(), ('',), ('x',), (':x',), ('a', ''), ('a', ' '), ('a', ':'), ('a', ' :b'),
                     ('a', 'b :c'), ('#c', 'x', 'y z'), ('a:b', '::'), ('a', 'b', 'c', 'd e  f ')]:
            for tags in [None, {}, {'a': None}, {'a': ''}, {'a': 'b c;d\\e\r\n'}, {'+x/y': '\\s', 'z': None}]:
                built.append((prefix, 'PRIVMSG', args, tags))
    for _ in range(4000):
        nargs = rnd.choice([0, 1, 1, 2, 2, 2, 3, 6, 15])
        args = [middle() for _ in range(max(0, nargs - 1))]
        if nargs:
            args.append(rnd.choice(['', ' ', ':', word(trail_alphabet, 0, 20), word(trail_alphabet, 1, 3)]))
        built.append((rnd.choice(prefixes), rnd.choice(commands), tuple(args),
                      rnd.choice([None, tagdict(), tagdict()])))
    for (prefix, command, args, tags) in built:
        kw = {} if tags is None else {'server_tags': dict(tags)}
        m = ircmsgs.IrcMsg(prefix=prefix, command=command, args=args, **kw)
        line = str(m)
        if line != ref_serialise(prefix, command, args, tags, ircmsgs.escape_server_tag_value):
            violation('serialise%r -> %r' % ((prefix, command, args, tags), line))
        if str(m) is not line or len(m) != len(line):
            violation('str() not stable for %r' % (m,))
        try:
            p = ircmsgs.IrcMsg(line)
        except BaseException as e:
            violation('parse of %r raised %s: %s' % (line, type(e).__name__, e))
            continue
        want = {k: (v or None) for (k, v) in (tags or {}).items()}
        if (p.prefix, p.command, p.args, p.server_tags) != (prefix, command, tuple(args), want):
            violation('round trip %r -> %r -> %r' % ((prefix, command, args, tags), line, p))
        if str(p) != line:
            violation('reserialise %r -> %r' % (line, str(p)))
        q = drivers.parseMsg(line)
        record(line, p.prefix, p.command, p.args, sorted(p.server_tags.items(), key=repr),
               p.nick, p.user, p.host, q is not None and q.args, repr(m), repr(p))

    # ---- 2. escaping
    for _ in range(3000):
        v = word(val_alphabet, 0, 12)
        e = ircmsgs.escape_server_tag_value(v)
        if any(c in e for c in ' ;\r\n') or ircmsgs.unescape_server_tag_value(e) != v:
            violation('escape %r -> %r -> %r' % (v, e, ircmsgs.unescape_server_tag_value(e)))
        u = ircmsgs.unescape_server_tag_value(v)           # v taken as an escaped text
        if u != ref_unescape(v):
            violation('unescape %r -> %r, reference %r' % (v, u, ref_unescape(v)))
        record(v, e, u)
    for s in ['', 'a', 'a=b', 'a=', '=', '=b', 'a;b', 'a=b;a=c', ';', 'a=b=c', 'a=\\', 'a=\\\\', 'a=\\s\\:\\r\\n\\x',
              '+a/b=c;;d', 'a==', u'\xe9=\u2603']:
        record(s, sorted(ircmsgs._parse_server_tags(s).items(), key=repr))
    for d in [{'a': None}, {'a': '', 'b': None, 'c': ' ;\\'}, {}]:
        record(ircmsgs._format_server_tags(d))
    for s in ['', ' ', 'a', ' a', 'a ', 'a  b', '  a   b  c ', 'a\tb c', 'a b c d']:
        for maxsplit in (-1, 0, 1, 2):
            record(s, maxsplit, ircmsgs.split_args(s, maxsplit), ircmsgs.split_args(s))

    # ---- 3. arbitrary lines
    line_alphabet = u'@@::  ==;;\\\\abTZ0-.!\r\n\t#\xe9\u2603+/'
    lines = ['', ' ', ':', '@', '@ ', ': ', ' :', ' : ', ':a', ':a ', ':a b', ':a  b', ':a b :', ':a b c :d e',
             '@a', '@a b', '@a :b', '@a :b c', '@ a', '@;= a', '@a=b;c :p CMD x :y z', 'PING', 'PING x', 'PING :x',
             'PING x\r\n', 'PING x\n', 'PING x\r', 'PING :x \r\n', 'PING x \r\n', 'PING\r\n\r\n', 'A B C D E F',
             ':p 005 me a=b :are supported', ':p!u@2001:db8::1 JOIN #c', 'CMD ::', 'CMD : :', 'CMD a: b',
             '@time=2011-10-19T16:40:51.620Z :n!u@h PRIVMSG #c :x', '@time=2011-10-19T16:40:51Z PING',
             '@time=x PING', '@time PING', '@time= PING', '@time=2011-10-19T16:40:51.620Z', '\r\n', '\n', ' \r\n',
             u':\xe9 \u2603 :\u3000', '::', ':: :', ' PING', '  :p  CMD   a   :b  ']
    for _ in range(6000):
        lines.append(word(line_alphabet, 0, 25))
    for line in lines:
        outcome = None
        try:
            m = ircmsgs.IrcMsg(line)
            outcome = (m.prefix, m.command, m.args, sorted(m.server_tags.items(), key=repr),
                       m.nick, m.user, m.host, str(m))
            expect = line if line.endswith('\n') else line + '\n'
            if str(m) != expect:
                violation('IrcMsg(%r) reserialised as %r' % (line, str(m)))
        except ircmsgs.MalformedIrcMsg as e:
            outcome = ('malformed', str(e))
        except BaseException as e:
            violation('IrcMsg(%r) raised %s: %s' % (line, type(e).__name__, e))
        try:
            q = drivers.parseMsg(line)
            stripped = line.strip()
            if q is not None:
                r = ircmsgs.IrcMsg(stripped)
                if (q.prefix, q.command, q.args, q.server_tags) != (r.prefix, r.command, r.args, r.server_tags) \
                        or str(q) != stripped + '\n':
                    violation('parseMsg(%r) -> %r' % (line, q))
                qo = (q.prefix, q.command, q.args, sorted(q.server_tags.items(), key=repr), str(q))
            else:
                qo = None
                if stripped:
                    try:
                        ircmsgs.IrcMsg(stripped)
                        violation('parseMsg(%r) is None but the line parses' % (line,))
                    except ircmsgs.MalformedIrcMsg:
                        pass
        except BaseException as e:
            qo = 'raised'
            violation('parseMsg(%r) raised %s: %s' % (line, type(e).__name__, e))
        record(line, outcome, qo)

    # ---- msg= constructor and the serialisation cache
    base = ircmsgs.IrcMsg('@a=b :n!u@h PRIVMSG #c :hello there')
    for kw in [{}, {'args': ('#d', 'x y')}, {'prefix': 'srv'}, {'command': 'NOTICE'}]:
        m = ircmsgs.IrcMsg(msg=base, **kw)
        record(str(m), repr(m), m == ircmsgs.IrcMsg(str(m)))
        p = ircmsgs.IrcMsg(str(m))
        if (p.prefix, p.command, p.args, p.server_tags) != (m.prefix, m.command, m.args, m.server_tags):
            violation('msg= round trip %r -> %r' % (m, p))

try:
    main()
except BaseException:
    traceback.print_exc()
    failures.append('unexpected exception')

got = digest.hexdigest()
if not failures and got != GOLDEN:
    failures.append('digest')
    print('  results differ from the unmodified tree: digest %s, expected %s' % (got, GOLDEN))
if failures:
    print('FAIL (%d violations)' % len(failures))
    code = 1
else:
    print('PASS')
    code = 0
sys.stdout.flush()
sys.stderr.flush()
os._exit(code)
