"""C10 control demo: a small reference IRC server (several users, several
channels) produces random but conformant event sequences -- multi-target
JOIN/PART, multi-user KICK, QUIT, NICK (also changes of case only, also the
bot's own), MODE strings mixing +/- with and without parameters, TOPIC (also
cleared), NAMES with multi-prefix and userhost-in-names split over several
353 lines, WHO/WHOX, 324/329/367, CHGHOST, reconnects.  Names in events are
spelled in random case variants (rfc1459).  After every event the bot's
view (irc.state) must equal the server's."""
import os, sys, random
sys.path.insert(0, os.getcwd())
import supybot.conf as conf
import supybot.irclib as irclib
import supybot.ircmsgs as ircmsgs
import supybot.ircutils as ircutils
import logging
logging.disable(logging.CRITICAL)

_UP = 'ABCDEFGHIJKLMNOPQRSTUVWXYZ[]\\~'
_LO = 'abcdefghijklmnopqrstuvwxyz{}|^'
def fold(s):
    return ''.join(_LO[_UP.index(c)] if c in _UP else c for c in s)

def variant(rng, s):
    """Another spelling of the same name (the first character is kept)."""
    out = [s[0]]
    for c in s[1:]:
        if rng.random() < 0.4:
            if c in _UP:
                c = _LO[_UP.index(c)]
            elif c in _LO:
                c = _UP[_LO.index(c)]
        out.append(c)
    return ''.join(out)

class Chan(object):
    def __init__(self, name):
        self.name = name
        self.members = {}      # folded nick -> set of 'o', 'h', 'v'
        self.topic = ''
        self.modes = {}
        self.bans = {}         # folded mask -> mask

class Server(object):
    NICKS = ['Alice', 'bob', 'Carol[x]', 'dave^', 'Erin|e', 'F\\rank', 'gus{}']
    CHANS = ['#one', '#Two[b]', '#t^hree', '&local|x', '#four\\']
    def __init__(self, rng, irc):
        self.rng = rng
        self.irc = irc
        self.lines = []
        self.connect()

    # -- plumbing ---------------------------------------------------------
    def send(self, line):
        self.lines.append(line)
        self.irc.feedMsg(ircmsgs.IrcMsg(line))
    def mask(self, nick):
        (spelling, user, host) = self.users[fold(nick)]
        return '%s!%s@%s' % (spelling, user, host)
    def v(self, name):
        return variant(self.rng, name)
    def visible(self, nick):
        return any(fold(nick) in c.members for c in self.botchans())
    def botchans(self):
        return [c for c in self.chans.values() if fold(self.bot) in c.members]

    def connect(self):
        self.bot = 'Bot[1]'
        self.users = {fold(self.bot): (self.bot, 'limnoria', 'bot.host')}
        for (i, nick) in enumerate(self.NICKS):
            self.users[fold(nick)] = (nick, 'u%d' % i, 'host%d.example' % i)
        self.chans = {}
        self.known = {}        # folded nick -> hostmask the bot was told
        self.send(':srv 001 %s :Welcome' % self.bot)
        self.send(':srv 005 %s CHANTYPES=#& PREFIX=(ohv)@%%+ CASEMAPPING='
                  'rfc1459 :are supported by this server' % self.bot)
        self.send(':srv 005 %s CHANNELLEN=40 NICKLEN=20 MODES=6 '
                  ':are supported by this server' % self.bot)
        self.send(':srv 376 %s :End of MOTD' % self.bot)

    # -- events -----------------------------------------------------------
    def ev_reconnect(self):
        self.lines.append('-- reconnect --')
        self.irc.reset()
        self.connect()

    def ev_botjoin(self):
        rng = self.rng
        names = [n for n in self.CHANS if fold(n) not in
                 [fold(c.name) for c in self.botchans()]]
        if not names:
            return
        name = rng.choice(names)
        c = self.chans.get(fold(name))
        if c is None:
            # populate a channel the bot was not in
            c = self.chans[fold(name)] = Chan(name)
            for nick in rng.sample(self.NICKS, rng.randint(0, 5)):
                if fold(nick) in self.users:
                    c.members[fold(nick)] = set(
                        rng.sample('ohv', rng.randint(0, 2)))
            c.topic = rng.choice(['', 'hello :) world', ' padded '])
            for m in rng.sample('ntsm', rng.randint(0, 3)):
                c.modes[m] = None
            if rng.random() < 0.4:
                c.modes['k'] = 'key' + rng.choice('abc')
            if rng.random() < 0.4:
                c.modes['l'] = rng.randint(5, 50)
            for i in range(rng.randint(0, 3)):
                mask = '*!*@Bad%d.host[x]' % i
                c.bans[fold(mask)] = mask
        c.members[fold(self.bot)] = set() if c.members else set('o')
        bot = self.bot
        self.send(':%s JOIN %s' % (self.mask(bot), c.name))
        self.known[fold(bot)] = self.mask(bot)
        if c.topic:
            self.send(':srv 332 %s %s :%s' % (bot, c.name, c.topic))
            self.send(':srv 333 %s %s someone!x@y 1700000000' % (bot, c.name))
        style = rng.choice(['plain', 'multi', 'uhnames'])
        items = []
        for (fnick, prefixes) in c.members.items():
            spelling = self.users[fnick][0]
            sig = ''.join(s for (p, s) in zip('ohv', '@%+') if p in prefixes)
            if style == 'plain':
                sig = sig[:1]
            item = sig + spelling
            if style == 'uhnames':
                item = sig + self.mask(spelling)
                self.known[fnick] = self.mask(spelling)
            items.append((item, fnick, sig))
        rng.shuffle(items)
        kind = '@' if 's' in c.modes else '='
        while items:
            chunk, items = items[:3], items[3:]
            self.send(':srv 353 %s %s %s :%s' % (bot, kind, self.v(c.name),
                                              ' '.join(i[0] for i in chunk)))
        self.send(':srv 366 %s %s :End of NAMES' % (bot, c.name))
        if style == 'plain':
            # without multi-prefix only the highest prefix is known
            for (fnick, prefixes) in c.members.items():
                top = [p for p in 'ohv' if p in prefixes][:1]
                # the server then tells the rest through MODE (as after a
                # netjoin), so that both views are complete again
                rest = [p for p in 'ohv' if p in prefixes and p not in top]
                if rest:
                    self.send(':srv MODE %s +%s %s' % (
                        c.name, ''.join(rest),
                        ' '.join([self.users[fnick][0]] * len(rest))))
        # replies to the MODE / MODE +b / WHO the bot sends on join
        modes = '+' + ''.join(sorted(c.modes))
        params = [str(c.modes[m]) for m in sorted(c.modes)
                  if c.modes[m] is not None]
        self.send(':srv 324 %s %s %s' % (bot, self.v(c.name),
                                         ' '.join([modes] + params)))
        self.send(':srv 329 %s %s 1600000000' % (bot, c.name))
        for mask in c.bans.values():
            self.send(':srv 367 %s %s %s setter!x@y 1600000001'
                      % (bot, self.v(c.name), mask))
        self.send(':srv 368 %s %s :End of Channel Ban List' % (bot, c.name))
        whox = rng.random() < 0.5
        for fnick in c.members:
            (spelling, user, host) = self.users[fnick]
            if whox:
                self.send(':srv 354 %s 1 %s 10.0.0.1 %s %s H 0 :real name'
                          % (bot, user, host, spelling))
            else:
                self.send(':srv 352 %s %s %s %s srv %s H :0 real name'
                          % (bot, c.name, user, host, spelling))
            self.known[fnick] = self.mask(spelling)
        self.send(':srv 315 %s %s :End of WHO' % (bot, c.name))

    def ev_join(self):
        rng = self.rng
        cands = [n for n in self.NICKS if fold(n) in self.users]
        if not cands or not self.botchans():
            return
        nick = rng.choice(cands)
        targets = [c for c in self.botchans() if fold(nick) not in c.members]
        if not targets:
            return
        targets = rng.sample(targets, rng.randint(1, min(3, len(targets))))
        for c in targets:
            c.members[fold(nick)] = set()
        self.send(':%s JOIN %s' % (self.mask(nick),
                                   ','.join(self.v(c.name) for c in targets)))
        self.known[fold(nick)] = self.mask(nick)

    def someone(self, others_only=False):
        """A (channel, folded nick) the bot can see."""
        pairs = [(c, f) for c in self.botchans() for f in c.members
                 if not (others_only and f == fold(self.bot))]
        return self.rng.choice(pairs) if pairs else (None, None)

    def drop_if_bot_left(self, c):
        if fold(self.bot) not in c.members:
            del self.chans[fold(c.name)]   # the bot sees it no more

    def ev_part(self):
        rng = self.rng
        (c0, fnick) = self.someone()
        if c0 is None:
            return
        if fnick == fold(self.bot) and rng.random() < 0.7:
            return
        chans = [c for c in self.botchans() if fnick in c.members]
        chans = rng.sample(chans, rng.randint(1, min(3, len(chans))))
        spelling = self.users[fnick][0]
        reason = rng.choice(['', ' :bye', ' :'])
        self.send(':%s PART %s%s' % (self.mask(spelling),
                  ','.join(self.v(c.name) for c in chans), reason))
        self.known[fnick] = self.mask(spelling)
        for c in chans:
            del c.members[fnick]
        for c in chans:
            self.drop_if_bot_left(c)

    def ev_kick(self):
        rng = self.rng
        (c, fnick) = self.someone()
        if c is None:
            return
        victims = rng.sample(sorted(c.members),
                             rng.randint(1, min(3, len(c.members))))
        if fold(self.bot) in victims and rng.random() < 0.7:
            victims.remove(fold(self.bot))
            if not victims:
                return
        kicker = self.users[fnick][0]
        self.send(':%s KICK %s %s :out' % (
            self.mask(kicker), self.v(c.name),
            ','.join(self.v(self.users[f][0]) for f in victims)))
        self.known[fnick] = self.mask(kicker)
        for f in victims:
            del c.members[f]
        self.drop_if_bot_left(c)

    def ev_quit(self):
        (c, fnick) = self.someone(others_only=True)
        if c is None:
            return
        spelling = self.users[fnick][0]
        self.send(':%s QUIT :%s' % (self.mask(spelling),
                                    self.rng.choice(['', 'Quit: bye'])))
        for ch in self.chans.values():
            ch.members.pop(fnick, None)
        del self.users[fnick]
        self.known.pop(fnick, None)

    def ev_nick(self):
        rng = self.rng
        (c, fnick) = self.someone()
        if c is None:
            return
        (old, user, host) = self.users[fnick]
        if rng.random() < 0.5:
            new = variant(rng, old)        # the case only
        else:
            new = old.rstrip('0123456789') + str(rng.randint(0, 99))
        if fold(new) != fnick and fold(new) in self.users:
            return
        self.send(':%s NICK %s' % (self.mask(old), new))
        del self.users[fnick]
        self.users[fold(new)] = (new, user, host)
        self.known.pop(fnick, None)
        self.known[fold(new)] = self.mask(new)
        for ch in self.chans.values():
            if fnick in ch.members:
                ch.members[fold(new)] = ch.members.pop(fnick)
        if fnick == fold(self.bot):
            self.bot = new

    def ev_mode(self):
        rng = self.rng
        (c, fnick) = self.someone()
        if c is None:
            return
        modes, params, last = '', [], None
        for i in range(rng.randint(1, 6)):
            sign = rng.choice('+-')
            kind = rng.choice(['prefix', 'prefix', 'ban', 'flag', 'key',
                               'limit', 'list'])
            char, param = None, None
            if kind == 'prefix':
                char = rng.choice('ohv')
                target = rng.choice(sorted(c.members))
                param = self.v(self.users[target][0])
                if sign == '+':
                    c.members[target].add(char)
                else:
                    c.members[target].discard(char)
            elif kind == 'ban':
                char = 'b'
                if sign == '+':
                    param = '*!*@Host%d.[x]' % rng.randint(0, 4)
                    c.bans[fold(param)] = param
                elif c.bans:
                    key = rng.choice(sorted(c.bans))
                    param = self.v(c.bans.pop(key))
                else:
                    continue
            elif kind == 'flag':
                char = rng.choice('mntsi')
                if sign == '+':
                    c.modes[char] = None
                else:
                    c.modes.pop(char, None)
            elif kind == 'key':
                char = 'k'
                if sign == '+':
                    param = 'key' + rng.choice('xyz')
                    c.modes['k'] = param
                elif 'k' in c.modes:
                    param = c.modes.pop('k')
                else:
                    continue
            elif kind == 'limit':
                char = 'l'
                if sign == '+':
                    n = rng.randint(1, 99)
                    param = str(n)
                    c.modes['l'] = n
                else:
                    c.modes.pop('l', None)
            else:
                char = rng.choice('eIq')      # lists the bot does not track
                param = '*!*@exempt.host'
            if sign != last:
                modes += sign
                last = sign
            modes += char
            if param is not None:
                params.append(param)
        if not modes:
            return
        setter = self.users[fnick][0]
        self.send(':%s MODE %s %s' % (self.mask(setter), self.v(c.name),
                                      ' '.join([modes] + params)))
        self.known[fnick] = self.mask(setter)

    def ev_topic(self):
        (c, fnick) = self.someone()
        if c is None:
            return
        c.topic = self.rng.choice(['', 'new topic', 'a :b: c', 'x ', '42'])
        setter = self.users[fnick][0]
        self.send(':%s TOPIC %s :%s' % (self.mask(setter), self.v(c.name),
                                        c.topic))
        self.known[fnick] = self.mask(setter)

    def ev_chghost(self):
        (c, fnick) = self.someone()
        if c is None:
            return
        (spelling, user, host) = self.users[fnick]
        old = self.mask(spelling)
        user = 'n' + user
        host = 'cloak%d.example' % self.rng.randint(0, 999)
        self.users[fnick] = (spelling, user, host)
        self.send(':%s CHGHOST %s %s' % (old, user, host))
        self.known[fnick] = self.mask(spelling)

    def ev_who(self):
        (c, fnick) = self.someone()
        if c is None:
            return
        (spelling, user, host) = self.users[fnick]
        self.send(':srv 352 %s %s %s %s srv %s H@ :0 real name'
                  % (self.bot, self.v(c.name), user, host, spelling))
        self.known[fnick] = self.mask(spelling)

    # -- comparison -------------------------------------------------------
    def server_view(self):
        view = {}
        for c in self.botchans():
            view[fold(c.name)] = {
                'users': sorted(c.members),
                'ops': sorted(f for (f, p) in c.members.items() if 'o' in p),
                'halfops': sorted(f for (f, p) in c.members.items()
                                  if 'h' in p),
                'voices': sorted(f for (f, p) in c.members.items()
                                 if 'v' in p),
                'topic': c.topic,
                'modes': dict(c.modes),
                'bans': sorted(c.bans),
            }
        masks = dict((f, fold(m)) for (f, m) in self.known.items()
                     if self.visible(f))
        return (view, masks, fold(self.bot))

    def bot_view(self):
        state = self.irc.state
        view = {}
        for (name, c) in state.channels.items():
            assert fold(name) not in view, 'two records for %s' % name
            # also through the accessors plugins use
            assert state.channels[name] is c and name in state.channels
            for f in c.ops:
                assert c.isOp(f) and c.isHalfopPlus(f) and c.isVoicePlus(f)
            view[fold(name)] = {
                'users': sorted(fold(str(n)) for n in c.users),
                'ops': sorted(fold(str(n)) for n in c.ops),
                'halfops': sorted(fold(str(n)) for n in c.halfops),
                'voices': sorted(fold(str(n)) for n in c.voices),
                'topic': c.topic,
                'modes': dict(c.modes),
                'bans': sorted(fold(str(n)) for n in c.bans),
            }
        masks = {}
        for (nick, hostmask) in state.nicksToHostmasks.items():
            if self.visible(nick):
                masks[fold(nick)] = fold(hostmask)
                assert state.nickToHostmask(self.v(nick)) == hostmask
        return (view, masks, fold(self.irc.nick))

EVENTS = ['botjoin'] * 3 + ['join'] * 4 + ['part'] * 3 + ['kick'] * 2 + \
         ['quit'] + ['nick'] * 3 + ['mode'] * 6 + ['topic'] * 2 + \
         ['chghost'] * 2 + ['who'] + ['reconnect']

def run(seed, steps):
    rng = random.Random(seed)
    irc = irclib.Irc('test')
    server = Server(rng, irc)
    for step in range(steps):
        event = rng.choice(EVENTS)
        if event == 'reconnect' and rng.random() < 0.7:
            continue
        mark = len(server.lines)
        getattr(server, 'ev_' + event)()
        (expected, got) = (server.server_view(), server.bot_view())
        if expected != got:
            print('seed %d step %d (%s): views differ' % (seed, step, event))
            for line in server.lines[mark:]:
                print('   ', line)
            for (e, g, what) in zip(expected, got,
                                    ('channels', 'hostmasks', 'own nick')):
                if e != g:
                    print('  %s: server=%r' % (what, e))
                    print('  %s:    bot=%r' % (what, g))
            return False
    irc.die()
    return True

def unit_checks():
    """The helpers of the anchored code, at their edges."""
    ok = True
    def expect(what, got, wanted):
        if got != wanted:
            print('%s: got %r, expected %r' % (what, got, wanted))
            return False
        return True
    sep = ircutils.separateModes
    ok &= expect('sep1', sep(['+ooo', 'a', 'b', 'c']),
                 [('+o', 'a'), ('+o', 'b'), ('+o', 'c')])
    ok &= expect('sep2', sep(['+s-o', 'test']), [('+s', None), ('-o', 'test')])
    ok &= expect('sep3', sep(['+sntl', '100']),
                 [('+s', None), ('+n', None), ('+t', None), ('+l', 100)])
    ok &= expect('sep4', sep(['+b']), [])
    ok &= expect('sep5', sep(['+ob-l+k', 'a']), [('+o', 'a'), ('-l', None)])
    ok &= expect('sep6', sep([]), [])
    ok &= expect('sep7', sep(['-k+l-v', 'key', '7', 'x']),
                 [('-k', 'key'), ('+l', 7), ('-v', 'x')])
    ok &= expect('sep8', sep(('ov', 'a', 'b', 'extra')),
                 [('+o', 'a'), ('+v', 'b')])
    ok &= expect('sep9', sep(['+I-e+q', 'm1', 'm2', 'm3']),
                 [('+I', 'm1'), ('-e', 'm2'), ('+q', 'm3')])
    for i in range(0x250):
        c = chr(i)
        ok &= expect('toLower %r' % c, ircutils.toLower('x' + c + 'Y'),
                     'x' + fold(c) + 'y')
    ok &= expect('toLower empty', ircutils.toLower(''), '')
    ok &= expect('toLower ascii', ircutils.toLower('A[\\]~', 'ascii'),
                 'a[\\]~')
    ok &= expect('toLower type', type(ircutils.toLower(
                 ircutils.IrcString('Ab['))), str)
    ok &= expect('strEqual', ircutils.strEqual('Foo[\\]~', 'fOO{|}^'), True)
    ok &= expect('IrcString ==', ircutils.IrcString('A[') == 'a{', True)
    ok &= expect('IrcString == int', ircutils.IrcString('A[') == 3, False)
    cs = irclib.ChannelState()
    for item in ('@+a', '%b', '+c', '~&d', '!e', 'f', '@%+g', '', '@', '+%'):
        cs.addUser(item)
    ok &= expect('addUser users', sorted(cs.users), list('abcdefg'))
    ok &= expect('addUser ops', sorted(cs.ops), list('adeg'))
    ok &= expect('addUser halfops', sorted(cs.halfops), list('bg'))
    ok &= expect('addUser voices', sorted(cs.voices), list('acg'))
    cs.replaceUser('G', 'g')
    cs.replaceUser('a', 'A2')
    cs.replaceUser('nobody', 'x')
    cs.removeUser('D')
    cs.removeUser('nobody')
    ok &= expect('users', sorted(cs.users), ['A2', 'b', 'c', 'e', 'f', 'g'])
    ok &= expect('ops', sorted(cs.ops), ['A2', 'e', 'g'])
    ok &= expect('voices', sorted(cs.voices), ['A2', 'c', 'g'])
    return ok

conf.registerNetwork('test')
good = unit_checks()
n = 0
for seed in range(150):
    if not good:
        break
    good = run(seed, 80)
    n += 1
if good:
    print('%d random sessions of 80 events: the views agreed after every '
          'event' % n)
    print('PASS')
    code = 0
else:
    print('FAIL: the bot\'s view differs from the server\'s')
    code = 1
sys.stdout.flush()
os._exit(code)
