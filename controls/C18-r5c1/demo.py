"""C18 control demo: the scheduling property, checked against an independent
model over many random histories (ties, past times, names reused after a
removal, argument lists and keyword arguments, raising functions, periodic
events with and without a count, events that add / remove / reschedule other
events while running, reset()), plus fixed scenarios through the module-level
functions and the driver loop.  Must print PASS with and without the patch.
"""
import os
import sys
import time
import random
import shutil
import tempfile

sys.path.insert(0, os.getcwd())
tmp = tempfile.mkdtemp(prefix='c18c1')
reg = os.path.join(tmp, 'demo.conf')
with open(reg, 'w') as fd:
    fd.write("""
supybot.directories.data: %(d)s/data
supybot.directories.conf: %(d)s/conf
supybot.directories.log: %(d)s/logs
supybot.directories.backup: %(d)s/backup
supybot.log.stdout: False
supybot.log.level: CRITICAL
""" % {'d': tmp})

code = 1
try:
    import supybot.registry as registry
    registry.open_registry(reg)
    import supybot.log as log
    import supybot.conf as conf
    import supybot.world as world
    import supybot.drivers as drivers
    import supybot.schedule as schedule

    T0 = 1000000.0
    clock = [T0]
    real_time = time.time
    time.time = lambda: clock[0]

    problems = []

    def problem(s):
        if len(problems) < 25:
            problems.append(s)

    class Boom(Exception):
        pass

    serial = [0]

    class Rec(object):
        def __init__(self, tag, name, due, args, kwargs, raises=False,
                     period=None, remaining=None, depth=0):
            self.tag = tag
            self.name = name
            self.due = due
            self.args = args
            self.kwargs = kwargs
            self.raises = raises
            self.period = period        # None: plain event
            self.remaining = remaining  # periodic: runs left, None = forever
            self.depth = depth

    class History(object):
        """One random history played on a fresh Schedule and on the model."""
        def __init__(self, seed):
            self.seed = seed
            self.rng = random.Random(seed)
            serial[0] += 1
            n = serial[0]

            class DemoSchedule(schedule.Schedule):
                def name(self):
                    return 'DemoSchedule%d' % n
            self.sched = DemoSchedule()
            self.live = {}          # tag -> Rec, the events that must still run
            self.byName = {}        # name -> tag, for the live ones
            self.deadNames = []     # names free to be used again
            self.fresh = 0
            self.inRun = False
            self.closing = False
            self.runsOf = {}
            self.executed = 0
            self.where = ''

        def bad(self, s):
            problem('seed %d, %s: %s' % (self.seed, self.where, s))

        # -- the event functions -------------------------------------------
        def make(self, tag):
            def f(*a, **k):
                self.onExec(tag, a, k)
            f.__name__ = 'event_%s' % (tag,)
            return f

        def onExec(self, tag, a, k):
            self.executed += 1
            self.runsOf[tag] = self.runsOf.get(tag, 0) + 1
            rec = self.live.get(tag)
            if rec is None:
                self.bad('event %r ran although it was removed or had '
                         'already run' % (tag,))
                return
            if self.inRun:
                if not rec.due < clock[0]:
                    self.bad('event %r due at +%s ran at +%s' % (
                        tag, rec.due - T0, clock[0] - T0))
                others = [r.due for r in self.live.values() if r is not rec]
                if others and min(others) < rec.due:
                    self.bad('event %r (due +%s) ran before an event due '
                             'at +%s' % (tag, rec.due - T0, min(others) - T0))
            if list(a) != list(rec.args) or k != rec.kwargs:
                self.bad('event %r ran with %r %r, registered with %r %r'
                         % (tag, a, k, rec.args, rec.kwargs))
            # while it runs the event is not scheduled
            del self.live[tag]
            del self.byName[rec.name]
            if rec.depth < 3:
                for i in range(self.rng.choice([0, 0, 1, 1, 2])):
                    self.nested(rec.depth + 1)
            if rec.period is not None:
                again = True
                if rec.remaining is not None:
                    rec.remaining -= 1
                    again = rec.remaining > 0
                if again:
                    rec.due = clock[0] + rec.period
                    self.live[tag] = rec
                    self.byName[rec.name] = tag
                else:
                    self.deadNames.append(rec.name)
            elif not isinstance(rec.name, int):
                self.deadNames.append(rec.name)
            if rec.raises:
                raise Boom('boom from %r' % (tag,))

        # -- operations ----------------------------------------------------
        def newTag(self):
            self.fresh += 1
            return 't%d' % self.fresh

        def someDue(self):
            return clock[0] + self.rng.randint(-3, 8)

        def someArgs(self):
            r = self.rng
            args = [r.choice([1, 'x', None, (2, 3), u'\xe9'])
                    for i in range(r.randint(0, 3))]
            kwargs = dict((r.choice(['a', 'b', 'c']), r.randint(0, 9))
                          for i in range(r.randint(0, 2)))
            return (args, kwargs)

        def opAdd(self, depth=0):
            r = self.rng
            tag = self.newTag()
            kind = r.choice(['anon', 'fresh', 'fresh', 'reuse', 'tuple'])
            if kind == 'reuse' and self.deadNames:
                name = self.deadNames.pop(r.randrange(len(self.deadNames)))
            elif kind == 'anon':
                name = None
            elif kind == 'tuple':
                name = ('n', self.fresh)
            else:
                name = 'n%d' % self.fresh
            due = self.someDue()
            (args, kwargs) = self.someArgs()
            style = r.randint(0, 2)
            f = self.make(tag)
            if style == 0 and not args and not kwargs:
                got = self.sched.addEvent(f, due, name)
            elif style == 1:
                got = self.sched.addEvent(f, due, name=name, args=args,
                                          kwargs=kwargs)
            else:
                got = self.sched.addEvent(f, due, name, args, kwargs)
            if name is None:
                if not isinstance(got, int):
                    self.bad('addEvent returned %r for an unnamed event'
                             % (got,))
                name = got
            elif got != name:
                self.bad('addEvent returned %r for %r' % (got, name))
            self.live[tag] = Rec(tag, name, due, args, kwargs,
                                 raises=r.random() < 0.25, depth=depth)
            self.byName[name] = tag

        def opAddDuplicate(self):
            if not self.byName:
                return
            name = self.rng.choice(sorted(self.byName, key=repr))
            try:
                self.sched.addEvent(self.make('dup'), self.someDue(), name)
            except AssertionError:
                pass
            else:
                self.bad('a second event called %r was accepted' % (name,))

        def opAddPeriodic(self, depth=0):
            r = self.rng
            tag = self.newTag()
            name = 'p%d' % self.fresh
            period = r.randint(1, 4)
            count = r.choice([None, None, 0, 1, 2, 3])
            now = r.random() < 0.5
            raises = r.random() < 0.3
            (args, kwargs) = self.someArgs()
            rec = Rec(tag, name, clock[0] + period, args, kwargs,
                      raises=raises, period=period, remaining=count,
                      depth=max(depth, 2))
            f = self.make(tag)
            if now:
                # runs at once, outside run()
                recurs = count is None or count > 1
                self.live[tag] = rec
                self.byName[name] = tag
                wasInRun = self.inRun
                self.inRun = False
                try:
                    got = self.sched.addPeriodicEvent(
                        f, period, name, True, args, kwargs, count)
                    raised = False
                except Boom:
                    raised = True
                    got = None
                self.inRun = wasInRun
                if self.runsOf.get(tag) != 1:
                    self.bad('periodic %r with now=True ran %r times at once'
                             % (tag, self.runsOf.get(tag)))
                if raised != (raises and not recurs):
                    self.bad('periodic %r now=True: raised=%r' % (tag, raised))
                if not raised and got != (name if recurs else None):
                    self.bad('addPeriodicEvent(now=True) returned %r' % (got,))
            else:
                if count is None:
                    got = self.sched.addPeriodicEvent(
                        f, period, name=name, now=False, args=args,
                        kwargs=kwargs)
                else:
                    got = self.sched.addPeriodicEvent(
                        f, period, name=name, now=False, args=args,
                        kwargs=kwargs, count=count)
                if got != name:
                    self.bad('addPeriodicEvent(now=False) returned %r'
                             % (got,))
                self.live[tag] = rec
                self.byName[name] = tag

        def pickLive(self):
            if not self.byName:
                return None
            return self.rng.choice(sorted(self.byName, key=repr))

        def opRemove(self):
            name = self.pickLive()
            if name is None:
                return
            rec = self.live.pop(self.byName.pop(name))
            if rec.period is not None and self.rng.random() < 0.5:
                self.sched.removePeriodicEvent(name)
            else:
                f = self.sched.removeEvent(name)
                if not callable(f):
                    self.bad('removeEvent returned %r' % (f,))
            if not isinstance(name, int):
                self.deadNames.append(name)

        def opRemoveUnknown(self):
            name = self.rng.choice(['nobody', -1, ('n', 0), 10 ** 6])
            for op in (self.sched.removeEvent,
                       lambda n: self.sched.rescheduleEvent(n, clock[0])):
                try:
                    op(name)
                except KeyError:
                    pass
                else:
                    self.bad('unknown event %r accepted' % (name,))

        def opReschedule(self):
            name = self.pickLive()
            if name is None:
                return
            rec = self.live[self.byName[name]]
            rec.due = self.someDue()
            self.sched.rescheduleEvent(name, rec.due)

        def nested(self, depth):
            if self.closing:
                return
            r = self.rng.random()
            if r < 0.30:
                self.opAdd(depth)
            elif r < 0.40:
                self.opAddPeriodic(depth)
            elif r < 0.65:
                self.opRemove()
            elif r < 0.90:
                self.opReschedule()
            elif r < 0.95:
                self.opAddDuplicate()
            else:
                self.opRemoveUnknown()

        def opRun(self):
            clock[0] += self.rng.choice([0, 0, 1, 1, 2, 3, 5])
            self.inRun = True
            try:
                self.sched.run()
            except BaseException as e:
                self.bad('run() raised %r' % (e,))
            self.inRun = False
            late = [r.tag for r in self.live.values() if r.due < clock[0]]
            if late:
                self.bad('after run() at +%s the due events %r have not run'
                         % (clock[0] - T0, late))

        def consistent(self):
            names = sorted(self.byName, key=repr)
            if sorted(self.sched.events, key=repr) != names:
                self.bad('Schedule.events holds %r, expected %r' % (
                    sorted(self.sched.events, key=repr), names))
            heap = self.sched.schedule
            if sorted([x[1] for x in heap], key=repr) != names:
                self.bad('the heap holds %r, expected %r' % (
                    sorted([x[1] for x in heap], key=repr), names))
            for (i, x) in enumerate(heap):
                if i and heap[(i - 1) // 2][0] > x[0]:
                    self.bad('the heap is not a heap: %r' % (heap,))
                    break
            for x in heap:
                rec = self.live.get(self.byName.get(x[1]))
                if rec is not None and x[0] != rec.due:
                    self.bad('%r is scheduled at +%s, expected +%s'
                             % (x[1], x[0] - T0, rec.due - T0))

        def play(self, steps):
            for step in range(steps):
                r = self.rng.random()
                self.where = 'step %d' % step
                if r < 0.28:
                    self.opAdd()
                elif r < 0.36:
                    self.opAddPeriodic()
                elif r < 0.46:
                    self.opRemove()
                elif r < 0.58:
                    self.opReschedule()
                elif r < 0.61:
                    self.opAddDuplicate()
                elif r < 0.64:
                    self.opRemoveUnknown()
                elif r < 0.65:
                    self.sched.reset()
                    for rec in self.live.values():
                        if not isinstance(rec.name, int):
                            self.deadNames.append(rec.name)
                    self.live.clear()
                    self.byName.clear()
                else:
                    self.opRun()
                self.consistent()
                if problems:
                    return
            # let everything that is not periodic-forever run out
            for tag in [t for (t, r) in self.live.items()
                        if r.period is not None and r.remaining is None]:
                rec = self.live.pop(tag)
                del self.byName[rec.name]
                self.sched.removePeriodicEvent(rec.name)
            self.where = 'the end'
            self.closing = True
            for i in range(12):
                clock[0] += 5
                self.inRun = True
                self.sched.run()
                self.inRun = False
            if self.live:
                self.bad('never ran: %r' % (sorted(self.live),))
            self.consistent()
            self.sched.die()

    total = 0
    for seed in range(200):
        clock[0] = T0
        h = History(seed)
        h.play(250)
        total += h.executed
        if problems:
            break
    if total < 15000:
        problem('only %d events ran: the histories are too thin' % total)

    # ---- fixed scenarios: module-level functions and the driver loop -------
    clock[0] = T0
    world.testing = True
    seen = []

    def note(*a, **k):
        seen.append((clock[0] - T0, a, k))

    def failing(*a):
        seen.append((clock[0] - T0, 'failing', a))
        raise Boom('failing')

    drivers.run()        # takes the pending drivers in
    if 'Schedule' not in drivers._drivers or \
            drivers._drivers['Schedule'] is not schedule.schedule:
        problem('the Schedule driver is not in the loop')
    a = schedule.addEvent(note, T0 + 1.5, args=['a'])
    b = schedule.addEvent(note, T0 + 2, 'b', ['b'], {'k': 'v'})
    c = schedule.addEvent(failing, T0 + 1, 'c', args=['c'])
    d = schedule.addEvent(note, T0 + 3, 'd', args=['d'])
    schedule.rescheduleEvent('b', T0 + 4)
    schedule.removeEvent('d')
    p = schedule.addPeriodicEvent(failing, 2, 'p', args=['p'], count=3)
    q = schedule.addPeriodicEvent(note, 3, 'q', now=False, kwargs={'q': 1})
    if (b, c, d, p, q) != ('b', 'c', 'd', 'p', 'q') or not isinstance(a, int):
        problem('module-level functions returned %r'
                % ((a, b, c, d, p, q),))
    for i in range(12):
        clock[0] += 1
        drivers.run()
    schedule.removePeriodicEvent('q')
    for i in range(4):
        clock[0] += 1
        drivers.run()
    expected = [
        (0.0, 'failing', ('p',)),
        (2.0, 'failing', ('c',)),
        (2.0, ('a',), {}),
        (3.0, 'failing', ('p',)),
        (4.0, (), {'q': 1}),
        (5.0, ('b',), {'k': 'v'}),
        (6.0, 'failing', ('p',)),
        (8.0, (), {'q': 1}),
        (12.0, (), {'q': 1}),
    ]
    if seen != expected:
        problem('module-level scenario: saw %r, expected %r'
                % (seen, expected))
    if schedule.schedule.events or schedule.schedule.schedule:
        problem('module-level scenario: left over %r'
                % (schedule.schedule.events,))

    # dead drivers leave the loop, the others (and the schedule) go on
    class FakeIrc(object):
        driver = 'set'

    class Crashing(drivers.IrcDriver):
        def __init__(self, name):
            self._name = name
            self.irc = FakeIrc()
            self.runs = 0
            drivers.IrcDriver.__init__(self)

        def name(self):
            return self._name

        def run(self):
            self.runs += 1
            if self.runs == 2:
                raise Boom(self._name)

    class NoIrc(drivers.IrcDriver):
        runs = 0

        def name(self):
            return 'NoIrc'

        def run(self):
            self.runs += 1

    del seen[:]
    crash = Crashing('Crashing')
    crashIrc = crash.irc
    quiet = NoIrc()
    schedule.addEvent(note, clock[0] + 2.5, args=['after the crash'])
    for i in range(5):
        clock[0] += 1
        drivers.run()
    if crash.runs != 2 or 'Crashing' in drivers._drivers:
        problem('crashing driver: runs=%d, still in the loop: %r'
                % (crash.runs, 'Crashing' in drivers._drivers))
    if crashIrc.driver is not None or crash.irc is not None:
        problem('crashing driver: irc.driver=%r, driver.irc=%r'
                % (crashIrc.driver, crash.irc))
    if quiet.runs != 4:
        problem('the other driver ran %d times, expected 4' % quiet.runs)
    if [s[1] for s in seen] != [('after the crash',)]:
        problem('event after a driver crash: %r' % (seen,))
    quiet.die()
    drivers.run()
    if 'NoIrc' in drivers._drivers or quiet.irc is not None:
        problem('a driver that died is still in the loop')
    second = NoIrc()
    drivers.run()
    drivers.run()
    if drivers._drivers.get('NoIrc') is not second or second.runs != 1:
        problem('a new driver under a dead driver\'s name: %r, runs=%d'
                % (drivers._drivers.get('NoIrc'), second.runs))

    time.time = real_time
    if problems:
        print('FAIL')
        for p in problems:
            print('  -', p)
        code = 1
    else:
        print('PASS (%d events ran in the random histories)' % total)
        code = 0
except BaseException as e:
    import traceback
    traceback.print_exc()
    print('FAIL (demo crashed: %r)' % (e,))
    code = 1
finally:
    shutil.rmtree(tmp, ignore_errors=True)
sys.stdout.flush()
os._exit(code)
