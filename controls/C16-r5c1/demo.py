# C16 control c1: exercises every path touched by the behaviour-preserving
# refactor (the three preserve() methods, the four flush() methods,
# IgnoresDB.open, unpreserve.Reader.read/readFile, utils.file.nonCommentLines/
# nonEmptyLines, AtomicFile.close with its backup-if-smaller step) and checks
#   * save + reload gives back the same state, after sequences of
#     add / modify / delete, with awkward values;
#   * the files written are, record by record, the expected ones (GOLDEN below
#     was produced by the unmodified tree), and bans are written by expiry;
#   * hand-written input (CRLF, tabs, blank lines, an invalid command) is read
#     the same way.
import os, sys, tempfile, glob, io
sys.path.insert(0, os.getcwd())
TMP = tempfile.mkdtemp(prefix='c16c1')
for d in ('conf', 'data', 'data/tmp', 'logs', 'backup'):
    os.makedirs(os.path.join(TMP, d), exist_ok=True)
import supybot.conf as conf
conf.supybot.directories.conf.setValue(os.path.join(TMP, 'conf'))
conf.supybot.directories.data.setValue(os.path.join(TMP, 'data'))
conf.supybot.directories.data.tmp.setValue(os.path.join(TMP, 'data', 'tmp'))
conf.supybot.directories.log.setValue(os.path.join(TMP, 'logs'))
conf.supybot.directories.backup.setValue(os.path.join(TMP, 'backup'))
import supybot.log as log
conf.supybot.log.stdout.setValue(False)
import supybot.ircdb as ircdb
import supybot.utils as utils
import supybot.unpreserve as unpreserve

GOLDEN = \
{'channels.conf': [['channel #chan',
                    ['  ban *!*@late 3000000000',
                     '  ban *!*@perm1 0',
                     '  ban *!*@perm2 0',
                     '  ban *!*@same-a 2500000000',
                     '  ban *!*@same-b 2500000000',
                     '  capability -halfop',
                     '  capability -protected',
                     '  capability -voice',
                     '  capability op',
                     '  defaultAllow True',
                     '  ignore *!*@ig2 2000000001',
                     '  lobotomized False']],
                   ['channel #chan[x]',
                    ['  ban x*!*@* 0',
                     '  capability -halfop',
                     '  capability -op',
                     '  capability -protected',
                     '  capability -voice',
                     '  defaultAllow False',
                     '  lobotomized False']],
                   ['channel &local',
                    ['  capability -halfop',
                     '  capability -op',
                     '  capability -protected',
                     '  capability -voice',
                     '  defaultAllow True',
                     '  lobotomized False']]],
 'ignores.conf': [['*!*@kept 0', []]],
 'networks.conf': [['network libera',
                    ['  lastDisconnectTime irc.libera.chat 1700000000',
                     '  stsPolicy irc.libera.chat duration=300,port=6697']],
                   ['network oftc', ['  stsPolicy irc.oftc.net duration=86400,port=6697']]],
 'users.conf': [['user 1',
                 ['  capability #chan,op',
                  '  capability #chan{x},-voice',
                  '  capability admin',
                  '  capability trusted',
                  '  hashed True',
                  '  hostmask Alice2!*@*.Example.ORG',
                  '  ignore False',
                  '  name Alice Liddell',
                  '  nicks libera alice',
                  '  nicks oftc al[i]ce',
                  '  password a2a2a2a2|4ae6add82f49f5cc8c9154d163d2bf340f8f26e6',
                  '  secure False']],
                ['user 2',
                 ['  hashed True',
                  '  hostmask b!b@host2',
                  '  ignore True',
                  '  name al ice',
                  '  password bbbbbbbb|a6fd29167cbd2a7c9a4a5c6ed99d080e5d14b346',
                  '  secure False']],
                ['user 3',
                 ['  hashed True',
                  '  hostmask c!c@host3',
                  '  ignore True',
                  '  name \xe9mile \xdf \u65e5\u672c',
                  '  password cccccccc|d228d93d37095cc6beb765e711b13048e92f42ed',
                  '  secure False']],
                ['user 4',
                 ['  hashed False',
                  '  hostmask #d!d@host4',
                  '  ignore False',
                  '  name has#hash',
                  '  password plain text, with  blanks',
                  '  secure False']],
                ['user 5',
                 ['  capability owner',
                  '  hashed True',
                  '  ignore False',
                  '  name x"y\\z',
                  '  password eeeeeeee|89693440ae6c9642bff5e64bfcb34cd7ba1d4bc0',
                  '  secure False']],
                ['user 6',
                 ['  hashed True',
                  '  hostmask q!q@host6',
                  '  ignore False',
                  '  name "quoted"',
                  '  password qqqqqqqq|c1671ca2313dff6d27595ea9e399066e0f88914d',
                  '  secure False']],
                ['user 7',
                 ['  hashed True',
                  '  ignore False',
                  '  name trailing  ',
                  '  password ffffffff|c65a9b7af4f9f41917caa6e29ac0550b8f525387',
                  '  secure False']],
                ['user 9',
                 ['  hashed True',
                  '  hostmask g!g@host7',
                  '  ignore False',
                  '  name late comer',
                  '  password hhhhhhhh|529a6b923e382614ddda1e768428061465712a44',
                  '  secure False']]]}
failures = []
def check(cond, what):
    if not cond:
        failures.append(what)
        print('MISMATCH:', what)

def usnap(users):
    return dict((i, (u.name, u.password, u.hashed, u.secure, u.ignore,
                     sorted(u.capabilities), sorted(map(str, u.hostmasks)),
                     dict((k, list(v)) for (k, v) in u.nicks.items())))
                for (i, u) in users.users.items())
def csnap(channels):
    return dict((str(name), (c.lobotomized, c.defaultAllow,
                             sorted(c.capabilities), dict(c.bans),
                             dict(c.ignores)))
                for (name, c) in channels.channels.items())
def nsnap(networks):
    return dict((str(name), (dict(n.stsPolicies), dict(n.lastDisconnectTimes)))
                for (name, n) in networks.networks.items())

def canon(filename):
    """The file as a list of records (first line, sorted other lines): the
    order of capabilities and hostmasks inside a record depends on hashing."""
    records = []
    with io.open(filename, encoding='utf8', newline='') as fd:
        text = fd.read()
    for line in text.split(os.linesep):
        if not line.strip():
            continue
        if not line.startswith(' '):
            records.append([line, []])
        else:
            records[-1][1].append(line)
    return [[first, sorted(rest)] for (first, rest) in records]

def resetCreators():
    ircdb.IrcUserCreator.u = None
    ircdb.IrcChannelCreator.name = None
    ircdb.IrcNetworkCreator.name = None

def pw(password, salt):
    return utils.saltHash(password, salt=salt)

cdir = os.path.join(TMP, 'conf')
code = 0
try:
    # ---------------------------------------------------------------- users
    ufile = os.path.join(cdir, 'users.conf')
    users = ircdb.UsersDictionary()
    users.filename = ufile
    def newUser(name, password, hashed=True, **kw):
        u = users.newUser()
        u.name = name
        u.hashed = hashed
        u.password = password
        u.secure = kw.get('secure', False)
        u.ignore = kw.get('ignore', False)
        for h in kw.get('hostmasks', ()):
            u.addHostmask(h)
        for c in kw.get('caps', ()):
            u.addCapability(c)
        for (net, nick) in kw.get('nicks', ()):
            u.addNick(net, nick)
        users.setUser(u)
        return u
    newUser('alice', pw('a', 'aaaaaaaa'), hostmasks=['alice!a@host1', 'Alice2!*@*.Example.ORG'],
            caps=['admin', '-trusted', '#Chan,op', '#chan[x],-voice'],
            nicks=[('libera', 'alice'), ('libera', 'alice_'), ('oftc', 'al[i]ce')])
    newUser('al ice', pw('b', 'bbbbbbbb'), secure=True, hostmasks=['b!b@host2'])
    newUser('\xe9mile \xdf \u65e5\u672c', pw('c', 'cccccccc'), ignore=True, hostmasks=['c!c@host3'])
    newUser('has#hash', 'plain text, with  blanks', hashed=False, hostmasks=['#d!d@host4'])
    newUser('x"y\\z', pw('e', 'eeeeeeee'), caps=['owner'])
    newUser('"quoted"', pw('q', 'qqqqqqqq'), hostmasks=['q!q@host6'])
    newUser('trailing  ', pw('f', 'ffffffff'))
    newUser('doomed', pw('g', 'gggggggg'), hostmasks=['g!g@host7'])
    users.flush()
    resetCreators()
    r = ircdb.UsersDictionary(); r.open(ufile)
    check(usnap(r) == usnap(users), 'users: first reload')
    # modify
    u = users.getUser('alice')
    u.name = 'Alice Liddell'
    u.removeHostmask('alice!a@host1')
    u.removeCapability('-trusted')
    u.addCapability('trusted')
    u.removeNick('libera', 'alice_')
    u.password = pw('a2', 'a2a2a2a2')
    users.setUser(u)
    users.delUser(users.getUserId('doomed'))
    u = users.getUser('al ice'); u.secure = False; u.ignore = True
    users.setUser(u)
    newUser('late comer', pw('h', 'hhhhhhhh'), hostmasks=['g!g@host7'])
    users.flush()
    resetCreators()
    r = ircdb.UsersDictionary(); r.open(ufile)
    check(usnap(r) == usnap(users), 'users: reload after modify/delete/add')
    check(r.nextId == users.nextId, 'users: nextId')
    # reload() of the same object
    before = usnap(users)
    resetCreators()
    users.reload()
    check(usnap(users) == before, 'users: reload() in place')
    check(len(glob.glob(os.path.join(TMP, 'backup', 'users.conf.backup.*'))) >= 1,
          'users: a backup was made when the file shrank')

    # ------------------------------------------------------------- channels
    cfile = os.path.join(cdir, 'channels.conf')
    channels = ircdb.ChannelsDictionary()
    channels.filename = cfile
    c = ircdb.IrcChannel()
    c.addBan('*!*@late', 3000000000)
    c.addBan('*!*@perm2', 0)
    c.addBan('*!*@early', 2000000000)
    c.addBan('*!*@perm1', 0)
    c.addBan('*!*@same-b', 2500000000)
    c.addBan('*!*@same-a', 2500000000)
    c.addIgnore('*!*@ig2', 2000000001)
    c.addIgnore('*!*@ig1', 0)
    c.addCapability('-games')
    c.addCapability('Op')          # replaces the default -op
    c.lobotomized = True
    channels.setChannel('#Chan', c)
    c = channels.getChannel('#chan[x]')
    c.setDefaultCapability(False)
    c.addBan('x*!*@*', 0)
    channels.setChannel('#CHAN[X]', c)
    channels.setChannel('&local', ircdb.IrcChannel())
    channels.flush()
    banLines = [l.strip() for l in open(cfile) if l.strip().startswith('ban ')]
    check(banLines[:6] == ['ban *!*@perm2 0', 'ban *!*@perm1 0',
                           'ban *!*@early 2000000000', 'ban *!*@same-b 2500000000',
                           'ban *!*@same-a 2500000000', 'ban *!*@late 3000000000'],
          'channels: bans written by expiry, ties in insertion order: %r' % banLines)
    resetCreators()
    r = ircdb.ChannelsDictionary(); r.open(cfile)
    check(csnap(r) == csnap(channels), 'channels: first reload')
    c = channels.getChannel('#chan')
    c.removeBan('*!*@early')
    c.removeIgnore('*!*@ig1')
    c.removeCapability('-games')
    c.lobotomized = False
    channels.setChannel('#chan', c)
    channels.flush()
    resetCreators()
    r = ircdb.ChannelsDictionary(); r.open(cfile)
    check(csnap(r) == csnap(channels), 'channels: reload after modify')
    before = csnap(channels)
    resetCreators()
    channels.reload()
    check(csnap(channels) == before, 'channels: reload() in place')

    # ------------------------------------------------------------- networks
    nfile = os.path.join(cdir, 'networks.conf')
    networks = ircdb.NetworksDictionary()
    networks.filename = nfile
    n = networks.getNetwork('Libera')
    n.addStsPolicy('irc.libera.chat', 'duration=300,port=6697')
    n.addStsPolicy('irc.eu.libera.chat', 'port=6697,duration=1,preload')
    n.lastDisconnectTimes['irc.libera.chat'] = 1700000000
    n = networks.getNetwork('oftc')
    n.addStsPolicy('irc.oftc.net', 'duration=86400,port=6697')
    n.addStsPolicy('gone.oftc.net', 'duration=1,port=1')
    n.expireStsPolicy('gone.oftc.net')
    networks.flush()
    resetCreators()
    r = ircdb.NetworksDictionary(); r.open(nfile)
    check(nsnap(r) == nsnap(networks), 'networks: reload')
    networks.getNetwork('libera').expireStsPolicy('irc.eu.libera.chat')
    networks.flush()
    resetCreators()
    r = ircdb.NetworksDictionary(); r.open(nfile)
    check(nsnap(r) == nsnap(networks), 'networks: reload after expiry')

    # -------------------------------------------------------------- ignores
    ifile = os.path.join(cdir, 'ignores.conf')
    ignores = ircdb.IgnoresDB()
    ignores.filename = ifile
    ignores.add('*!*@perm', 0)
    ignores.add('Nick!*@future', 4102444800)
    ignores.add('*!*@past', 1000000000)
    ignores.add('*!*@removed', 0)
    ignores.add('*!*@negative', -5)
    ignores.remove('*!*@removed')
    ignores.flush()
    r = ircdb.IgnoresDB(); r.open(ifile)
    check(r.hostmasks == {'*!*@perm': 0, 'Nick!*@future': 4102444800},
          'ignores: reload gives the unexpired ones: %r' % r.hostmasks)
    with open(ifile, 'w') as fd:   # what older versions / admins wrote
        fd.write('# a comment\n\n   \n*!*@a\n*!*@b 4102444800.7\r\n*!*@c   4102444801   junk\nnot-a-hostmask 0\n*!*@d notanumber\n')
    r = ircdb.IgnoresDB(); r.open(ifile)
    check(r.hostmasks == {'*!*@a': 0, '*!*@b': 4102444800, '*!*@c': 4102444801},
          'ignores: hand-written file: %r' % r.hostmasks)
    ignores.hostmasks.clear(); ignores.add('*!*@kept', 0); ignores.flush()
    ignores.reload()
    check(ignores.hostmasks == {'*!*@kept': 0}, 'ignores: reload() in place')

    # ------------------------------------------------------- golden records
    got = dict((os.path.basename(f), canon(f)) for f in (ufile, cfile, nfile, ifile))
    if GOLDEN is None or os.environ.get('C16_PRINT_GOLDEN'):
        import pprint; pprint.pprint(got, width=150)
    if GOLDEN is not None:
        for name in sorted(got):
            check(got[name] == GOLDEN[name], 'golden records of %s:\n got      %r\n expected %r' % (name, got[name], GOLDEN[name]))

    # ------------------------------------------------ Reader on odd input
    text = ('user 7\r\n'
            '\tname tabbed name\r\n'
            '\tignore False\r\n'
            '   \r\n'
            '\tsecure True\r\n'
            '\thashed True\r\n'
            '\tpassword s|h\r\n'
            '\tCAPABILITY Foo\r\n'
            '\thostmask t!t@host\r\n'
            '\tnicks net a b\r\n'
            '\r\n'
            'user 9\n'
            '    name nine\n'
            '    ignore True\n'
            '    secure False\n'
            '    bogus command\n'
            '    capability never-read\n'
            '\n'
            'user 10\n'
            '  name ten\n')
    tfile = os.path.join(cdir, 'odd.conf')
    with io.open(tfile, 'w', newline='') as fd:
        fd.write(text)
    resetCreators()
    r = ircdb.UsersDictionary()
    r.noFlush = True
    reader = unpreserve.Reader(ircdb.IrcUserCreator, r)
    try:
        reader.readFile(tfile)
        check(False, 'odd input: the invalid command is reported')
    except ValueError as e:
        check(str(e) == 'Invalid command on line 16: bogus', 'odd input: error message %r' % str(e))
    check(usnap(r) == {7: ('tabbed name', 's|h', True, True, False, ['foo'], ['t!t@host'], {'net': ['a', 'b']})},
          'odd input: what was read before the invalid line: %r' % usnap(r))
    resetCreators()

    # ------------------------------------------ utils.file line filters
    lines = ['# c\n', 'a\n', '\n', '   \n', ' # not a comment\n', 'b # x\n', '#\n', '\t\n', 'c']
    check(list(utils.file.nonCommentLines(iter(lines))) == ['a\n', '\n', '   \n', ' # not a comment\n', 'b # x\n', '\t\n', 'c'], 'nonCommentLines')
    check(list(utils.file.nonEmptyLines(iter(lines))) == ['# c\n', 'a\n', ' # not a comment\n', 'b # x\n', '#\n', 'c'], 'nonEmptyLines')
    check(list(utils.file.nonCommentNonEmptyLines(iter(lines))) == ['a\n', ' # not a comment\n', 'b # x\n', 'c'], 'nonCommentNonEmptyLines')
    check(list(utils.file.nonCommentNonEmptyLines(iter([]))) == [], 'no lines')

    # ------------------------------------------ AtomicFile.close / backups
    bdir = os.path.join(TMP, 'bk'); os.makedirs(bdir)
    target = os.path.join(TMP, 'af.txt')
    def put(content, **kw):
        fd = utils.file.AtomicFile(target, **kw)
        fd.write(content)
        fd.close()
    def backups(d, base='af.txt'):
        return sorted(glob.glob(os.path.join(d, base + '.backup.*')))
    put('0123456789', backupDir=bdir)
    check(open(target).read() == '0123456789' and backups(bdir) == [], 'AtomicFile: first write, no backup')
    put('0123456789', backupDir=bdir)            # same size: no backup
    put('0123456789ab', backupDir=bdir)          # bigger: no backup
    check(backups(bdir) == [], 'AtomicFile: no backup unless smaller')
    put('012', backupDir=bdir)                   # smaller: backup of the old content
    b = backups(bdir)
    check(len(b) == 1 and open(b[0]).read() == '0123456789ab' and
          b[0].rsplit('.', 1)[1].isdigit(), 'AtomicFile: backup of the bigger old file: %r' % b)
    for f in b: os.remove(f)
    put('01', backupDir=bdir, makeBackupIfSmaller=False)
    check(backups(bdir) == [], 'AtomicFile: makeBackupIfSmaller=False')
    put('0', backupDir='/dev/null')
    check(backups(bdir) == [] and open(target).read() == '0', 'AtomicFile: backupDir=/dev/null')
    put('', backupDir=bdir, allowEmptyOverwrite=False)
    check(open(target).read() == '0', 'AtomicFile: allowEmptyOverwrite=False keeps the file')
    check(backups(bdir) == [], 'AtomicFile: ... and makes no backup')
    put('', backupDir=bdir, allowEmptyOverwrite=True)
    check(open(target).read() == '' and len(backups(bdir)) == 1, 'AtomicFile: empty overwrite, with backup')
    for f in glob.glob(os.path.join(TMP, 'data', 'tmp', '*')): os.remove(f)
    utils.file.AtomicFile.default.backupDir = None   # backups next to the file
    try:
        put('xyz'); put('x')
    finally:
        utils.file.AtomicFile.default.backupDir = conf.supybot.directories.backup
    nb = backups(TMP)
    check(len(nb) == 1 and open(nb[0]).read() == 'xyz', 'AtomicFile: backupDir None: %r' % nb)
    fd = utils.file.AtomicFile(target); fd.write('never'); fd.rollback()
    check(open(target).read() == 'x', 'AtomicFile: rollback')
    try:
        fd.close(); check(False, 'AtomicFile: close after rollback raises')
    except ValueError:
        pass
    if failures:
        code = 1
except Exception as e:
    import traceback; traceback.print_exc()
    code = 1
print('FAIL' if code else 'PASS')
sys.stdout.flush()
os._exit(code)
