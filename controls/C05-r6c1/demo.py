#!/usr/bin/env python
"""Equivalence demo for a behaviour-preserving refactor of the IRC message
parser/serialiser (src/ircmsgs.py, src/drivers/__init__.py, utils.str).

Every observable result (return values, attributes, exceptions with their
arguments, log calls, warnings, number of clock reads) of a large, fixed set of
calls is fed into a SHA-256 digest which is compared with the digest recorded
on the unmodified tree.

  python demo.py            -> prints PASS / FAIL
  python demo.py --record   -> prints the digest (use on the unmodified tree)
  python demo.py --dump F   -> additionally writes every observation to F
"""
import os
import sys

os.environ['TZ'] = 'UTC'
sys.path.insert(0, os.getcwd())

import time as real_time
real_time.tzset()

import copy
import pickle
import random
import hashlib
import itertools
import traceback
import warnings

EXPECTED = '6f45c6f667df4edeb498ff7f1afba695132484b9c602832e7e4c2a6eb67b750c'

_digest = hashlib.sha256()
_count = [0]
_dump = None
if '--dump' in sys.argv:
    _dump = open(sys.argv[sys.argv.index('--dump') + 1], 'w')


def obs(*items):
    line = repr(items).encode('utf-8', 'backslashreplace')
    _digest.update(line)
    _digest.update(b'\n')
    _count[0] += 1
    if _dump is not None:
        _dump.write(line.decode('utf-8') + '\n')


def main():
    import supybot
    assert os.path.realpath(supybot.__file__).startswith(
        os.path.realpath(os.getcwd())), supybot.__file__
    from supybot import ircmsgs, ircutils, drivers, utils, log as supylog
    IrcMsg = ircmsgs.IrcMsg

    # ------------------------------------------------------------------
    # A clock whose every read is visible in the results.
    class Clock(object):
        def __init__(self):
            self.now = 1000.0
            self.reads = 0

        def time(self):
            self.reads += 1
            self.now += 1.0
            return self.now

        def __getattr__(self, name):
            return getattr(real_time, name)
    clock = Clock()
    ircmsgs.time = clock

    # Every call of the drivers' logger is recorded.
    logged = []

    def recorder(level):
        def record(*args, **kwargs):
            logged.append((level, args, sorted(kwargs.items())))
        return record
    for level in ('debug', 'info', 'warning', 'error', 'critical',
                  'exception'):
        setattr(drivers.log, level, recorder(level))

    def outcome(f, *args, **kwargs):
        """('ok', result) or ('exc', type, args, context type)."""
        try:
            return ('ok', f(*args, **kwargs))
        except BaseException as e:
            if isinstance(e, (KeyboardInterrupt, SystemExit)):
                raise
            context = e.__context__
            return ('exc', type(e).__module__, type(e).__name__,
                    repr(e.args),
                    type(context).__name__ if context is not None else None)

    def describe(m):
        if m is None:
            return None
        assert type(m) is IrcMsg, type(m)
        tags = m.server_tags
        return (
            type(tags).__name__, list(tags.items()),
            m.prefix, m.command, type(m.args).__name__, m.args,
            m.nick, m.user, m.host, m.time, m.reply_env,
            sorted(m.tags.items(), key=repr), m.channel,
            m.prefix is sys.intern(m.prefix),
            m.command is sys.intern(m.command),
            str(m), str(m), repr(m), repr(m), len(m),
            m == m, m != m, hash(m) == hash(m), bool(m),
            outcome(ircmsgs.isCtcp, m)[:2], outcome(ircmsgs.isAction, m)[:2],
            outcome(ircmsgs.isSplit, m)[:2],
            outcome(ircmsgs.toXml, m, True, False),
            outcome(ircmsgs.toXml, m, False, False),
        )

    def parse(line):
        """Everything observable about parsing one line."""
        before = clock.reads
        r = outcome(IrcMsg, line)
        reads = clock.reads - before
        if r[0] != 'ok':
            if not (r[2] == 'MalformedIrcMsg'):
                obs('NOT-TOTAL', line, r)
            return (line, r, reads)
        m = r[1]
        d = describe(m)
        # re-serialise, re-parse
        m2 = IrcMsg(str(m))
        again = (str(m2) == str(m), m2 == m, m2 != m, hash(m2) == hash(m),
                 m2.args == m.args, m2.prefix == m.prefix,
                 m2.command == m.command, m2.server_tags == m.server_tags)
        # a copy made from the fields is serialised from scratch
        r3 = outcome(IrcMsg, prefix=m.prefix, command=m.command, args=m.args,
                     server_tags=m.server_tags)
        if r3[0] == 'ok':
            m3 = r3[1]
            back = outcome(IrcMsg, str(m3))
            if back[0] == 'ok':
                back = describe(back[1])[:9]
            fresh = (str(m3), m3 == m, hash(m3) == hash(m), m3.time, back)
        else:
            fresh = r3
        return (line, 'ok', d, reads, again, fresh)

    # ------------------------------------------------------------------
    obs('section', 'tag value escaping')
    esc = ircmsgs.escape_server_tag_value
    unesc = ircmsgs.unescape_server_tag_value
    alphabet = ['\\', 's', ':', ' ', ';', 'r', 'n', '\r', '\n', 'a']
    for n in range(0, 5):
        for chars in itertools.product(alphabet, repeat=n):
            v = ''.join(chars)
            e = esc(v)
            obs(v, e, unesc(v), unesc(e) == v)
    for v in ['é☃ \\ ;', '\\\\\\', 'x\\', '\\x', '\\☃', '=',
              'a=b', '\t', '\x00', '\\\n', '\\\r']:
        e = esc(v)
        obs(v, e, unesc(v), unesc(e), unesc(unesc(e)))
    obs(outcome(esc, None)[:3], outcome(unesc, None)[:3],
        outcome(esc, b'a b')[:3], outcome(unesc, b'a\\sb')[:3],
        outcome(unesc, 5)[:3])
    obs(ircmsgs.SERVER_TAG_ESCAPE)

    # ------------------------------------------------------------------
    obs('section', 'MultipleReplacer and IRC case folding')
    MR = utils.str.MultipleReplacer
    for d in [{'a': 'b'}, {'a': 'ab', 'ab': 'a'}, {'ab': 'X', 'a': 'Y'},
              {'.': 'dot', '*': 'star', '\\': 'bs', '|': 'bar', '(': 'p'},
              {'\n': '\\n', '\t': '\\t'}, {'a': ''}, {'': 'x', 'a': 'b'},
              {'é': 'e', 'e': 'é'}, {}]:
        r = outcome(MR, d)
        obs(list(d.items()), r[0])
        if r[0] == 'ok':
            for s in ['', 'a', 'ab', 'aab', 'abab', 'x.y*z\\|(', 'b\n\tc',
                      'ée', 'zzz']:
                obs(s, outcome(r[1], s))
            obs(outcome(r[1], None)[:3], outcome(r[1], b'a')[:3])
    # the replacer keeps a reference to the mapping it was given
    d = {'a': 'b', 'c': 'd'}
    r = MR(d)
    d['a'] = 'z'
    obs(r('abcd'))
    del d['c']
    obs(outcome(r, 'abcd'))
    d['q'] = 'Q'
    obs(outcome(r, 'abq'))
    obs(utils.str.multipleReplacer({'x': 'y'})('xxyx'))
    obs(type(esc).__name__, esc('a b;c\\d\r\n'))
    for s in ['NiCk[]\\~', '#Chan{|}^', 'Éé', '']:
        obs(ircutils.toLower(s), ircutils.toLower(s, 'ascii'),
            ircutils.toLower(s, 'rfc1459'),
            outcome(ircutils.toLower, s, 'rfc1459-strict'))

    # ------------------------------------------------------------------
    obs('section', 'exhaustive short lines')
    alphabet = ['@', ':', ' ', 'a', '=', ';', '\\', '\r', '\n']
    for n in range(0, 6):
        for chars in itertools.product(alphabet, repeat=n):
            obs(parse(''.join(chars)))

    obs('section', 'lines with tags, short alphabet')
    alphabet = ['a', 'b', '=', ';', '\\', 's', ':']
    for n in range(0, 6):
        for chars in itertools.product(alphabet, repeat=n):
            obs(parse('@' + ''.join(chars) + ' :p C x :y'))

    # ------------------------------------------------------------------
    obs('section', 'time tag')
    for line in [
            '@time=2011-10-19T16:40:51.620Z :n!u@h PRIVMSG #c :hi',
            '@time=1970-01-01T00:00:00.000Z PING',
            '@time=2038-01-19T03:14:08.000001Z PING x',
            '@time=2011-10-19T16:40:51Z PING',
            '@time=2011-10-19T16:40:51.620 PING',
            '@time=2011-10-19\\s16:40:51.620Z PING',
            '@time=2011-13-19T16:40:51.620Z PING',
            '@time=now PING', '@time PING', '@time= PING', '@time=\\ PING',
            '@a=b;time=2011-10-19T16:40:51.620Z;c PING',
            '@time=2011-10-19T16:40:51.620Z;time PING',
            '@time;time=2011-10-19T16:40:51.620Z PING',
            '@Time=x PING', '@+time=x PING', '@time=x', '@time=x ',
            '@time=2011-10-19T16:40:51.620Z', '@ PING', '@  PING', '@; PING',
            '@= PING', '@=x PING', '@a==b PING', '@a=b=c;d= :p PING :',
    ]:
        obs(parse(line))
        obs(parse(line + '\r\n'))

    # ------------------------------------------------------------------
    obs('section', 'random lines')
    rnd = random.Random(20260930)
    pieces = ['@', ':', ' ', '  ', ' :', '=', ';', '\\', '\\s', '\\:', '\\\\',
              '\r', '\n', '\r\n', '\t', '\x00', '\x01', 'ACTION', '!', '@h',
              'n!u@h', 'a', 'B', '#c', '001', 'PRIVMSG', 'QUIT', 'NOTICE',
              'é', '☃', '\U0001f600', 'time', 'time=',
              '2011-10-19T16:40:51.620Z', '+draft/reply', 'example.com/k',
              ',', '"', '<', '>', '&', '*.net *.split', 'irc.a.net irc.b.net']
    for i in range(60000):
        n = rnd.randint(1, 9)
        obs(parse(''.join(rnd.choice(pieces) for _ in range(n))))

    # ------------------------------------------------------------------
    obs('section', 'drivers.parseMsg')
    rnd = random.Random(5)
    lines = ['', ' ', '\r\n', ':', '::', '@', '@a', '@a ', ': a', ':p',
             ':p C', ' :p C ', 'PING :x\r\n', '\r\nPING :x', 'PING  :  x  ',
             '@a=b PING', '@time=bad PING', '@time PING', ' @a :p C :☃ ',
             '\t:p C\t', ':p C :trailing \t', 'C :', 'C : ', ' : ', ':p  ']
    for i in range(5000):
        n = rnd.randint(1, 6)
        lines.append(''.join(rnd.choice(pieces) for _ in range(n)))
    for line in lines:
        del logged[:]
        before = clock.reads
        r = outcome(drivers.parseMsg, line)
        if r[0] == 'ok':
            r = ('ok', describe(r[1]))
        obs(line, r, list(logged), clock.reads - before)
    for bad in [None, 5, b'PING', ['PING']]:
        del logged[:]
        obs(repr(bad), outcome(drivers.parseMsg, bad)[:3], list(logged))

    # ------------------------------------------------------------------
    obs('section', 'construct, serialise, parse')
    prefixes = ['', 'nick', 'n!u@h', 'irc.example.net', 'n!u@h!x@y',
                'ü!ü@ü', 'n!u@', '!@', 'a!b@c d']
    commands = ['PRIVMSG', '001', 'x', 'CAP']
    argss = [(), ('a',), ('',), ('a', 'b'), ('a', ''), ('a', ':b'),
             ('a', 'b c : d'), (':',), ('#c', 'é ☃'),
             ('a', 'b', 'c d'), ('a', 'b', ':'), ('*', 'LS', '*', 'x y z'),
             ['a', 'b'], [], ('a', ' '), ('a', ' :x'), ('a', 'x '),
             ('\x01ACTION x\x01',), ('#c', '\x01ACTION waves\x01'),
             ('#c', '\x01\x01'), ('#c', '\x01'), ('"bye"',), ('a.net b.net',)]
    tagss = [None, {}, {'a': None}, {'a': ''}, {'a': 'x y;z\\\r\n'},
             {'+draft/x': '1', 'b': None}, {'b': None, '+draft/x': '1'},
             {'time': '2011-10-19T16:40:51.620Z'}, {'time': None},
             {'k': 'é☃'}, {'k': '\\s'}, {'k': '\\'}, {'k': '='},
             {'a': '1', 'b': '2', 'c': '3', 'd': None, 'e': ' '}]
    for prefix in prefixes:
        for command in commands:
            for args in argss:
                for tags in tagss:
                    before = clock.reads
                    r = outcome(IrcMsg, prefix=prefix, command=command,
                                args=args, server_tags=tags)
                    if r[0] != 'ok':
                        obs(prefix, command, args, tags, r)
                        continue
                    m = r[1]
                    same = (tags is None) or (m.server_tags is tags)
                    line = str(m)
                    p = outcome(IrcMsg, line)
                    if p[0] == 'ok':
                        m2 = p[1]
                        back = (m2.prefix, m2.command, m2.args,
                                list(m2.server_tags.items()), str(m2),
                                m2 == m, m == m2, m2 != m,
                                hash(m2) == hash(m), m2.time)
                    else:
                        back = p
                    obs(describe(m), same, line, back, clock.reads - before,
                        args if isinstance(args, list) else None)
    m = IrcMsg(command='PING', args=('x',))
    obs(outcome(IrcMsg), outcome(IrcMsg, ''), outcome(IrcMsg, args=('a',)),
        outcome(IrcMsg, prefix='p'), outcome(IrcMsg, 'PING', msg=m)[:3],
        outcome(IrcMsg, server_tags={'a': 'b'}),
        outcome(IrcMsg, command='C', args=('a\rb',)),
        outcome(IrcMsg, command='C', args=('a', 'b\n')),
        outcome(IrcMsg, command='C', args=('\x00',)),
        outcome(IrcMsg, command='C', args=(1,))[:3],
        outcome(IrcMsg, command='C', args=('a',), msg=None)[0],
        outcome(IrcMsg, command=5)[:3], outcome(IrcMsg, command='C',
                                                prefix=5)[:3],
        outcome(IrcMsg, b'PING')[:3], outcome(IrcMsg, s='PING :a')[0],
        outcome(str, IrcMsg(command='C', server_tags={'a': 5}))[:3],
        outcome(str, IrcMsg(command='C', server_tags={5: None}))[:3],
        outcome(str, IrcMsg(command='C', server_tags={5: 'x'}))[:3],
        outcome(str, IrcMsg(command='C', server_tags=[('a', 'b')]))[:3])

    # ------------------------------------------------------------------
    obs('section', 'construct from another message')
    origins = [
        IrcMsg('@a=b;c :n!u@h PRIVMSG #c :hello there'),
        IrcMsg(':srv 001 me :Welcome'),
        IrcMsg('PING'),
        IrcMsg(prefix='x!y@z', command='NOTICE', args=('me', 'hi'),
               server_tags={'k': 'v w'}),
        IrcMsg(command='QUIT', reply_env={'x': 'y'}),
        IrcMsg(command='QUIT', reply_env={}),
    ]
    origins[0].tag('receivedAt', 12.5)
    origins[0].tag('x')
    origins[3].tag('list', [1, 2])
    for o in origins:
        obs(describe(o))
        for prefix in ['', 'new!pre@fix', 'server']:
            for command in ['', 'NOTICE']:
                for args in [(), ('q',), ('q', 'r s'), [], ['l', 'm n']]:
                    for env in [None, {}, {'e': 'f'}]:
                        r = outcome(IrcMsg, prefix=prefix, command=command,
                                    args=args, msg=o, reply_env=env)
                        if r[0] != 'ok':
                            obs(r)
                            continue
                        m = r[1]
                        obs(describe(m), m.server_tags is o.server_tags,
                            m.tags is o.tags, m.tags == o.tags,
                            m.reply_env is env, m.reply_env is o.reply_env,
                            m.args is args, m.args is o.args,
                            m == o, hash(m) == hash(o), o == m, m != o)
        r = outcome(IrcMsg, msg=o, args=('bad\narg',))
        obs(r)
        r = outcome(IrcMsg, msg=o, server_tags={'ignored': 'yes'})
        obs(r[0], describe(r[1]) if r[0] == 'ok' else r)
        m = IrcMsg(msg=o)
        m.tag('only-on-copy')
        obs(sorted(o.tags, key=repr), sorted(m.tags, key=repr))
        if m.reply_env is not None:
            m.reply_env['added'] = '1'
        obs(o.reply_env, m.reply_env)
    obs(outcome(IrcMsg, msg=object())[:3], outcome(IrcMsg, msg=0),
        outcome(IrcMsg, msg='')[:3])

    # ------------------------------------------------------------------
    obs('section', 'equality, hashing, pickling, copies, tags, attributes')
    ms = [IrcMsg('PING :a'), IrcMsg('PING a'), IrcMsg(command='PING',
                                                       args=('a',)),
          IrcMsg(command='PING', args=['a']), IrcMsg('@x PING a'),
          IrcMsg('@x= PING a'), IrcMsg('@x=y PING a'), IrcMsg(':p PING a'),
          IrcMsg('PING a b'), IrcMsg('PING :a b'), IrcMsg('ping a'),
          IrcMsg(command='PING', args=('a',), server_tags={'x': None})]
    for a in ms:
        row = []
        for b in ms:
            row.append((a == b, a != b, hash(a) == hash(b),
                        a.__eq__(b), a.__ne__(b), a.__req__(b),
                        a.__rne__(b)))
        obs(str(a), row, a == str(a), a != str(a), a == None, a != None,
            a.__eq__(5), len({a, IrcMsg(str(a))}))

        class Sub(IrcMsg):
            __slots__ = ()
        s = Sub(str(a))
        obs(s == a, a == s, s != a, a != s, repr(s), str(s))
        for proto in range(0, pickle.HIGHEST_PROTOCOL + 1):
            before = clock.reads
            c = pickle.loads(pickle.dumps(a, proto))
            obs(proto, c == a, str(c) == str(a), describe(c)[:9],
                clock.reads - before)
        obs(a.__reduce__()[0] is IrcMsg, a.__reduce__()[1])
        c = copy.copy(a)
        obs(describe(c)[:9], c == a)
        c = copy.deepcopy(a)
        obs(describe(c)[:9], c == a)
    obs(sorted(IrcMsg.__slots__), IrcMsg.__req__ is IrcMsg.__eq__,
        IrcMsg.__rne__ is IrcMsg.__ne__)
    m = IrcMsg(':n!u@h PRIVMSG #c :x')
    with warnings.catch_warnings(record=True) as caught:
        warnings.simplefilter('always')
        obs(m.tagged('foo'), m.foo, m.channel, m.whatever)
        obs(m.tag('foo'), m.tag('bar', 7), m.tag('baz', None),
            m.tag('zero', 0))
        obs(m.tagged('foo'), m.tagged('bar'), m.tagged('baz'),
            m.tagged('zero'), m.tagged('nope'))
        obs(m.foo, m.bar, m.baz, m.zero, m.nope)
        obs(outcome(getattr, m, '__foo'), outcome(getattr, m, '__foo__'),
            outcome(getattr, m, '_Foo__x'), getattr(m, '_foo'),
            outcome(getattr, Sub('PING'), '__set_name__'))
        obs([(w.category.__name__, str(w.message)) for w in caught])
    obs(outcome(setattr, m, 'newattribute', 1)[:3],
        outcome(setattr, m, 'channel', '#c'), m.channel)

    # ------------------------------------------------------------------
    obs('section', 'predicates, XML, pretty printing')
    samples = [
        ':n!u@h PRIVMSG #c :hello', ':n!u@h PRIVMSG #c :\x01ACTION waves\x01',
        ':n!u@h PRIVMSG #c :\x01ACTION\x01', ':n!u@h PRIVMSG #c :\x01\x01',
        ':n!u@h PRIVMSG #c :\x01', ':n!u@h PRIVMSG #c :\x01 \x01',
        ':n!u@h PRIVMSG #c :\x01VERSION\x01', ':n!u@h PRIVMSG #c :\x01ACTIONS x\x01',
        ':n!u@h PRIVMSG #c :\x01ACTION  two  spaces \x01',
        ':n!u@h NOTICE #c :\x01ACTION n\x01', ':n!u@h NOTICE me :note',
        ':n!u@h PRIVMSG #c', ':n!u@h PRIVMSG', ':n!u@h NOTICE #c',
        ':n!u@h JOIN #c', ':srv JOIN #c', 'JOIN #c', ':n!u@h JOIN',
        ':n!u@h PART #c', ':n!u@h PART #c :bye <&> "all"', ':n!u@h PART',
        ':n!u@h KICK #c victim', ':n!u@h KICK #c victim :why not',
        ':n!u@h KICK #c', ':n!u@h MODE #c +o-v a b', ':srv MODE #c +n',
        'MODE', ':n!u@h QUIT', ':n!u@h QUIT :bye', ':n!u@h QUIT :a.net b.net',
        ':n!u@h QUIT :"a.net b.net"', ':n!u@h QUIT :"a b', ':n!u@h QUIT :a b"',
        ':n!u@h QUIT :a b c', ':n!u@h QUIT :', ':n!u@h QUIT :  a   b  ',
        ':n!u@h TOPIC #c :new topic', ':srv TOPIC #c :t', ':n!u@h TOPIC #c',
        ':n!u@h NICK newnick', ':n!u@h NICK', ':srv 001 me :Welcome & <hi>',
        '@a=b :srv 005 me A=B :are supported', 'PING', ':n!u@h privmsg #c :x',
    ]
    for line in samples:
        m = IrcMsg(line)
        obs(line, outcome(ircmsgs.isCtcp, m), outcome(ircmsgs.isAction, m),
            outcome(ircmsgs.isSplit, m), outcome(ircmsgs.unAction, m)[:2])
        before = clock.reads
        obs(outcome(ircmsgs.toXml, m), outcome(ircmsgs.toXml, m, False),
            outcome(ircmsgs.toXml, m, True, False),
            outcome(ircmsgs.toXml, m, pretty=False, includeTime=False),
            clock.reads - before)
        for tagged in (None, 0, 86400 * 365.25 * 30 + 0.5):
            if tagged is not None:
                m.tag('receivedAt', tagged)
            for addRecipients in (False, True):
                for fmt in (None, '', '[%H:%M:%S]', '%Y-%m-%d'):
                    for showNick in (True, False):
                        obs(outcome(ircmsgs.prettyPrint, m, addRecipients,
                                    fmt, showNick))
        obs(outcome(ircmsgs.prettyPrint, m))
    obs(outcome(ircmsgs.toXml, IrcMsg(command='A&B'))[:3],
        outcome(ircmsgs.toXml, IrcMsg(prefix='<&">', command='C',
                                      args=('<', '>', '&', '"', "'"))))

    # ------------------------------------------------------------------
    obs('section', 'message builders go through the same constructor')
    m = IrcMsg('@k=v :o!r@i PRIVMSG #c :orig')
    for r in [
            outcome(ircmsgs.privmsg, '#c', 'hi there'),
            outcome(ircmsgs.privmsg, '#c', 'hi', prefix='p!q@r'),
            outcome(ircmsgs.privmsg, '#c', ':colon', msg=m),
            outcome(ircmsgs.privmsg, '#c', ''),
            outcome(ircmsgs.notice, 'n', 'x y'),
            outcome(ircmsgs.action, '#c', 'waves'),
            outcome(ircmsgs.pong, 'x y'), outcome(ircmsgs.ping, 'abc'),
            outcome(ircmsgs.join, '#c'), outcome(ircmsgs.join, '#c', 'key'),
            outcome(ircmsgs.joins, ['#a', '#b'], ['k']),
            outcome(ircmsgs.part, '#c'), outcome(ircmsgs.part, '#c', 'bye all'),
            outcome(ircmsgs.quit), outcome(ircmsgs.quit, 'so long', msg=m),
            outcome(ircmsgs.topic, '#c'), outcome(ircmsgs.topic, '#c', 'a b'),
            outcome(ircmsgs.nick, 'newnick'),
            outcome(ircmsgs.user, 'id', 'Real Name'),
            outcome(ircmsgs.kick, '#c', 'n', 'go away'),
            outcome(ircmsgs.mode, '#c', ('+o', 'n')),
            outcome(ircmsgs.who, '#c'), outcome(ircmsgs.whois, 'n'),
            outcome(ircmsgs.names), outcome(ircmsgs.names, '#c'),
            outcome(ircmsgs.password, 'pw'), outcome(ircmsgs.ison, 'n'),
            outcome(ircmsgs.invite, 'n', '#c'),
    ]:
        if r[0] == 'ok':
            line = str(r[1])
            back = IrcMsg(line)
            obs(describe(r[1]), (back.prefix, back.command, back.args,
                                 back.server_tags) ==
                (r[1].prefix, r[1].command, r[1].args, r[1].server_tags),
                str(back) == line)
        else:
            obs(r)

    obs('clock reads', clock.reads, 'observations', _count[0])


def run():
    try:
        main()
    except BaseException:
        traceback.print_exc()
        print('FAIL (exception)')
        return 1
    got = _digest.hexdigest()
    if _dump is not None:
        _dump.close()
    if '--record' in sys.argv:
        print(got)
        return 0
    if got == EXPECTED:
        print('PASS')
        return 0
    print('FAIL: digest %s, expected %s (%d observations)'
          % (got, EXPECTED, _count[0]))
    return 1


if __name__ == '__main__':
    code = run()
    sys.stdout.flush()
    sys.stderr.flush()
    os._exit(code)
