#!/usr/bin/env python
"""Equivalence demo for a behaviour-preserving refactor of the code behind
"capability-gated commands never take effect for callers lacking the
capability".

Boots a real bot in-process (production firewall, world.testing False, real
capability checks), runs a fixed script of direct calls and IRC messages
against it, records every observable result (return values, exceptions,
messages sent, log calls, files written, registry values) and compares the
sha256 of the record with the one recorded on the unmodified tree.

Run:  cd /tmp/mut6_C01 && /venv/bin/python _mutants/c1/demo.py
Env:  DEMO_DUMP=<file> writes the full record (for diffing two trees).
"""
import os
import sys

if os.environ.get('PYTHONHASHSEED') != '0':
    # Sets are written to users.conf/channels.conf in iteration order.
    os.environ['PYTHONHASHSEED'] = '0'
    os.execv(sys.executable, [sys.executable] + sys.argv)

EXPECTED = 'ce6e579305924c76b932da7298b721f3470dd4626b399cc450ea91d4a7206b0f'

ROOT = os.getcwd()
sys.path.insert(0, ROOT)

import re
import json
import time
import shutil
import hashlib
import logging
import tempfile
import threading
import traceback

BASE = tempfile.mkdtemp(prefix='c01demo')
for d in ('data', 'data/tmp', 'conf', 'logs', 'backup', 'web'):
    os.makedirs(os.path.join(BASE, d))
REGFILE = os.path.join(BASE, 'conf', 'test.conf')
with open(REGFILE, 'w') as fd:
    fd.write("""
supybot.directories.data: %(b)s/data
supybot.directories.data.tmp: %(b)s/data/tmp
supybot.directories.data.web: %(b)s/web
supybot.directories.conf: %(b)s/conf
supybot.directories.log: %(b)s/logs
supybot.directories.backup: %(b)s/backup
supybot.directories.plugins: %(r)s/plugins
supybot.log.stdout: False
supybot.log.level: DEBUG
supybot.log.plugins.individualLogfiles: False
supybot.protocols.irc.throttleTime: 0
supybot.reply.whenAddressedBy.chars: @
supybot.networks.test.server: should.not.need.this
supybot.networks.test.ssl: False
supybot.nick: bot
supybot.abuse.flood.command: False
supybot.commands.nested.pipeSyntax: True
supybot.abuse.flood.command.invalid: False
supybot.databases.users.allowUnregistration: True
""" % {'b': BASE, 'r': ROOT})

import supybot
assert os.path.realpath(supybot.__file__).startswith(os.path.realpath(ROOT)), \
    supybot.__file__
import supybot.registry as registry
registry.open_registry(REGFILE)
import supybot.log as log
import supybot.conf as conf
conf.supybot.flush.setValue(False)
import supybot.utils as utils
import supybot.world as world
import supybot.ircdb as ircdb
import supybot.irclib as irclib
import supybot.ircmsgs as ircmsgs
import supybot.ircutils as ircutils
import supybot.plugin as plugin
import supybot.schedule as schedule
import supybot.commands as commands
import supybot.callbacks as callbacks
world.registryFilename = REGFILE
assert not world.testing

###
# Recording.
###
RECORD = []
_addr = re.compile(r'0x[0-9a-fA-F]+')
_thr = re.compile(r'Thread #\d+')
_flt = re.compile(r'\d{9,}\.\d+')
_rel = re.compile(r'\((in|every) [^)]*\)')

def norm(x):
    s = x if isinstance(x, str) else repr(x)
    s = s.replace(BASE, '<BASE>').replace(ROOT, '<ROOT>')
    s = _addr.sub('0x?', s)
    s = _thr.sub('Thread #?', s)
    s = _flt.sub('<T>', s)
    s = _rel.sub('(<WHEN>)', s)
    return s

BUFFERS = []
def rec(*items):
    line = ' | '.join(norm(i) for i in items)
    me = threading.current_thread()
    for (t, buf) in BUFFERS:
        if t is me:
            buf.append(line)
            return
    RECORD.append(line)

class Recorder(logging.Handler):
    def emit(self, record):
        if record.name.startswith('supybot'):
            exc = ''
            if record.exc_info and record.exc_info[0] is not None:
                exc = '%s: %s' % (record.exc_info[0].__name__,
                                  record.exc_info[1])
            msg = record.msg
            if isinstance(msg, str) and 'Locals by frame' in msg:
                # The dump of an uncaught exception's stack: line numbers and
                # local variable names of the source, not behaviour.
                msg = '<stack dump>'
            args = record.args
            if not isinstance(args, tuple):
                args = (args,)
            rec('LOG', record.name, record.levelname, msg,
                [norm(a) for a in args], exc)
for h in list(log._logger.handlers):
    log._logger.removeHandler(h)
log._logger.addHandler(Recorder())
log._logger.setLevel(1)

class StdoutRecorder(object):
    """print() is an observable effect too (DefaultCapabilities.setValue)."""
    def __init__(self):
        self.buf = ''
    def write(self, s):
        self.buf += s
        while '\n' in self.buf:
            (line, self.buf) = self.buf.split('\n', 1)
            rec('STDOUT', line)
    def flush(self):
        pass
REAL_STDOUT = sys.stdout
sys.stdout = StdoutRecorder()

def outcome(f, *args, **kwargs):
    try:
        r = f(*args, **kwargs)
        return ('ret', type(r).__name__, r)
    except BaseException as e:
        return ('exc', type(e).__name__, str(e))

def call(label, f, *args, **kwargs):
    rec('CALL', label, [norm(a) for a in args], sorted(kwargs.items()),
        outcome(f, *args, **kwargs))

# What the threads spawned by the bot do is recorded apart and appended, in
# the order the threads were started, once they are over (see drain): the
# order of the observations must not depend on a race with the main thread.
_origStart = world.SupyThread.start
def _recordedStart(self):
    BUFFERS.append((self, []))
    _origStart(self)
world.SupyThread.start = _recordedStart

###
# The bot.
###
conf.registerNetwork('test')
irc = irclib.Irc('test')
PLUGINS = ['Owner', 'Misc', 'Admin', 'Config', 'Channel', 'User', 'Utilities',
           'Scheduler', 'Alias', 'Aka', 'Anonymous', 'String', 'Plugin']
for name in PLUGINS:
    m = plugin.loadPluginModule(name)
    plugin.loadPluginClass(irc, m)
owner_cb = irc.getCallback('Owner')
assert irc.callbacks[0] is owner_cb
# The order among unrelated callbacks depends on object addresses: pin it.
_cbs = sorted(irc.callbacks,
              key=lambda cb: ({'Owner': 0, 'Misc': 2}.get(cb.name(), 1),
                              cb.name()))
irc.callbacks[:] = _cbs
assert irc.callbacks[0] is owner_cb and irc.callbacks[-1].name() == 'Misc'

# Pretend we are connected and in two channels.
irc.feedMsg(ircmsgs.IrcMsg(':srv 001 bot :Welcome'))
irc.feedMsg(ircmsgs.IrcMsg(':srv 005 bot CHANTYPES=# PREFIX=(ov)@+ :are supported'))
irc.prefix = 'bot!bot@bot.host'

PREFIX = {
    'owner': 'own!o@owner.host',
    'admin': 'adm!a@admin.host',
    'chanop': 'cop!c@chanop.host',
    'plain': 'pla!p@plain.host',
    'anticap': 'ant!n@anti.host',
    'unreg': 'unr!u@unreg.host',
    'ignored': 'ign!i@ignored.host',
    'dbignored': 'dbi!d@dbignored.host',
    'secure': 'sec!s@wrong.host',
    'trusted': 'tru!t@trusted.host',
    'server': 'irc.server.example',
    'barenick': 'own',
}

def drain():
    out = []
    while BUFFERS:
        (t, buf) = BUFFERS[0]
        t.join(30)
        assert not t.is_alive(), t
        del BUFFERS[0]
        RECORD.append('THREAD')
        RECORD.extend(buf)
        RECORD.append('THREAD END')
    while True:
        m = irc.takeMsg()
        if m is None:
            break
        out.append(str(m).strip())
    return out

def feed(who, target, text, label=None):
    prefix = PREFIX.get(who, who)
    m = ircmsgs.privmsg(target, text, prefix=prefix)
    rec('FEED', who, target, text)
    try:
        irc.feedMsg(m)
    except BaseException as e:
        rec('FEEDEXC', type(e).__name__, str(e))
    for line in drain():
        rec('OUT', line)

def fileText(path):
    try:
        with open(path) as fd:
            return fd.read()
    except EnvironmentError as e:
        return '<%s>' % type(e).__name__

def snapshot(label):
    ircdb.users.flush()
    ircdb.channels.flush()
    ircdb.ignores.flush()
    rec('SNAP', label, 'users', fileText(ircdb.users.filename))
    rec('SNAP', label, 'channels', fileText(ircdb.channels.filename))
    rec('SNAP', label, 'ignores', sorted(ircdb.ignores.hostmasks.keys()))
    rec('SNAP', label, 'capabilities', sorted(conf.supybot.capabilities()),
        conf.supybot.capabilities.default(),
        sorted(conf.supybot.capabilities.registeredUsers()))
    rec('SNAP', label, 'disabled', sorted(conf.supybot.commands.disabled()))
    rec('SNAP', label, 'aliases',
        sorted((k, v[0], v[1]) for (k, v) in
               irc.getCallback('Alias').aliases.items()))
    sch = irc.getCallback('Scheduler')
    rec('SNAP', label, 'events',
        sorted((k, v['command'], v['type']) for (k, v) in sch.events.items()))
    rec('SNAP', label, 'schedule', sorted(map(str, schedule.schedule.events)))
    rec('SNAP', label, 'nick', conf.supybot.nick(),
        conf.supybot.reply.whenAddressedBy.chars(),
        conf.supybot.reply.whenAddressedBy.chars.get('#chan')(),
        conf.supybot.reply.whenAddressedBy.chars.getSpecific(
            network='test', channel='#chan')())
    rec('SNAP', label, 'plugins', [cb.name() for cb in irc.callbacks])
    rec('SNAP', label, 'chanstate',
        sorted(irc.state.channels.keys()))
    rec('SNAP', label, 'mores', sorted(callbacks.IrcObjectProxy._mores.keys()))

def runScheduled():
    """Runs every pending scheduled event now, the way Schedule.run does."""
    names = sorted(schedule.schedule.events.keys(), key=str)
    for name in names:
        if name not in schedule.schedule.events:
            continue
        f = schedule.schedule.removeEvent(name)
        rec('SCHED', name)
        try:
            f()
        except Exception as e:
            rec('SCHEDEXC', type(e).__name__, str(e))
        for line in drain():
            rec('OUT', line)
    # Periodic events re-scheduled themselves: take them away again.
    for name in list(schedule.schedule.events.keys()):
        if isinstance(name, str):
            pass

###
# Users.
###
def mkuser(name, hostmask, caps=(), ignore=False, secure=False):
    u = ircdb.users.newUser()
    u.name = name
    u.hashed = False   # no random salt in users.conf
    u.setPassword('pw' + name)
    if hostmask:
        u.addHostmask(hostmask)
    for c in caps:
        u.addCapability(c)
    u.ignore = ignore
    u.secure = secure
    ircdb.users.setUser(u)
    return u

mkuser('own', '*!*@owner.host', ['owner'])
mkuser('adm', '*!*@admin.host', ['admin'])
mkuser('cop', '*!*@chanop.host', ['#chan,op'])
mkuser('pla', '*!*@plain.host', [])
mkuser('ant', '*!*@anti.host', ['-utilities.echo', '#chan,-string.len',
                                 '-misc', 'admin'])
mkuser('ign', '*!*@ignored.host', ['admin'], ignore=True)
mkuser('tru', '*!*@trusted.host', ['trusted'])
sec = mkuser('sec', '*!*@secure.host', ['owner'], secure=True)
# A secure user recognised through an authentication made from a hostmask that
# matches nothing any more.
sec.auth.append((time.time(), PREFIX['secure']))
ircdb.ignores.add('*!*@dbignored.host')

def joinAll():
    irc.feedMsg(ircmsgs.join('#chan', prefix=irc.prefix))
    irc.feedMsg(ircmsgs.join('#other', prefix=irc.prefix))
    for who in ('owner', 'admin', 'chanop', 'plain', 'anticap', 'unreg',
                'ignored', 'dbignored', 'secure', 'trusted'):
        irc.feedMsg(ircmsgs.join('#chan', prefix=PREFIX[who]))
    irc.feedMsg(ircmsgs.IrcMsg(':srv MODE #chan +o bot'))
    drain()
joinAll()
snapshot('start')

###
# Part 1: the capability algebra, called directly.
###
CAPS = ['owner', '-owner', 'admin', '-admin', 'OWNER', '-Owner', 'trusted',
        '-trusted', 'foo', '-foo', 'Foo', '#chan,op', '#chan,-op',
        '#CHAN,Op', '#chan,foo', '#chan,-foo', '#other,op', '#other,-op',
        '#other,foo', '#nochan,bar', '#nochan,-bar', 'a b', ' owner', '',
        '-', ',', '#chan,', '#chan,-', 'chan,op', '#chan,a b', 'foo,bar',
        '#chan,#chan,op', '#chan,-#other,op', 'utilities.echo',
        '-utilities.echo', '#chan,string.len', '#chan,-string.len',
        'scheduler.add', '-scheduler.add', '-alias.add', 'alias.add',
        'misc', '-misc', '&loc,op', '[x],{y}', '-[x]']
for f in ('isCapability', 'isChannelCapability', 'isAntiCapability',
          'fromChannelCapability', 'makeAntiCapability', 'unAntiCapability',
          'invertCapability', 'canonicalCapability'):
    for c in CAPS:
        call('ircdb.' + f, getattr(ircdb, f), c)
call('canonicalCapability', ircdb.canonicalCapability, lambda: 'OwNeR')
call('canonicalCapability', ircdb.canonicalCapability, lambda: 'a b')
for (chan, cap) in [('#chan', 'op'), ('#chan', '-op'), ('chan', 'op'),
                    ('#chan', 'a b'), ('#c', '#c,op'), ('#chan', '')]:
    call('makeChannelCapability', ircdb.makeChannelCapability, chan, cap)

def capset(cls, items):
    s = cls()
    for i in items:
        s.add(i)
    return s
for cls in (ircdb.CapabilitySet, ircdb.UserCapabilitySet):
    for items in ([], ['foo'], ['-foo'], ['owner'], ['owner', '-foo'],
                  ['Admin', '#chan,-op'], ['foo', '-foo'], ['-foo', 'foo'],
                  ['#chan,op', '#CHAN,-Op']):
        s = capset(cls, items)
        rec('SET', cls.__name__, items, sorted(s), repr(sorted(s)))
        for c in ['foo', '-foo', 'FOO', 'owner', '-owner', 'admin', '-admin',
                  '#chan,op', '#chan,-op', '#Chan,OP', 'bar', '-bar']:
            call('in', s.__contains__, c)
            call('check', s.check, c)
            call('checkIO', s.check, c, ignoreOwner=True)
            if cls is ircdb.UserCapabilitySet:
                call('inIO', s.__contains__, c, True)
call('UserCapabilitySet.add', ircdb.UserCapabilitySet().add, '-owner')
call('UserCapabilitySet.add', ircdb.UserCapabilitySet().add, '-OWNER')
call('CapabilitySet.remove', ircdb.CapabilitySet(['a']).remove, 'b')
call('CapabilitySet.remove', ircdb.CapabilitySet(['a']).remove, 'A')

for name in ('own', 'adm', 'cop', 'pla', 'ant', 'ign', 'tru', 'sec'):
    u = ircdb.users.getUser(name)
    for c in CAPS:
        if ircdb.isCapability(c):
            call('user._checkCapability ' + name, u._checkCapability, c)
            call('user._checkCapabilityIO ' + name, u._checkCapability, c,
                 ignoreOwner=True)

def channelMatrix(label):
    for chan in ('#chan', '#other', '#fresh'):
        c = ircdb.channels.getChannel(chan)
        for cap in ['op', '-op', 'foo', '-foo', 'halfop', 'voice', '-voice',
                    'protected', 'string.len', '-string.len', 'Foo', 'a b']:
            call('channel._checkCapability %s %s' % (label, chan),
                 c._checkCapability, cap)
            call('channel._checkCapabilityIO %s %s' % (label, chan),
                 c._checkCapability, cap, ignoreOwner=True)

def matrix(label, caps=CAPS, whos=None):
    """ircdb.checkCapability & co. for every role."""
    for who in whos or sorted(PREFIX):
        prefix = PREFIX[who]
        for c in caps:
            if not ircdb.isCapability(c):
                continue
            call('checkCapability %s %s' % (label, who),
                 ircdb.checkCapability, prefix, c)
            for kw in ({'ignoreOwner': True}, {'ignoreChannelOp': True},
                       {'ignoreDefaultAllow': True},
                       {'ignoreOwner': True, 'ignoreChannelOp': True,
                        'ignoreDefaultAllow': True}):
                call('checkCapability %s %s' % (label, who),
                     ircdb.checkCapability, prefix, c, **kw)
        call('checkCapabilities any', ircdb.checkCapabilities, prefix,
             ['foo', 'admin', '#chan,op'])
        call('checkCapabilities all', ircdb.checkCapabilities, prefix,
             ['foo', 'admin', '#chan,op'], requireAll=True)
        call('checkCapabilities all1', ircdb.checkCapabilities, prefix,
             ['foo'], requireAll=1)
        call('checkCapabilities none', ircdb.checkCapabilities, prefix,
             ['-foo', 'owner'], requireAll=0)
        call('checkCapabilities empty', ircdb.checkCapabilities, prefix, [])
        call('checkCapabilities emptyAll', ircdb.checkCapabilities, prefix,
             iter([]), requireAll='yes')
        call('checkIgnored', ircdb.checkIgnored, prefix)
        call('checkIgnored #chan', ircdb.checkIgnored, prefix, '#chan')
    for idOrName in (1, 2, 4, 99, 'own', 'OWN', 'pla', 'nobody', ''):
        for c in ('owner', 'admin', '-admin', '#chan,op', 'foo', '-foo'):
            call('checkCapability byid ' + label, ircdb.checkCapability,
                 idOrName, c)

channelMatrix('default')
matrix('default')

# Non-default configuration.
chan = ircdb.channels.getChannel('#chan')
chan.addCapability('-string.len')
chan.addCapability('foo')
other = ircdb.channels.getChannel('#other')
other.setDefaultCapability(False)
other.addCapability('op')
ircdb.channels.setChannel('#chan', chan)
ircdb.channels.setChannel('#other', other)
channelMatrix('chancaps')
SMALL = ['owner', '-owner', 'admin', '-admin', 'foo', '-foo', '#chan,op',
         '#chan,-op', '#chan,foo', '#chan,-foo', '#other,op', '#other,foo',
         '#other,-foo', '#chan,string.len', '#chan,-string.len',
         'utilities.echo', '-utilities.echo', 'trusted', '-trusted',
         'scheduler.add', '-scheduler.add', 'bar', '-bar']
matrix('chancaps', SMALL)
conf.supybot.capabilities.default.setValue(False)
matrix('default=False', SMALL)
conf.supybot.capabilities().add('foo')
conf.supybot.capabilities().add('-bar')
conf.supybot.capabilities.registeredUsers().add('bar')
conf.supybot.capabilities.registeredUsers().add('-foo')
conf.supybot.capabilities.registeredUsers().add('baz')
matrix('default=False+defaults', SMALL + ['baz', '-baz'])
conf.supybot.capabilities.default.setValue(True)
matrix('defaults', SMALL + ['baz', '-baz'])
conf.supybot.capabilities().remove('foo')
conf.supybot.capabilities().remove('-bar')
conf.supybot.capabilities.registeredUsers.setValue([])
conf.supybot.defaultIgnore.setValue(True)
matrix('defaultIgnore', ['owner', 'foo'])
conf.supybot.defaultIgnore.setValue(False)

# Two users matching one hostmask.
dup = ircdb.users.newUser()
dup.name = 'dup'
dup.hostmasks.add('*!*@plain.host')
ircdb.users.users[dup.id] = dup
ircdb.users._hostmaskCache.clear()
call('dup getUserId', ircdb.users.getUserId, PREFIX['plain'])
call('dup checkCapability', ircdb.checkCapability, PREFIX['plain'], 'admin')
call('dup checkCapability', ircdb.checkCapability, PREFIX['plain'], '-admin')
ircdb.users.delUser(dup.id)
ircdb.users.getUser('pla').addHostmask('*!*@plain.host')
ircdb.users.setUser(ircdb.users.getUser('pla'))
for s in ('own', 'OWN', 'nobody', PREFIX['owner'], PREFIX['unreg'],
          PREFIX['secure'], PREFIX['owner'], 'own'):
    call('getUserId', ircdb.users.getUserId, s)
    call('hasUser', ircdb.users.hasUser, s)
snapshot('after-part1')

###
# Part 2: callbacks.checkCommandCapability and the converters.
###
class FakeCb(object):
    def __init__(self, name):
        self._name = name
    def name(self):
        return self._name

def cccMatrix(label):
    for who in sorted(PREFIX):
        for target in ('#chan', '#other', 'bot'):
            m = ircmsgs.privmsg(target, 'x', prefix=PREFIX[who])
            irc._setMsgChannel(m)
            for (cbname, cmd) in [
                    ('Utilities', 'echo'), ('Utilities', ['utilities']),
                    ('Utilities', ['utilities', 'echo']),
                    ('String', 'len'), ('String', ['string', 'len']),
                    ('Misc', 'version'), ('Misc', ['misc']),
                    ('Misc', ['misc', 'version']),
                    ('Owner', ['owner']), ('Owner', 'flush'),
                    ('Admin', ['admin', 'capability', 'add']),
                    ('Admin', ['admin']), ('Admin', 'add'),
                    ('Scheduler', ['scheduler', 'add']),
                    ('Alias', ['alias', 'add']), ('Aka', ['aka', 'add']),
                    ('Utilities', ['other', 'echo']),
                    ('Foo', 'foo'), ('Foo', 'bar'), ('Foo', ['foo', 'baz'])]:
                call('checkCommandCapability %s %s %s' % (label, who, target),
                     callbacks.checkCommandCapability, m, FakeCb(cbname), cmd)

cccMatrix('default')
conf.supybot.capabilities().add('-foo')
conf.supybot.capabilities().add('#chan,-baz') if False else None
conf.supybot.capabilities.default.setValue(False)
cccMatrix('default=False')
conf.supybot.capabilities.default.setValue(True)
conf.supybot.capabilities().remove('-foo')

class FakeReplyIrc(object):
    """What dynamic.irc resolves to for the converters' error methods."""
    def __init__(self):
        self.nick = 'bot'
        self.network = 'test'
        self.state = irc.state
    def isChannel(self, s):
        return irc.isChannel(s)
    def __getattr__(self, attr):
        if attr.startswith('error'):
            def f(*args, **kwargs):
                rec('STATEERR', attr, args, sorted(kwargs.items()))
                if kwargs.get('Raise'):
                    raise callbacks.Error('%s%r' % (attr, args))
            return f
        raise AttributeError(attr)

def converter(label, name, who, target, args, *extra):
    fake = FakeReplyIrc()
    m = ircmsgs.privmsg(target, 'x', prefix=PREFIX[who])
    irc._setMsgChannel(m)
    state = commands.State([])
    state.log = log
    args = list(args)
    def run(irc, msg):
        commands.callConverter(name, irc, msg, args, state, *extra)
    rec('CONV', label, name, who, target, extra, outcome(run, fake, m),
        args, state.args, state.channel, state.errored)

for who in sorted(PREFIX):
    for target in ('#chan', 'bot'):
        converter('c', 'owner', who, target, ['x'])
        converter('c', 'admin', who, target, ['x'])
        converter('c', 'checkCapability', who, target, ['x'], 'Admin')
        converter('c', 'checkCapability', who, target, [], 'foo')
        converter('c', 'checkCapability', who, target, [], '-foo')
        converter('c', 'checkCapability', who, target, [], lambda: 'TRUSTED')
        converter('c', 'checkCapability', who, target, [], 'a b')
        converter('c', 'checkCapabilityButIgnoreOwner', who, target, [], 'admin')
        converter('c', 'checkCapabilityButIgnoreOwner', who, target, [], 'Foo')
        converter('c', 'checkChannelCapability', who, target, ['x'], 'op')
        converter('c', 'checkChannelCapability', who, target, ['#other', 'x'], 'OP')
        converter('c', 'checkChannelCapability', who, target, ['#chan'], 'foo')
        converter('c', 'checkChannelCapability', who, target, [], '-foo')
        converter('c', 'op', who, target, ['#other'])
        converter('c', 'op', who, target, [])
        converter('c', 'halfop', who, target, ['#chan', 'y'])
        converter('c', 'voice', who, target, ['nochan'])
        converter('c', 'channel', who, target, ['#x', 'y'])
        converter('c', 'channel', who, target, [])
        converter('c', 'private', who, target, [])
        converter('c', 'public', who, target, [])
        converter('c', 'user', who, target, [])

###
# Part 3: Config's capability for a variable.
###
Config = sys.modules[irc.getCallback('Config').__module__]
for name in ['supybot.nick', 'nick', 'supybot.reply.whenAddressedBy.chars',
             'supybot.reply.whenAddressedBy.chars.#chan',
             'reply.whenAddressedBy.chars.#chan',
             'supybot.reply.whenAddressedBy.chars.:test.#chan',
             'supybot.plugins.Owner.public', 'supybot.commands.allowShell',
             'supybot.directories.conf', 'directories.plugins',
             'supybot.capabilities', 'supybot.capabilities.default',
             'supybot.networks.test.password', 'users.plugins',
             'supybot.nosuch', 'nosuch.#chan', 'supybot', 'users', '',
             'supybot.networks.test.channels.key.#chan',
             'supybot.plugins.Channel.nicksInPrivate.#chan',
             'foo.bar', 'supybot..nick', 'Supybot.nick']:
    call('Config.getCapability', Config.getCapability, irc, name)
    call('Config.getWrapper', lambda n: Config.getWrapper(n)._name, name)
    call('Config.isReadOnly', Config.isReadOnly, name)


###
# Part 3b: plugin internals, called directly.
###
Alias = sys.modules[irc.getCallback('Alias').__module__]

class FakeAliasPlugin(object):
    def __init__(self):
        self.calls = []
    def Proxy(self, irc, msg, tokens, nested=0):
        self.calls.append((tokens, nested))

class FakeNestedIrc(object):
    nested = 3

TEMPLATES = ['echo $1', 'echo $1 $2 @1', 'echo $*', 'echo [echo $*] tail',
             'echo a$*b', 'echo [foo [bar $*]] $*', 'echo $* @1',
             'echo $1 [echo [echo $2]] @1 @2', 'echo $nick $channel $1',
             '[echo x] y', 'echo $1 $*', 'echo $2', 'echo "$1 $1" $3',
             'echo $10', 'echo [foo [bar x$*y]]', 'echo @2', 'echo',
             'echo [a [b [c $1]]] [d @1]', 'echo "unterminated',
             'echo $1 | echo $2']
ARGLISTS = [[], ['a'], ['a', 'b'], ['a', 'b', 'c', 'd'], ['#chan', 'a'],
            ['#other', 'a', 'b'], ['x' * 1000, 'y']]
for template in TEMPLATES:
    rec('ALIAS', template, Alias.findBiggestDollar(template),
        Alias.findBiggestAt(template))
    made = outcome(Alias.makeNewAlias, 'demo', template)
    if made[0] != 'ret':
        rec('ALIAS', template, made)
        continue
    f = made[2]
    rec('ALIAS', template, f.__name__, f.__doc__)
    for args in ARGLISTS:
        for target in ('#chan', 'bot'):
            fakePlugin = FakeAliasPlugin()
            m = ircmsgs.privmsg(target, 'x', prefix=PREFIX['plain'])
            irc._setMsgChannel(m)
            args2 = list(args)
            rec('ALIAS', template, args, target,
                outcome(f, fakePlugin, FakeNestedIrc(), m, args2),
                fakePlugin.calls, args2)
for args in ARGLISTS:
    for kw in ({}, {'required': 2}, {'required': 0, 'optional': 2},
               {'required': 1, 'optional': 1, 'wildcard': 1},
               {'required': 2, 'wildcard': True}):
        call('Alias.getArgs', Alias.getArgs, args, **kw)

def cbProbe(label):
    for cbname in ('Owner', 'Admin', 'Alias', 'Aka', 'Utilities', 'Config',
                   'Scheduler', 'Channel'):
        cb = irc.getCallback(cbname)
        for name in ('echo', 'Echo', 'add', 'remove', 'flush', 'doPrivmsg',
                     'do_privmsg', '__init__', 'name', 'log', 'callCommand',
                     'threaded', 'die', 'capability', 'list', 'nosuch',
                     'demoalias', 'is-command', 'isCommand', 'op', 'cycle'):
            call('isCommandMethod %s %s' % (label, cbname),
                 cb.isCommandMethod, name)
            call('isCommand %s %s' % (label, cbname), cb.isCommand, name)
        for command in (['echo'], ['add'], ['admin', 'capability', 'add'],
                        ['capability', 'add'], ['capability'], ['admin'],
                        ['admin', 'nosuch'], ['alias', 'add'], ['owner'],
                        ['owner', 'flush'], ['flush', 'x'], ['demoalias'],
                        ['alias', 'demoalias', 'x'], ['die'], ['threaded'],
                        ['channel', 'capability', 'set'], ['scheduler']):
            call('getCommand %s %s' % (label, cbname), cb.getCommand, command)
            call('isCommandL %s %s' % (label, cbname), cb.isCommand, command)
            call('getCommandMethod %s %s' % (label, cbname),
                 lambda c: getattr(cb.getCommandMethod(c), '__name__', None),
                 command)
        rec('LISTCOMMANDS', label, cbname, cb.listCommands())

irc_ = irc       # dynamic.irc, for Aka.isCommandMethod
def withDynamicIrc(f):
    irc = irc_
    return f()
withDynamicIrc(lambda: cbProbe('plain'))
al = irc.getCallback('Alias')
call('addAlias', al.addAlias, irc, 'demoalias', 'echo $1')
call('addAlias', al.addAlias, irc, 'die', 'echo dying')
call('addAlias', al.addAlias, irc, 'threaded', 'echo threading')
call('addAlias', al.addAlias, irc, 'add', 'echo no')
call('addAlias', al.addAlias, irc, 'Bad_Name', 'echo no')
call('addAlias', al.addAlias, irc, 'a b', 'echo no')
call('addAlias', al.addAlias, irc, 'locked', 'echo l', True)
call('addAlias', al.addAlias, irc, 'locked', 'echo other')
call('addAlias', al.addAlias, irc, 'locked', 'echo l')
call('addAlias', al.addAlias, irc, 'dotted.name', 'echo d')
call('addAlias', al.addAlias, irc, 'nest', '[echo x] y')
conf.supybot.commands.disabled().add('Alias.demoalias')
callbacks.Commands._disabled.add('demoalias', 'Alias')
withDynamicIrc(lambda: cbProbe('aliases'))
call('removeAlias disabled', al.removeAlias, 'demoalias')
conf.supybot.commands.disabled().remove('Alias.demoalias')
callbacks.Commands._disabled.remove('demoalias', 'Alias')
for (name, kw) in (('nosuch', {}), ('locked', {}), ('add', {}),
                   ('locked', {'evenIfLocked': True}), ('locked', {}),
                   ('Demo-Alias', {}), ('dotted.name', {}), ('die', {}),
                   ('threaded', {'evenIfLocked': 0})):
    call('removeAlias', al.removeAlias, name, **kw)
    rec('ALIASES', sorted(al.aliases))

# The scheduled callables.
sch = irc.getCallback('Scheduler')
m = ircmsgs.privmsg('#chan', 'x', prefix=PREFIX['plain'])
irc._setMsgChannel(m)
for (network, command, remove) in (('test', 'echo direct', True),
                                   ('nonet', 'owner flush', True),
                                   ('test', 'echo [nest', True),
                                   ('test', 'echo kept', False)):
    f = sch._makeCommandFunction(network, m, command, remove)
    rec('SCHEDFN', network, command, remove, callable(f),
        hasattr(f, 'eventId'))
    call('schedfn no id', f)
    for line in drain():
        rec('OUT', line)
    f.eventId = 77
    sch.events['77'] = {'fake': True}
    call('schedfn', f)
    for line in drain():
        rec('OUT', line)
    rec('SCHEDFN events', sorted(sch.events))
    sch.events.pop('77', None)
id1 = sch._add('nonet', m, time.time() + 500, 'echo added directly')
id2 = sch._add('test', m, time.time() + 500, 'remember', is_reminder=True)
sch._repeat('test', m, 'rep', 500, 'echo repeated', time.time(), 100)
rec('SCHED ids', id1, id2, sorted(sch.events), sorted(map(str, schedule.schedule.events)))
runScheduled()
rec('SCHED after', sorted(sch.events), sorted(map(str, schedule.schedule.events)))
runScheduled()
sch.events.pop('rep', None)
schedule.removeEvent('rep')

# Who matches a hostmask, with logins that time out.
conf.supybot.databases.users.timeoutIdentification.setValue(100)
u = ircdb.users.getUser('pla')
u.auth[:] = [(time.time() - 1000, 'old!o@gone.host'),
             (time.time(), 'new!n@fresh.host'),
             (time.time() - 500, 'mid!m@gone.host')]
for s_ in ('old!o@gone.host', 'new!n@fresh.host', 'mid!m@gone.host',
           'new!n@fresh.host', PREFIX['plain']):
    call('getUserId auth', ircdb.users.getUserId, s_)
    rec('AUTH', [h for (t, h) in u.auth])
    call('checkCapability auth', ircdb.checkCapability, s_, 'admin')
u.auth[:] = [(time.time() - 1000, 'new!n@fresh.host')]
call('getUserId stale cache', ircdb.users.getUserId, 'new!n@fresh.host')
rec('AUTH', [h for (t, h) in u.auth])
conf.supybot.databases.users.timeoutIdentification.setValue(0)
call('_idsMatching-free path', ircdb.users.getUserId, 'x!y@plain.host')

class Counting(object):
    def __init__(self, items):
        self.items = list(items)
        self.taken = 0
    def __iter__(self):
        for i in self.items:
            self.taken += 1
            yield i
for (caps, kw) in ((['foo', 'owner', 'admin'], {}),
                   (['owner', 'foo', 'admin'], {}),
                   (['foo', 'owner', 'admin'], {'requireAll': True}),
                   (['owner', 'admin', 'foo'], {'requireAll': True}),
                   (['-owner', '-admin'], {'requireAll': True}),
                   ([], {'requireAll': []})):
    for who in ('owner', 'plain', 'unreg'):
        c_ = Counting(caps)
        call('checkCapabilities counting ' + who, ircdb.checkCapabilities,
             PREFIX[who], c_, **kw)
        rec('TAKEN', c_.taken)
for cap in ('foo', '-foo', '#chan,foo', '#chan,-foo'):
    for ret in (True, False, 0, 1, None, 'x', []):
        call('_x', ircdb._x, cap, ret)


ROLES_ALL = ['owner', 'admin', 'chanop', 'plain', 'anticap', 'unreg',
             'ignored', 'dbignored', 'secure', 'trusted']

###
# Part 3c: a synthetic plugin whose commands say when they take effect.
###
from supybot.commands import wrap, optional, additional, many, first

def effect(*what):
    rec('EFFECT', *what)

def softFail(irc, msg, args, state):
    if args and args[0] == 'fail':
        state.error('soft failure', Raise=False)
    elif args and args[0] == 'quiet':
        state.error('', Raise=False)
    state.args.append(args.pop(0))
commands.addConverter('softFail', softFail)

class Demo(callbacks.Plugin):
    """Synthetic commands for the demo."""
    def ownergated(self, irc, msg, args):
        """takes no arguments

        Owner only."""
        effect('ownergated', msg.prefix)
        irc.replySuccess()
    ownergated = wrap(ownergated, ['owner'])

    def admingated(self, irc, msg, args, text):
        """<text>

        Admin only."""
        effect('admingated', msg.prefix, text)
        irc.reply('admin says ' + text)
    admingated = wrap(admingated, ['admin', 'text'])

    def capgated(self, irc, msg, args, thing):
        """[<thing>]

        Needs demo.cap."""
        effect('capgated', msg.prefix, thing)
        irc.reply('cap ok')
    capgated = wrap(capgated, [('checkCapability', 'Demo.Cap'),
                               optional('something')])

    def capnoowner(self, irc, msg, args):
        """takes no arguments

        Needs demo.cap, owner or not."""
        effect('capnoowner', msg.prefix)
        irc.reply('capnoowner ok')
    capnoowner = wrap(capnoowner,
                      [('checkCapabilityButIgnoreOwner', 'demo.cap')])

    def opgated(self, irc, msg, args, channel, nick):
        """[<channel>] <nick>

        Needs #channel,op."""
        effect('opgated', msg.prefix, channel, nick)
        irc.reply('op ok in %s' % channel)
    opgated = wrap(opgated, ['op', 'something'])

    def chancap(self, irc, msg, args, channel):
        """[<channel>]

        Needs #channel,demo.chan."""
        effect('chancap', msg.prefix, channel)
        irc.reply('chancap ok in %s' % channel)
    chancap = wrap(chancap, [('checkChannelCapability', 'demo.chan')])

    def inchan(self, irc, msg, args, channel, other):
        """<channel>

        In-channel only."""
        effect('inchan', msg.prefix, channel, other)
        irc.reply('inchan %s %s' % (channel, other))
    inchan = wrap(inchan, ['onlyInChannel', 'callerInGivenChannel'])

    def spaces(self, irc, msg, args, a, b):
        """<a> <b>

        Arguments."""
        effect('spaces', a, b)
        irc.reply('%s/%s' % (a, b))
    spaces = wrap(spaces, ['somethingWithoutSpaces', 'something'])

    def boom(self, irc, msg, args, kind):
        """<kind>

        Raises."""
        effect('boom', kind)
        if kind == 'error':
            raise callbacks.Error('an error')
        elif kind == 'silent':
            raise callbacks.SilentError('hush')
        elif kind == 'argument':
            raise callbacks.ArgumentError()
        elif kind == 'syntax':
            raise SyntaxError('bad syntax')
        elif kind == 'nocap':
            irc.errorNoCapability('demo.boom', 'extra text')
        elif kind == 'nocapquiet':
            effect('returned', irc.errorNoCapability('demo.boom',
                                                     Raise=False))
        elif kind == 'nocapraise':
            irc.errorNoCapability('owner', Raise=True)
        elif kind == 'noreply':
            irc.noReply()
        else:
            raise ValueError('a bug')
    boom = wrap(boom, ['something'])

    def soft(self, irc, msg, args, what):
        """<what>

        Its converter may report an error without raising."""
        effect('soft', msg.prefix, what)
        irc.reply('soft ' + what)
    soft = wrap(soft, ['softFail'])

    def plain(self, irc, msg, args):
        """takes no arguments

        Not wrapped."""
        effect('plain', msg.prefix, args)
        irc.reply('plain ' + ' '.join(args))

    class sub(callbacks.Commands):
        def inner(self, irc, msg, args):
            """takes no arguments

            A nested command."""
            effect('sub inner', msg.prefix)
            irc.reply('inner ok')
        inner = wrap(inner)

        def ownerinner(self, irc, msg, args):
            """takes no arguments

            A nested owner command."""
            effect('sub ownerinner', msg.prefix)
            irc.reply('ownerinner ok')
        ownerinner = wrap(ownerinner, ['owner'])

class Threadly(callbacks.Plugin):
    """Synthetic threaded commands."""
    threaded = True
    def __init__(self, irc):
        callbacks.Plugin.__init__(self, irc)
        self.askedNoIgnore = 0

    def noIgnore(self, irc, msg):
        self.askedNoIgnore += 1
        return msg.args[1].startswith('!!')

    def doPrivmsg(self, irc, msg):
        effect('Threadly.doPrivmsg', msg.prefix, msg.args[1][:20])

    def doNotice(self, irc, msg):
        effect('Threadly.doNotice', msg.prefix)

    def slow(self, irc, msg, args):
        """takes no arguments

        Threaded, owner only."""
        effect('slow', msg.prefix, threading.current_thread().name)
        irc.replySuccess()
    slow = wrap(slow, ['owner'])

    def invalidCommand(self, irc, msg, tokens):
        effect('Threadly.invalidCommand', msg.prefix, tokens)

for cls in (Demo, Threadly):
    conf.registerPlugin(cls.__name__)
    cls.__module__ = 'Demo.plugin'
    irc.addCallback(cls(irc))
irc.callbacks[:] = sorted(irc.callbacks,
    key=lambda cb: ({'Owner': 0, 'Misc': 2}.get(cb.name(), 1), cb.name()))
assert irc.callbacks[0] is owner_cb
rec('CALLBACKS', [cb.name() for cb in irc.callbacks])
withDynamicIrc(lambda: rec('DEMOCMDS', irc.getCallback('Demo').listCommands(),
                           irc.getCallback('Threadly').listCommands()))

def demoRound(label, roles):
    for who in roles:
        for text in ('ownergated', 'demo ownergated', 'admingated hi there',
                     'capgated', 'capgated thing', 'capnoowner',
                     'opgated pla', 'opgated #other pla', 'chancap',
                     'chancap #other', 'inchan #chan', 'inchan #other',
                     'inchan nochan', 'spaces a b', 'spaces "a b" c',
                     'spaces a ""', 'soft ok', 'soft fail', 'soft quiet',
                     'echo [soft fail] x', 'plain x y', 'demo plain', 'sub inner',
                     'demo sub inner', 'inner', 'sub ownerinner',
                     'demo sub ownerinner', 'ownerinner',
                     'echo [ownergated]', 'echo [capgated] [sub inner]',
                     'echo a | demo plain', 'ownergated | echo',
                     'boom error', 'boom silent', 'boom argument',
                     'boom syntax', 'boom nocap', 'boom nocapquiet',
                     'boom nocapraise', 'boom noreply', 'boom bug',
                     'echo [boom noreply] after', 'echo [boom error] after',
                     'slow', 'threadly slow', 'echo [slow]', 'nosuchthing',
                     'demo nosuchthing', '!!bang'):
            feed(who, '#chan', '@' + text)
            feed(who, 'bot', text)
        feed(who, '#chan', '!!not addressed')
        feed(who, '#chan', 'just talking')
        m_ = ircmsgs.notice('#chan', 'a notice', prefix=PREFIX[who])
        irc.feedMsg(m_)
        for line in drain():
            rec('OUT', line)
    rec('ASKED', irc.getCallback('Threadly').askedNoIgnore)

demoRound('default', ROLES_ALL)
u = ircdb.users.getUser('pla')
u.addCapability('demo.cap')
u.addCapability('#other,demo.chan')
u.addCapability('-demo.plain')
ircdb.users.setUser(u)
u = ircdb.users.getUser('own')
u.addCapability('-demo.cap')
ircdb.users.setUser(u)
conf.supybot.capabilities().add('-demo.sub.inner')
conf.supybot.capabilities().add('-threadly')
ircdb.channels.getChannel('#chan').addCapability('-demo.spaces')
ircdb.channels.getChannel('#chan').addCapability('demo.chan')
demoRound('caps', ['owner', 'plain', 'unreg', 'chanop'])
conf.supybot.reply.error.detailed.setValue(True)
conf.supybot.reply.error.noCapability.setValue(True)
demoRound('detailed', ['plain', 'owner'])
conf.supybot.reply.error.detailed.setValue(False)
conf.supybot.reply.error.noCapability.setValue(False)
conf.supybot.debug.threadAllCommands.setValue(True)
demoRound('threadAll', ['plain', 'owner'])
conf.supybot.debug.threadAllCommands.setValue(False)
u = ircdb.users.getUser('pla')
for cap in ('demo.cap', '#other,demo.chan', '-demo.plain'):
    u.removeCapability(cap)
ircdb.users.setUser(u)
u = ircdb.users.getUser('own')
u.removeCapability('-demo.cap')
ircdb.users.setUser(u)
conf.supybot.capabilities().remove('-demo.sub.inner')
conf.supybot.capabilities().remove('-threadly')
ircdb.channels.getChannel('#chan').removeCapability('-demo.spaces')
ircdb.channels.getChannel('#chan').removeCapability('demo.chan')
snapshot('after-demo-plugin')

###
# Part 4: the bot on IRC.
###
conf.supybot.reply.whenAddressedBy.nick.atEnd.setValue(True)
ROLES = ['owner', 'admin', 'chanop', 'plain', 'anticap', 'unreg', 'ignored',
         'dbignored', 'secure', 'trusted']

def forms(cmd):
    """(target, text) for every addressing form."""
    return [('#chan', '@' + cmd), ('#chan', 'bot: ' + cmd),
            ('bot', cmd), ('#chan', cmd + ', bot'), ('#chan', cmd)]

def wrappers(plug, cmd):
    """Every invocation wrapper around 'plug cmd'."""
    return [cmd, '%s %s' % (plug, cmd),
            'echo [%s]' % cmd, 'echo [%s %s]' % (plug, cmd),
            'echo x | %s' % cmd if ' ' not in cmd else cmd + ' | echo',
            ]

GATED = [
    ('owner', 'defaultcapability add -demo.one'),
    ('owner', 'disable echo'),
    ('owner', 'enable echo'),
    ('owner', 'ircquote PRIVMSG #other :raw'),
    ('owner', 'flush'),
    ('admin', 'capability add pla demo.two'),
    ('admin', 'ignore add *!*@evil.host'),
    ('admin', 'join #joined'),
    ('admin', 'nick bot2'),
    ('config', 'supybot.reply.whenAddressedBy.chars "@!"'),
    ('config', 'channel #chan supybot.reply.whenAddressedBy.chars "%"'),
    ('config', 'supybot.capabilities.private secretcap'),
    ('channel', 'op #chan pla'),
    ('channel', 'capability set #chan unr -demo.three'),
    ('channel', 'lobotomy add #other'),
    ('channel', 'ignore add #chan *!*@x.host'),
    ('user', 'list'),
    ('scheduler', 'add 1000 "echo scheduled"'),
    ('alias', 'add demoalias "echo aliased $1"'),
    ('aka', 'add demoaka "echo akaed $1"'),
    ('utilities', 'echo hello'),
    ('string', 'len abc'),
    ('misc', 'version'),
    ('anonymous', 'say #chan hi'),
]

def resetChars():
    chars = conf.supybot.reply.whenAddressedBy.chars
    chars.get('#chan').setValue('@')
    chars.get(':test').get('#chan').setValue('@')

def undo():
    """Back to the initial state, as the owner would."""
    conf.supybot.capabilities().discard('-demo.one')
    conf.supybot.commands.disabled().discard('echo')
    try:
        callbacks.Commands._disabled.remove('echo')
    except KeyError:
        pass
    for cap in ('demo.two', 'admin'):
        try:
            u = ircdb.users.getUser('pla')
            u.removeCapability(cap)
            ircdb.users.setUser(u)
        except KeyError:
            pass
    conf.supybot.networks.test.channels().discard('#joined')
    conf.supybot.nick.setValue('bot')
    conf.supybot.networks.test.nick.setValue('')
    conf.supybot.reply.whenAddressedBy.chars.setValue('@')
    resetChars()
    conf.supybot.capabilities.private.setValue([])
    for h in list(ircdb.ignores.hostmasks):
        if h != '*!*@dbignored.host':
            ircdb.ignores.remove(h)
    c = ircdb.channels.getChannel('#chan')
    c.ignores.clear()
    ircdb.channels.getChannel('#other').lobotomized = False
    for u in list(ircdb.users.users.values()):
        for cap in ('#chan,-demo.three', '#chan,demo.three'):
            try:
                u.removeCapability(cap)
            except KeyError:
                pass
    for (name, ev) in list(irc.getCallback('Scheduler').events.items()):
        del irc.getCallback('Scheduler').events[name]
        try:
            schedule.removeEvent(int(name) if ev['type'] == 'single' else name)
        except KeyError:
            pass
    al = irc.getCallback('Alias')
    for name in list(al.aliases):
        al.removeAlias(name, evenIfLocked=True)
    irc.getCallback('Admin').joins.clear()
    irc.getCallback('Admin').pendingNickChanges.clear()
    callbacks.IrcObjectProxy._mores.clear()

n = 0
for (plug, cmd) in GATED:
    for who in ROLES:
        variants = []
        for w in wrappers(plug, cmd):
            for (target, text) in forms(w):
                variants.append((target, text))
        # Not the full product for everybody: every role gets every wrapper
        # with the prefix char and in private, and the other addressing
        # forms with the direct command.
        for (i, (target, text)) in enumerate(variants):
            wrapperIndex = i // 5
            form = i % 5
            if form in (0, 2) or wrapperIndex == 0:
                feed(who, target, text)
                n += 1
        snapshot('%s %s %s' % (plug, cmd, who))
        undo()
rec('COUNT', n)

# Anti-capabilities set by an operator, globally, per channel and per user.
conf.supybot.capabilities().add('-utilities.echo')
for who in ROLES:
    for (target, text) in forms('echo one') + forms('utilities echo two') + \
            forms('echo [echo three]') + forms('string len [echo four]'):
        feed(who, target, text)
conf.supybot.capabilities().remove('-utilities.echo')
conf.supybot.capabilities().add('-echo')
for who in ROLES:
    for (target, text) in forms('echo one') + forms('utilities echo two'):
        feed(who, target, text)
conf.supybot.capabilities().remove('-echo')
c = ircdb.channels.getChannel('#chan')
c.addCapability('-utilities.echo')
c.addCapability('-len')
for who in ROLES:
    for (target, text) in forms('echo one') + forms('len two') + \
            forms('echo [len three]') + forms('len [echo four]'):
        feed(who, target, text)
c.removeCapability('-utilities.echo')
c.removeCapability('-len')
c.setDefaultCapability(False)
conf.supybot.capabilities.default.setValue(False)
for who in ROLES:
    for (target, text) in forms('echo one') + forms('version') + \
            forms('channel op #chan pla'):
        feed(who, target, text)
c.setDefaultCapability(True)
for who in ROLES:
    for (target, text) in forms('echo one') + forms('owner flush'):
        feed(who, target, text)
conf.supybot.capabilities.default.setValue(True)
snapshot('after-anticaps')

# Replays: alias, aka and scheduler made by the owner, used by everybody; and
# made by somebody else around an owner command.
def aliasSetup():
    feed('owner', 'bot', 'alias add flushit "owner flush"')
    feed('owner', 'bot', 'alias add sayit "echo said $1 by $nick in $channel"')
    feed('owner', 'bot', 'alias add opt "echo $1 @1 @2"')
    feed('owner', 'bot', 'alias add wild "echo $1 [echo $*]"')
    feed('owner', 'bot', 'alias add giveadmin "admin capability add $1 admin"')
    feed('owner', 'bot', 'alias lock giveadmin')
    feed('owner', 'bot', 'aka add akaflush "owner flush"')
    feed('owner', 'bot', 'aka add akagive "admin capability add $1 admin"')
    feed('owner', 'bot', 'aka add --channel #chan akachan "config channel #chan supybot.reply.whenAddressedBy.chars $1"')

def aliasTeardown():
    for text in ('aka unlock akaflush', 'aka remove akaflush',
                 'aka remove akagive',
                 'aka remove --channel #chan akachan'):
        feed('owner', 'bot', text)
    undo()

for who in ROLES:
    aliasSetup()
    snapshot('aliases ' + who)
    for text in ('flushit', 'alias flushit', 'sayit foo', 'sayit #chan foo',
                 'opt a', 'opt a b c d', 'wild', 'wild a b c',
                 'giveadmin pla', 'echo [giveadmin pla]', 'akaflush',
                 'akagive pla', 'aka akagive pla', 'akachan !',
                 'alias remove giveadmin', 'alias unlock giveadmin',
                 'alias add giveadmin "echo hijacked"',
                 'aka remove akagive', 'aka lock akaflush',
                 'alias add mine "owner flush"', 'mine',
                 'alias remove mine'):
        for (target, t) in (('#chan', '@' + text), ('bot', text)):
            feed(who, target, t)
    snapshot('alias-use ' + who)
    u = ircdb.users.getUser('pla')
    aliasTeardown()

conf.supybot.capabilities().discard('-scheduler.add')
conf.supybot.capabilities().discard('-scheduler.repeat')
conf.supybot.capabilities().discard('-scheduler.remove')
for who in ROLES:
    for (target, text) in [
            ('#chan', '@scheduler add 500 "owner flush"'),
            ('bot', 'scheduler add 500 "admin capability add pla admin"'),
            ('#chan', '@scheduler add 500 "echo [config supybot.nick hacked]"'),
            ('#chan', '@scheduler add 500 "echo fine"'),
            ('#chan', '@scheduler repeat rep%s 500 "channel op #chan pla"' % who),
            ('bot', 'scheduler add 500 "echo [unbalanced"'),
            ('bot', 'scheduler list')]:
        feed(who, target, text)
    snapshot('sched-added ' + who)
    runScheduled()
    runScheduled()
    snapshot('sched-ran ' + who)
    undo()
conf.supybot.capabilities().add('-scheduler.add')
conf.supybot.capabilities().add('-scheduler.repeat')
conf.supybot.capabilities().add('-scheduler.remove')

# Flood protection, syntax errors, CTCP, senders that are not users.
conf.supybot.abuse.flood.command.setValue(True)
conf.supybot.abuse.flood.command.maximum.setValue(3)
for who in ('plain', 'trusted', 'owner'):
    for i in range(6):
        feed(who, '#chan', '@echo flood %s' % i)
snapshot('flood')
for h in list(ircdb.ignores.hostmasks):
    if h != '*!*@dbignored.host':
        ircdb.ignores.remove(h)
conf.supybot.abuse.flood.command.notify.setValue(False)
owner_cb.commands = ircutils.FloodQueue(60)
for i in range(5):
    feed('plain', 'bot', 'echo quiet flood %s' % i)
for h in list(ircdb.ignores.hostmasks):
    if h != '*!*@dbignored.host':
        ircdb.ignores.remove(h)
conf.supybot.abuse.flood.command.setValue(False)
for who in ('plain', 'owner'):
    feed(who, '#chan', '@echo [unbalanced')
    feed(who, '#chan', '@echo unbalanced]')
    feed(who, '#chan', '@echo "unterminated')
    feed(who, '#chan', '@echo a | ')
    feed(who, '#chan', '@| echo a')
conf.supybot.reply.error.detailed.setValue(True)
for who in ('plain', 'owner'):
    feed(who, '#chan', '@echo [unbalanced')
    feed(who, 'bot', 'owner flush')
conf.supybot.reply.error.detailed.setValue(False)
feed('owner', '#chan', '\x01VERSION\x01')
feed('owner', 'bot', '\x01ACTION @owner flush\x01')
feed('server', '#chan', '@owner flush')
feed('barenick', '#chan', '@owner flush')
feed('barenick', 'bot', 'owner flush')
feed('owner', '#chan', '')
feed('owner', '#chan', '@')
feed('owner', '#chan', '@nosuchcommand')
feed('plain', '#chan', '@nosuchcommand x y')
feed('plain', '#chan', '@list')
feed('plain', '#chan', '@owner')
feed('plain', '#chan', '@help owner flush')
feed('plain', 'bot', 'list owner')

# Error-reply configuration.
for (nc, private) in ((True, []), (False, ['owner'])):
    conf.supybot.reply.error.noCapability.setValue(nc)
    conf.supybot.capabilities.private.setValue(private)
    for who in ('plain', 'unreg'):
        feed(who, '#chan', '@owner flush')
        feed(who, 'bot', 'admin join #x')
        feed(who, '#chan', '@channel op #chan pla')
conf.supybot.reply.error.noCapability.setValue(False)
conf.supybot.capabilities.private.setValue([])
conf.supybot.replies.noCapability.setValue('no way')
feed('plain', '#chan', '@owner flush')
conf.supybot.replies.noCapability.setValue('')
feed('plain', '#chan', '@owner flush')
conf.supybot.replies.noCapability.setValue('lacking %s')

# Disabled commands, renames, default plugins, ambiguity.
feed('owner', 'bot', 'disable utilities echo')
feed('plain', '#chan', '@echo gone?')
feed('plain', '#chan', '@utilities echo gone?')
feed('owner', 'bot', 'enable utilities echo')
feed('owner', 'bot', 'alias add list "echo shadow"')
feed('plain', '#chan', '@list')
feed('plain', '#chan', '@add')
feed('plain', '#chan', '@remove x')
feed('owner', 'bot', 'defaultplugin add Alias')
feed('plain', '#chan', '@add x "echo y"')
feed('owner', 'bot', 'defaultplugin --remove add')
feed('owner', 'bot', 'alias remove list')
feed('admin', 'bot', 'acmd echo to all')
feed('plain', 'bot', 'acmd echo to all')
feed('admin', '#chan', '@admin acmd owner flush')


# Configuration reads and writes, scheduler removal, plugin disambiguation.
for who in ('owner', 'admin', 'chanop', 'plain', 'unreg'):
    for text in ('config supybot.networks.test.password',
                 'config supybot.networks.test.password hunter2',
                 'config supybot.plugins', 'config supybot.nosuch',
                 'config nick', 'config reply.whenAddressedBy.chars',
                 'config channel reply.whenAddressedBy.chars',
                 'config channel #other,#chan reply.whenAddressedBy.chars',
                 'config channel #other reply.whenAddressedBy.chars ~',
                 'config channel * #chan reply.whenAddressedBy.chars =',
                 'config network reply.whenAddressedBy.chars',
                 'config network test reply.whenAddressedBy.chars +',
                 'config channel supybot.nick', 'config network supybot.nick',
                 'config supybot.commands.allowShell True',
                 'config supybot.directories.conf /tmp',
                 'config supybot.commands.allowShell False',
                 'config supybot.capabilities owner',
                 'config supybot.reply.maximumLength notanumber',
                 'config list supybot.reply.whenAddressedBy',
                 'config help supybot.nick', 'config default supybot.nick',
                 'config search addressed', 'search nick', 'help', 'reload',
                 'config setdefault supybot.nick',
                 'config reset channel #chan reply.whenAddressedBy.chars',
                 'scheduler remove 999', 'scheduler remove nosuch',
                 'scheduler add 500 "echo later"', 'scheduler list',
                 'scheduler remind 500 remember', 'capabilities',
                 'user capabilities own', 'whoami', 'hostmask list',
                 'admin capability remove pla nosuch',
                 'admin capability add pla owner',
                 'admin capability add pla -foo',
                 'admin capability add nosuchuser foo',
                 'admin capability add own!o@owner.host foo',
                 'channel capability list', 'channel capability setdefault #chan False',
                 'channel capability setdefault #chan True',
                 'channel enable #chan echo', 'channel disable #chan echo',
                 'channel enable #chan echo', 'channel nicks #chan',
                 'channel ban list #chan', 'channel alert #chan hi'):
        feed(who, '#chan', '@' + text)
        feed(who, 'bot', text)
    sch = irc.getCallback('Scheduler')
    ids = sorted(sch.events)
    rec('SCHED ids', ids)
    if ids:
        # In the plugin's book, gone from the schedule.
        schedule.removeEvent(int(ids[0]))
        feed(who, 'bot', 'scheduler remove ' + ids[0])
        for i in ids[1:]:
            feed(who, 'bot', 'scheduler remove ' + i)
    snapshot('config ' + who)
    conf.supybot.networks.test.password.setValue('')
    conf.supybot.reply.whenAddressedBy.chars.get('#other').setValue('@')
    conf.supybot.reply.whenAddressedBy.chars.get(':test').get('#other').setValue('@')
    conf.supybot.reply.whenAddressedBy.chars.get(':test').setValue('@')
    conf.supybot.capabilities().discard('owner')
    conf.supybot.capabilities().add('-owner')
    undo()

# A lobotomised channel, a banned and a channel-ignored caller.
ircdb.channels.getChannel('#other').lobotomized = True
feed('owner', '#other', '@echo lobotomised')
ircdb.channels.getChannel('#other').lobotomized = False
c = ircdb.channels.getChannel('#chan')
c.addBan('*!*@plain.host', 0)
c.addIgnore('*!*@unreg.host', 0)
c.addIgnore('*!*@trusted.host', 1000)
for who in ('plain', 'unreg', 'trusted', 'owner'):
    feed(who, '#chan', '@echo still here')
    feed(who, 'bot', 'echo still here')
snapshot('final')

###
# Verdict.
###
sys.stdout = REAL_STDOUT
blob = '\n'.join(RECORD)
digest = hashlib.sha256(blob.encode('utf8', 'replace')).hexdigest()
dump = os.environ.get('DEMO_DUMP')
if dump:
    with open(dump, 'w') as fd:
        fd.write(blob + '\n')
shutil.rmtree(BASE, ignore_errors=True)
if '--record' in sys.argv:
    print(digest, len(RECORD))
    code = 0
elif digest == EXPECTED:
    print('PASS (%d observations, digest %s)' % (len(RECORD), digest[:16]))
    code = 0
else:
    print('FAIL: digest %s != expected %s (%d observations)'
          % (digest, EXPECTED, len(RECORD)))
    code = 1
sys.stdout.flush()
os._exit(code)
