# C02 / c1 (CONTROL: behaviour-preserving refactor) -- run as: cd /tmp/mut5_C02 && timeout 120 /venv/bin/python _mutants/c1/demo.py
# Must print PASS with and without the patch: exercises every refactored path, edge cases included.
import os, sys, tempfile, time, io
sys.path.insert(0, os.getcwd())
code = 1
try:
    BASE = tempfile.mkdtemp(prefix='mut5c02_c1_')
    for d in ('data', 'data/tmp', 'conf', 'logs', 'backup'):
        os.makedirs(os.path.join(BASE, d), exist_ok=True)
    REG = os.path.join(BASE, 'conf', 'test.conf')
    with open(REG, 'w') as fd:
        fd.write("""
supybot.directories.data: %(b)s/data
supybot.directories.conf: %(b)s/conf
supybot.directories.log: %(b)s/logs
supybot.directories.backup: %(b)s/backup
supybot.log.stdout: False
supybot.log.level: CRITICAL
supybot.log.plugins.individualLogfiles: False
supybot.protocols.irc.throttleTime: 0
supybot.reply.whenAddressedBy.chars: @
supybot.networks.test.server: should.not.need.this
supybot.nick: bot
supybot.abuse.flood.command: False
""" % {'b': BASE})
    import supybot
    assert supybot.__file__.startswith(os.getcwd()), supybot.__file__
    import supybot.registry as registry
    registry.open_registry(REG)
    import supybot.log as log
    import supybot.conf as conf
    conf.supybot.flush.setValue(False)
    import supybot.world as world
    import supybot.ircdb as ircdb, supybot.irclib as irclib, supybot.ircmsgs as ircmsgs
    import supybot.plugin as plugin
    world.registryFilename = REG
    conf.registerNetwork('test')
    irc = irclib.Irc('test')
    for name in ('Owner', 'Misc', 'User', 'Admin', 'Channel', 'Config', 'Utilities'):
        plugin.loadPluginClass(irc, plugin.loadPluginModule(name))
    while irc.takeMsg():
        pass

    def say(prefix, text, to='bot'):
        irc.feedMsg(ircmsgs.privmsg(to, text, prefix=prefix))
        out = []
        while True:
            m = irc.takeMsg()
            if m is None:
                break
            out.append(m.args[-1])
        print('%-22s> %-45s< %s' % (prefix, text, ' | '.join(out)))
        return out

    def owners():
        return sorted(u.name for u in ircdb.users.users.values()
                      if set.__contains__(u.capabilities, 'owner'))

    ROOT = 'root!r@host.root'
    ADM = 'adm!a@host.adm'
    BOB = 'bob!b@host.bob'
    ZED = 'zed!z@host.zed'
    OK = ['The operation succeeded.']
    failures = []
    def check(what, got, expected):
        if got != expected:
            failures.append(what)
            print('  MISMATCH %s: got %r, expected %r' % (what, got, expected))

    def caps(name):
        return sorted(set.__iter__(ircdb.users.getUser(name).capabilities))
    def snapshot():
        return dict((i, (u.name, u.ignore, u.secure, u.hashed, u.password,
                         sorted(set.__iter__(u.capabilities)),
                         sorted(u.hostmasks), dict(u.nicks), list(u.gpgkeys)))
                    for (i, u) in ircdb.users.users.items())
    def reload_():
        world.flush(); ircdb.users.flush(); ircdb.channels.flush()
        check('config reload', say(ROOT, 'config reload'), OK)

    # ---- pure functions -------------------------------------------------
    for (cap, exp) in [('-foo', True), ('foo', False), ('#c,-op', True),
                       ('#c,op', False), ('-#c,op', True), ('--owner', True),
                       ('-', True), ('', False), ('a b', False), ('#c,', False),
                       ('-a b', False), ('#c,-', True), (',-x', False),
                       ('foo-', False), ('#c,#d,-op', False), ('-owner', True)]:
        check('isAntiCapability(%r)' % cap, ircdb.isAntiCapability(cap), exp)

    S = ircdb.UserCapabilitySet
    plain, boss = S(['foo', '-bar', '#c,op']), S(['owner', 'baz', '-qux'])
    for (name, s, table) in [
        ('plain', plain, [('owner', False, True), ('owner', True, False),
                          ('-owner', False, True), ('-owner', True, True),
                          ('OWNER', False, True), ('foo', False, True),
                          ('-foo', False, True), ('bar', True, True),
                          ('nope', False, False), ('nope', True, False),
                          ('#C,op', False, True), ('#c,-op', True, True),
                          ('#d,op', False, False)]),
        ('boss', boss, [('owner', False, True), ('owner', True, True),
                        ('-owner', True, True), ('nope', False, True),
                        ('nope', True, False), ('baz', True, True),
                        ('qux', True, True), ('-nope', False, True),
                        ('-nope', True, False), ('#d,op', False, True),
                        ('#d,op', True, False)])]:
        for (cap, ign, exp) in table:
            check('%s.__contains__(%r, ignoreOwner=%r)' % (name, cap, ign),
                  s.__contains__(cap, ignoreOwner=ign), exp)
    check("'owner' in plain", 'owner' in plain, True)
    check("'x' in boss", 'x' in boss, True)
    check("'x' in plain", 'x' in plain, False)

    # ---- preserve: exact text --------------------------------------------
    def dump(u):
        fd = io.StringIO()
        u.preserve(fd, indent='  ')
        return fd.getvalue()
    u = ircdb.IrcUser(name='x y', password='pw', capabilities=['b', '-a', '#c,op'])
    u.hostmasks.add('X!y@Z'); u.hostmasks.add('*!*@h')
    u.nicks['net'] = ['n1', 'n2']; u.nicks['other'] = []
    u.gpgkeys.extend(['K1', 'K2'])
    text = dump(u)
    lines = text.split(os.linesep)
    check('preserve kinds', [l.split()[0] if l.strip() else '' for l in lines],
          ['name', 'ignore', 'secure', 'hashed', 'password', 'capability',
           'capability', 'capability', 'hostmask', 'hostmask', 'nicks', 'nicks',
           'gpgkey', 'gpgkey', '', ''])
    check('preserve lines', sorted(lines),
          sorted(['  name x y', '  ignore False', '  secure False',
                  '  hashed False', '  password pw', '  capability b',
                  '  capability -a', '  capability #c,op', '  hostmask X!y@Z',
                  '  hostmask *!*@h', '  nicks net n1 n2', '  nicks other ',
                  '  gpgkey K1', '  gpgkey K2', '', '']))
    check('preserve order caps', [l for l in lines if 'capability' in l],
          ['  capability %s' % c for c in u.capabilities])
    bare = ircdb.IrcUser(name='nopass', ignore=True, secure=True)
    check('preserve bare', dump(bare),
          os.linesep.join(['  name nopass', '  ignore True', '  secure True', '', '']))

    # ---- flush guards ---------------------------------------------------------
    d = ircdb.UsersDictionary()
    d.flush()                                   # no filename: logs, no crash
    d.filename = os.path.join(BASE, 'conf', 'scratch-users.conf')
    d.noFlush = True
    d.flush()
    check('noFlush writes nothing', os.path.exists(d.filename), False)
    d.noFlush = False
    d.flush()
    check('empty db flush', open(d.filename).read(), '')
    v = d.newUser(); v.name = 'v'; v.setPassword('p', hashed=False); v.hashed = False; v.password = 'p'
    v.addCapability('admin'); d.setUser(v)
    w = d.newUser(); w.name = 'w'; d.setUser(w)
    check('two user flush', open(d.filename).read(), os.linesep.join(
        ['user 1', '  name v', '  ignore False', '  secure False', '  hashed False',
         '  password p', '  capability admin', '', 'user 2', '  name w',
         '  ignore False', '  secure False', '', '']))

    # ---- creator.finish / reader line numbers (private dictionary) -----------------
    def load(text):
        p = os.path.join(BASE, 'conf', 'load-%d.conf' % len(os.listdir(os.path.join(BASE, 'conf'))))
        open(p, 'w').write(text)
        ircdb.IrcUserCreator.u = None
        dd = ircdb.UsersDictionary()
        errors = []
        orig = (log.error, log.exception)
        log.error = lambda *a, **k: errors.append(a)
        log.exception = lambda *a, **k: errors.append(('EXC', repr(sys.exc_info()[1])))
        try:
            dd.open(p)
        finally:
            (log.error, log.exception) = orig
            ircdb.IrcUserCreator.u = None
        return (dict((i, (x.name, sorted(set.__iter__(x.capabilities)), sorted(x.hostmasks)))
                     for (i, x) in dd.users.items()), errors, dd)
    (got, errs, dd) = load('user 1\n  name a\n  capability owner\n  hostmask a!*@h\n\n'
                           'user 2\n  name b\n  capability admin\n  hostmask *!*@h\n  hostmask b!b@other\n\n'
                           'user 3\n  name c\n')
    check('collision load', got, {1: ('a', ['owner'], ['a!*@h']), 2: ('b', ['admin'], []),
                                  3: ('c', [], [])})
    check('collision logged', len(errs), 1)
    check('nextId', dd.nextId, 3)
    (got, errs, dd) = load('user 1\n  name a\n\n\nuser 2\n  name b\n  bogus line\n\nuser 3\n  name c\n')
    check('bad command load', got, {1: ('a', [], [])})
    check('bad command lineno', [e for e in errs if e[0] == 'EXC'],
          [('EXC', "ValueError('Invalid command on line 7: bogus')")])
    (got, errs, dd) = load('user 1\n  ignore False\n\nuser 2\n  name b\n')
    check('nameless record', got, {})
    check('nameless record error', [e for e in errs if e[0] == 'EXC'],
          [('EXC', "ValueError('Unexpected user command on line 4.')")])
    (got, errs, dd) = load('')
    check('empty file', (got, errs), ({}, []))

    # ---- checkCapabilities ---------------------------------------------------------
    say(ROOT, 'user register root rootpw')
    r = ircdb.users.getUser('root'); r.addCapability('owner'); ircdb.users.setUser(r)
    check('reg adm', say(ADM, 'user register adm admpw'), OK)
    check('reg bob', say(BOB, 'user register bob bobpw'), OK)
    check('mk admin', say(ROOT, 'admin capability add adm admin'), OK)
    check('mk foo', say(ROOT, 'admin capability add adm foo'), OK)
    check('mk -bar', say(ROOT, 'admin capability add adm -bar'), OK)
    for (who, L, req, exp) in [(ADM, [], True, True), (ADM, [], False, False),
                               (ADM, ['admin', 'foo'], True, True),
                               (ADM, ['admin', 'bar'], True, False),
                               (ADM, ['bar', 'owner'], False, False),
                               (ADM, ['bar', 'foo', 'owner'], False, True),
                               (BOB, ['admin', 'owner', 'trusted'], False, False),
                               (BOB, ['whatever', 'admin'], False, True),
                               (BOB, ['whatever', 'admin'], True, False),
                               (ZED, ['owner'], False, False), (ZED, ['x'], True, True),
                               (ROOT, ['owner', 'admin', 'x', '#c,op'], True, True)]:
        check('checkCapabilities(%s, %r, %r)' % (who, L, req),
              ircdb.checkCapabilities(who, L, requireAll=req), exp)
    seen = []
    real = ircdb.checkCapability
    ircdb.checkCapability = lambda h, c: (seen.append(c), real(h, c))[1]
    try:
        ircdb.checkCapabilities(ADM, ['bar', 'foo', 'zzz'], requireAll=True)
        ircdb.checkCapabilities(ADM, ['bar', 'foo', 'zzz'], requireAll=False)
    finally:
        ircdb.checkCapability = real
    check('short circuit', seen, ['bar', 'bar', 'foo'])

    # ---- Admin capability add: who may grant what -----------------------------------
    REFUSED = ["Error: You can't add capabilities you don't have."]
    OWNERMSG = ['Error: The "owner" capability can\'t be added in the bot.  Use the '
                'supybot-adduser program (or edit the users.conf file yourself) to '
                'add an owner capability.']
    def noCap(c):
        return ["Error: You don't have the %s capability. If you think that you should "
                "have this capability, be sure that you are identified before trying "
                "again. The 'whoami' command can tell you if you're identified." % c]
    check('adm adds owner', say(ADM, 'admin capability add bob owner'), OWNERMSG)
    check('adm adds OWNER', say(ADM, 'admin capability add bob OWNER'), OWNERMSG)
    check('adm adds "own\\x65r"', say(ADM, r'admin capability add bob "own\x65r"'), OWNERMSG)
    check('adm adds [echo owner]', say(ADM, 'admin capability add bob [echo owner]'), OWNERMSG)
    check('root adds owner', say(ROOT, 'admin capability add bob owner'), OWNERMSG)
    check('adm adds foo', say(ADM, 'admin capability add bob foo'), OK)
    check('adm adds FRESH', say(ADM, 'admin capability add bob FRESH'), OK)
    check('adm adds bar (has -bar)', say(ADM, 'admin capability add bob bar'), REFUSED)
    check('adm adds trusted (default -trusted)', say(ADM, 'admin capability add bob trusted'), REFUSED)
    check('adm adds #c,op', say(ADM, 'admin capability add bob #c,op'), REFUSED)
    check('adm adds -trusted', say(ADM, 'admin capability add bob -trusted'), OK)
    check('adm adds #c,-op', say(ADM, 'admin capability add bob #c,-op'), OK)
    check('adm adds -#c,voice', say(ADM, 'admin capability add bob -#c,voice'), OK)
    out = say(ADM, 'admin capability add bob -owner')
    check('adm adds -owner', len(out) == 1 and out[0].startswith('An error has occurred and has been logged'), True)
    check('adm adds --owner', say(ADM, 'admin capability add bob --owner'), OK)
    check('bob adds foo', say(BOB, 'admin capability add bob admin'), noCap('admin'))
    check('zed adds foo', say(ZED, 'admin capability add bob -zzz'), noCap('admin'))
    check('adm adds to nobody', say(ADM, 'admin capability add nobody foo')[0].startswith("Error: I can't find nobody"), True)
    check('root adds trusted', say(ROOT, 'admin capability add bob trusted'), OK)
    check('root adds #c,op', say(ROOT, 'admin capability add adm #c,op'), OK)
    check('adm adds #c,op now', say(ADM, 'admin capability add bob #c,op'), OK)
    check('bob caps', caps('bob'), ['#c,op', '-#c,voice', '--owner', 'foo', 'fresh', 'trusted'])
    check('adm caps', caps('adm'), ['#c,op', '-bar', 'admin', 'foo'])

    # ---- Channel capability add -------------------------------------------------------
    check('reg zed', say(ZED, 'user register zed zedpw'), OK)
    check('chan add by op', say(ADM, 'channel capability add #c zed voice'), OK)
    check('chan add by op, in channel', say(ADM, '@channel capability add zed HalfOp', to='#c'), ['adm: The operation succeeded.'])
    check('chan add other channel', say(ADM, 'channel capability add #d zed voice'), noCap('#d,op'))
    check('chan add by non-op', say(ZED, 'channel capability add #c zed op'), noCap('#c,op'))
    check('chan add qualified', say(BOB, 'channel capability add #c zed #d,op'), OK)
    check('chan add owner', say(BOB, 'channel capability add #c zed owner'), OK)
    check('chan add -owner', say(BOB, 'channel capability add #c zed -owner'), OK)
    check('chan add two words', say(BOB, 'channel capability add #c zed "a b"')[0].startswith('Error: You must not give a string containing spaces'), True)
    check('zed caps', caps('zed'), ['#c,#d,op', '#c,-owner', '#c,halfop', '#c,voice'])
    check('zed not op of #d', ircdb.checkCapability(ZED, '#d,op'), False)
    check('owners', sorted(x.name for x in ircdb.users.users.values()
                           if set.__contains__(x.capabilities, 'owner')), ['root'])

    # ---- flush + reload keeps everything, twice --------------------------------------
    before = snapshot()
    reload_()
    check('snapshot after reload', snapshot(), before)
    check('unregister bob', say(ROOT, 'user unregister bob'), OK)
    check('rename', say(ZED, 'user changename zed "Zed the 2nd" zedpw'), OK)
    before = snapshot()
    reload_()
    check('snapshot after 2nd reload', snapshot(), before)
    check('users.conf kinds', [l.split()[0] for l in open(ircdb.users.filename).read().splitlines() if l.strip()].count('user'), 3)
    check('adm still entitled', say(ADM, 'admin capability add "Zed the 2nd" foo'), OK)
    check('zed caps 2', caps('Zed the 2nd'), ['#c,#d,op', '#c,-owner', '#c,halfop', '#c,voice', 'foo'])

    if failures:
        print('FAIL: %d mismatches: %r' % (len(failures), failures))
        code = 1
    else:
        print('PASS: all refactored paths behave as specified')
        code = 0
except BaseException:
    import traceback
    traceback.print_exc()
    print('FAIL (exception)')
    code = 1
sys.stdout.flush()
os._exit(code)
