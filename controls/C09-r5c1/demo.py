"""C09 control demo: exercises the STS and required-SASL mechanisms end to end
(real Irc + real Socket driver over fake sockets) and their helpers on edge
cases.  Must print PASS both on the unmodified tree and with the
behaviour-preserving refactor c1/patch.diff applied."""
import os, sys, tempfile, time
sys.path.insert(0, os.getcwd())
base = tempfile.mkdtemp(prefix='c09demo')
regfile = os.path.join(base, 'demo.conf')
with open(regfile, 'w') as fd:
    fd.write("""
supybot.directories.data: %(b)s/data
supybot.directories.conf: %(b)s/conf
supybot.directories.log: %(b)s/logs
supybot.directories.backup: %(b)s/backup
supybot.directories.data.tmp: %(b)s/tmp
supybot.directories.data.web: %(b)s/web
supybot.log.stdout: False
supybot.log.level: CRITICAL
supybot.protocols.irc.throttleTime: 0
supybot.drivers.poll: 0.01
supybot.nick: demo
""" % {'b': base})
import supybot.registry as registry
registry.open_registry(regfile)
import supybot.log as log
import supybot.conf as conf
conf.supybot.flush.setValue(False)
import supybot.utils as utils, supybot.world as world
import supybot.ircdb as ircdb, supybot.irclib as irclib, supybot.ircmsgs as ircmsgs
import supybot.drivers as drivers
import supybot.drivers.Socket as Socket

class FakeSocket(object):
    def __init__(self, address, port):
        self.address = address; self.port = port
        self.tls = None          # kwargs given to ssl_wrap_socket, if wrapped
        self.sent = b''; self.inq = []; self._closed = False
        self.connect_error = None
    def settimeout(self, t): pass
    def connect(self, addr):
        if self.connect_error: raise self.connect_error
    def send(self, data):
        assert not self._closed
        self.sent += data; return len(data)
    def recv(self, n):
        return self.inq.pop(0) if self.inq else b''
    def shutdown(self, how): pass
    def close(self): self._closed = True
    def fileno(self): return -1 if self._closed else 7
    def lines(self): return self.sent.decode().split('\r\n')[:-1]

sockets = []
def getSocket(address, port=None, socks_proxy=None, vhost=None, vhostv6=None):
    s = FakeSocket(address, port); sockets.append(s)
    for hook in socket_hooks: hook(s)
    return s
socket_hooks = []
utils.net.getSocket = getSocket
utils.net.getAddressFromHostname = lambda host, port=None, attempt=0: '192.0.2.%d' % (attempt % 3 + 1)
def ssl_wrap_socket(conn, hostname, logger, certfile=None, trusted_fingerprints=None, verify=True, ca_file=None, **kw):
    conn.tls = dict(hostname=hostname, verify=verify, trusted_fingerprints=trusted_fingerprints, ca_file=ca_file)
    for hook in tls_hooks: hook(conn)
    return conn
tls_hooks = []
utils.net.ssl_wrap_socket = ssl_wrap_socket
Socket.select.select = lambda r, w, x, t=None: ([c for c in r if c.inq], [], [])

def verified(sock):
    t = sock.tls
    return bool(t and (t['verify'] or t['trusted_fingerprints'] or t['ca_file']))

def serve(driver, *lines):
    """The server of the current connection sends these lines."""
    driver.conn.inq.append(''.join(l + '\r\n' for l in lines).encode())
    driver.run()

def fire(driver):
    """Let the scheduled reconnection happen now."""
    assert driver.nextReconnectTime is not None, 'no reconnection scheduled'
    driver.nextReconnectTime = time.time() - 1
    driver.run()

import base64, unittest.mock as mock
import supybot.ircutils as ircutils, supybot.callbacks as callbacks
failures = []
nchecks = [0]
def check(what, got, expected):
    nchecks[0] += 1
    if got != expected:
        failures.append(what)
        print('MISMATCH %s: got %r, expected %r' % (what, got, expected))

# ---------------------------------------------------------------- parseStsPolicy
class L(object):
    def __init__(self): self.n = 0
    def error(self, *a): self.n += 1
P = ircutils.parseStsPolicy
table = [
    # policy, parseDuration, expected
    ('port=6697', False, {'port': 6697}),
    ('port=6697', True, None),
    ('port=6697,duration=10', True, {'port': 6697, 'duration': 10}),
    ('duration=10,port=6697', False, {'port': 6697}),
    ('duration=foo,port=6697', False, {'port': 6697}),
    ('duration=foo,port=6697', True, None),
    ('duration,port=6697', False, {'port': 6697}),
    ('duration,port=6697', True, None),
    ('duration=,port=6697', True, None),
    ('duration=0,port=6697', True, {'port': 6697, 'duration': 0}),
    ('duration=-5,port=+6697', True, {'port': 6697, 'duration': -5}),
    ('port=', False, None), ('port', False, None), ('', False, None), (',', True, None),
    ('port=abc,duration=1', True, None), ('port=66.97', False, None),
    ('port=6697,preload,duration=3,foo=bar=baz', True,
        {'port': 6697, 'duration': 3, 'preload': None, 'foo': 'bar=baz'}),
    ('port=6697,preload,duration=3,foo=bar=baz', False,
        {'port': 6697, 'preload': None, 'foo': 'bar=baz'}),
    ('port=1,port=2,duration=5,duration=6', True, {'port': 2, 'duration': 6}),
    ('port=1,port', False, None),
    ('=x,port=7000', False, {'': 'x', 'port': 7000}),
    ('PORT=6697', False, None),
    ('port= 6697 ,duration= 7', True, {'port': 6697, 'duration': 7}),
]
for (policy, pd, expected) in table:
    l = L()
    check('parseStsPolicy(%r, %r)' % (policy, pd), P(l, policy, parseDuration=pd), expected)
    check('parseStsPolicy(%r, %r) logs' % (policy, pd), l.n, 0 if expected is not None else 1)

# ---------------------------------------------------------------- IrcNetwork
n = ircdb.IrcNetwork()
n.addStsPolicy('a', 'p1'); n.addStsPolicy('B', 'p2'); n.addStsPolicy('a', 'p3')
n.expireStsPolicy('b'); n.expireStsPolicy('nope'); n.expireStsPolicy('a'); n.expireStsPolicy('a')
check('IrcNetwork add/expire', n.stsPolicies, {'B': 'p2'})

# ---------------------------------------------------------------- _applyStsPolicy: ages x disconnect histories
conf.registerNetwork('age')
conf.supybot.networks.age.servers.setValue(['h1.example:6667', 'h2.example:7000'])
S = drivers.Server
mixin = drivers.ServersMixin(mock.Mock(network='age'))
net = ircdb.networks.getNetwork('age')
now = time.time()
cases = [
    # policy, lastDisconnect (offset from now), expected server, policy still stored
    (None, None, S('h1.example', 6667, None, False), False),
    (None, -5, S('h1.example', 6667, None, False), False),
    ('port=6697,duration=100', None, S('h1.example', 6697, None, True), True),
    ('port=6697,duration=100', -50, S('h1.example', 6697, None, True), True),
    ('port=6697,duration=100', -99, S('h1.example', 6697, None, True), True),
    ('port=6697,duration=100', -102, S('h1.example', 6667, None, False), False),
    ('port=6697,duration=100', -100000, S('h1.example', 6667, None, False), False),
    ('port=6697,duration=0', None, S('h1.example', 6697, None, True), True),
    ('port=6697,duration=0', -2, S('h1.example', 6667, None, False), False),
    ('port=6697,duration=100', +50, S('h1.example', 6697, None, True), True),
    ('duration=100,port=7777,preload', -1, S('h1.example', 7777, None, True), True),
]
for (policy, last, expected, still) in cases:
    net.stsPolicies.clear(); net.lastDisconnectTimes.clear()
    if policy: net.addStsPolicy('h1.example', policy)
    if last is not None: net.lastDisconnectTimes['h1.example'] = int(now + last)
    net.addStsPolicy('other.example', 'port=1,duration=1')
    mixin.servers = ()
    check('_getNextServer %r %r' % (policy, last), mixin._getNextServer(), expected)
    check('stored after %r %r' % (policy, last), 'h1.example' in net.stsPolicies, still)
    check('other untouched', net.stsPolicies.get('other.example'), 'port=1,duration=1')
    check('second server %r %r' % (policy, last), mixin._getNextServer(), S('h2.example', 7000, None, False))
    # a server carrying an attempt number / the force flag keeps them
    for given in (S('h1.example', 6667, 3, False), S('h1.example', 6667, 2, True)):
        if policy: net.addStsPolicy('h1.example', policy)   # may have expired above
        mixin.servers = [given]
        got = mixin._getNextServer()
        if still:
            want = S('h1.example', expected.port, given.attempt, True)
        else:
            want = given
        check('_getNextServer %r %r %r' % (policy, last, given), got, want)
ircdb.networks.networks.clear()

# ---------------------------------------------------------------- end to end
counter = [0]
def newNet(ssl, port, **kw):
    counter[0] += 1
    name = 'n%d' % counter[0]
    conf.registerNetwork(name)
    g = conf.supybot.networks.get(name)
    g.ssl.setValue(ssl)
    g.servers.setValue(['irc.example.org:%d' % port])
    for (k, v) in kw.items():
        if k == 'fingerprints': g.ssl.serverFingerprints.setValue(v)
        elif k == 'ca': g.ssl.authorityCertificate.setValue(v)
        elif k == 'sasl':
            g.sasl.username.setValue('jilles'); g.sasl.password.setValue('sesame')
            g.sasl.mechanisms.setValue(v); g.sasl.required.setValue(True)
    del sockets[:]
    irc = irclib.Irc(name)
    driver = drivers.newDriver(irc)
    driver.run()
    return (name, irc, driver)
HELLO = ['CAP LS :302', 'NICK :demo', 'USER limnoria 0 * :Limnoria 2000.01.01']

# STS over the three kinds of connections x policy strings
for (policy, valid_port) in [('port=6697', 6697), ('port=6697,duration=300', 6697),
                             ('duration=300,port=7000,preload', 7000),
                             ('duration=oops,port=6697', 6697),
                             ('port=', None), ('duration=300', None), ('port=x,duration=1', None)]:
    for lsline in (':srv CAP * LS :multi-prefix sts=%s', ':srv CAP * LS * :=sts=%s multi-prefix',
                   ':srv CAP * LS :~sts=%s'):
        # cleartext
        (name, irc, driver) = newNet(False, 6667)
        first = sockets[-1]
        check('cleartext: no TLS', first.tls, None)
        serve(driver, lsline % policy)
        if lsline.count('LS *'): serve(driver, ':srv CAP * LS :account-notify')
        check('cleartext %s: nothing stored' % policy, ircdb.networks.getNetwork(name).stsPolicies, {})
        if valid_port:
            check('cleartext %s: nothing more sent' % policy, first.lines(), HELLO)
            check('cleartext %s: closed' % policy, first._closed, True)
            fire(driver)
            check('cleartext %s: upgraded' % policy, (sockets[-1].port, verified(sockets[-1]),
                  driver.currentServer), (valid_port, True, S('irc.example.org', valid_port, 0, True)))
        else:
            check('cleartext %s: goes on' % policy, first._closed, False)
        # TLS, not verified
        (name, irc, driver) = newNet(True, 6697)
        first = sockets[-1]
        check('unverified: TLS without verification', (first.tls is not None, verified(first)), (True, False))
        serve(driver, lsline % policy)
        check('unverified %s: nothing stored' % policy, ircdb.networks.getNetwork(name).stsPolicies, {})
        if valid_port:
            check('unverified %s: nothing more sent' % policy, first.lines(), HELLO)
            fire(driver)
            check('unverified %s: upgraded' % policy, (sockets[-1].port, verified(sockets[-1])), (valid_port, True))
        # TLS, verified (three ways)
        for kw in ({'fingerprints': ['ab:cd']}, {'ca': '/some/ca.pem'}, {'global': True}):
            if 'global' in kw: conf.supybot.protocols.ssl.verifyCertificates.setValue(True)
            try:
                (name, irc, driver) = newNet(True, 6697, **kw)
                first = sockets[-1]
                check('verified %r' % kw, verified(first), True)
                serve(driver, lsline % policy)
                ok_duration = policy in ('port=6697,duration=300', 'duration=300,port=7000,preload')
                check('verified %s %r: stored' % (policy, kw), ircdb.networks.getNetwork(name).stsPolicies,
                      {'irc.example.org': policy} if ok_duration else {})
                check('verified %s: stays' % policy, (first._closed, driver.nextReconnectTime), (False, None))
            finally:
                conf.supybot.protocols.ssl.verifyCertificates.setValue(False)
        ircdb.networks.networks.clear()

# 'sts' without value: abort
(name, irc, driver) = newNet(False, 6667)
serve(driver, ':srv CAP * LS :multi-prefix sts')
check('sts without value: closed', (sockets[-1]._closed, sockets[-1].lines()), (True, HELLO))

# forced verification with validation configured / not configured
for (kw, want) in (({}, dict(verify=True, fp=set(), ca='')),
                   ({'fingerprints': ['ab:cd']}, dict(verify=False, fp={'ab:cd'}, ca='')),
                   ({'ca': '/some/ca.pem'}, dict(verify=False, fp=set(), ca='/some/ca.pem'))):
    (name, irc, driver) = newNet(False, 6667, **kw)
    serve(driver, ':srv CAP * LS :sts=port=6697')
    fire(driver)
    t = sockets[-1].tls
    check('forced %r' % kw, dict(verify=t['verify'], fp=set(t['trusted_fingerprints']), ca=t['ca_file']), want)
    check('forced %r hostname' % kw, t['hostname'], 'irc.example.org')
    # ... and the policy given on the forced connection is stored
    serve(driver, ':srv CAP * LS :sts=port=6697,duration=60 multi-prefix')
    check('forced %r stores' % kw, ircdb.networks.getNetwork(name).stsPolicies, {'irc.example.org': 'port=6697,duration=60'})
    # the connection drops; the next one follows the stored policy
    driver.conn.inq.append(b''); driver.run(); fire(driver)
    check('forced %r next' % kw, (sockets[-1].port, verified(sockets[-1]), driver.currentServer.force_tls_verification),
          (6697, True, True))
ircdb.networks.networks.clear()

# required SASL
class Joiner(irclib.IrcCallback):
    def name(self): return 'Joiner'
    def do376(self, irc, msg): irc.queueMsg(ircmsgs.join('#chan'))
    do422 = do377 = do376
plain = base64.b64encode(b'jilles\0jilles\0sesame').decode()
def sasl(script, mechanisms=('plain',)):
    (name, irc, driver) = newNet(False, 6667, sasl=list(mechanisms))
    if not irc.getCallback('Joiner'): irc.addCallback(Joiner())   # the list is shared by all Irc objects
    s = sockets[-1]
    for step in script:
        if s._closed: break
        serve(driver, *step)
        driver.run()
    return (s.lines()[3:], s._closed)
REQ = 'CAP REQ :multi-prefix sasl'
scripts = [
    ('no sasl in LS', [[':srv CAP * LS :multi-prefix'], [':srv CAP * ACK :multi-prefix'], [':srv 001 demo :hi', ':srv 376 demo :end']],
        (['CAP REQ :multi-prefix'], True)),
    ('empty LS', [[':srv CAP * LS :'], [':srv 376 demo :end']], ([], True)),
    ('sasl NAKed', [[':srv CAP * LS :multi-prefix sasl'], [':srv CAP * NAK :multi-prefix sasl'], [':srv 376 demo :end']],
        ([REQ], True)),
    ('mechanism refused', [[':srv CAP * LS :multi-prefix sasl'], [':srv CAP * ACK :multi-prefix sasl'], [':srv 904 demo :no'], [':srv 376 demo :end']],
        ([REQ, 'AUTHENTICATE :PLAIN'], True)),
    ('credentials refused', [[':srv CAP * LS :multi-prefix sasl=PLAIN,EXTERNAL'], [':srv CAP * ACK :multi-prefix sasl'], ['AUTHENTICATE +'], [':srv 904 demo :no'], [':srv 376 demo :end']],
        ([REQ, 'AUTHENTICATE :PLAIN', 'AUTHENTICATE :' + plain], True)),
    ('mechanism not offered', [[':srv CAP * LS :multi-prefix sasl=EXTERNAL'], [':srv CAP * ACK :multi-prefix sasl'], [':srv 376 demo :end']],
        ([REQ], True)),
    ('CAP skipped', [[':srv 001 demo :hi'], [':srv 375 demo :motd'], [':srv 376 demo :end']], ([], True)),
    ('CAP skipped, no MOTD', [[':srv 001 demo :hi'], [':srv 422 demo :no motd']], ([], True)),
    ('903 before any response', [[':srv CAP * LS :multi-prefix sasl'], [':srv CAP * ACK :multi-prefix sasl'], [':srv 903 demo :ok'], [':srv 001 demo :hi', ':srv 376 demo :end']],
        ([REQ, 'AUTHENTICATE :PLAIN'], True)),
    ('903 out of the blue', [[':srv 903 demo :ok'], [':srv CAP * LS :multi-prefix'], [':srv CAP * ACK :multi-prefix']],
        (['CAP REQ :multi-prefix'], True)),
    ('success', [[':srv CAP * LS :multi-prefix sasl'], [':srv CAP * ACK :multi-prefix sasl'], ['AUTHENTICATE +'], [':srv 900 demo x y :logged in', ':srv 903 demo :ok'], [':srv 001 demo :hi', ':srv 375 demo :motd', ':srv 376 demo :end']],
        ([REQ, 'AUTHENTICATE :PLAIN', 'AUTHENTICATE :' + plain, 'CAP :END', 'JOIN :#chan'], False)),
]
for (what, script, expected) in scripts:
    check('required SASL, ' + what, sasl(script), expected)
# not required: goes on without SASL
(name, irc, driver) = newNet(False, 6667, sasl=['plain'])
conf.supybot.networks.get(name).sasl.required.setValue(False)
serve(driver, ':srv CAP * LS :multi-prefix'); serve(driver, ':srv CAP * ACK :multi-prefix')
check('SASL not required', (sockets[-1].lines()[3:], sockets[-1]._closed), (['CAP REQ :multi-prefix', 'CAP :END'], False))

print('%d checks, %d mismatches' % (nchecks[0], len(failures)))
ok = not failures
print('PASS' if ok else 'FAIL')
sys.stdout.flush()
os._exit(0 if ok else 1)
