"""C04 / control: behaviour-preserving refactor of toLower, hostmask pattern
matching, IrcUser.checkHostmask/addAuth, UsersDictionary.getUserId and
unpreserve.Reader.readFile.  Everything is compared with an independent
reference written here, so the demo says PASS on the original and on the
refactored tree alike.
"""
import os, sys, tempfile, traceback, random, string
sys.path.insert(0, os.getcwd())
tmp = tempfile.mkdtemp(prefix='mut5c04_c1_')
import supybot.conf as conf
for d in ('conf', 'data', 'log', 'backup'):
    p = os.path.join(tmp, d); os.makedirs(p, exist_ok=True)
    getattr(conf.supybot.directories, d).setValue(p)
os.makedirs(os.path.join(tmp, 'data', 'tmp'), exist_ok=True)
conf.supybot.directories.data.tmp.setValue(os.path.join(tmp, 'data', 'tmp'))
import supybot.log as log
conf.supybot.log.stdout.setValue(False)
import time
import supybot.ircdb as ircdb
import supybot.ircutils as ircutils

code = 0
counts = {}
def check(cond, what):
    global code
    counts[what.split(':')[0]] = counts.get(what.split(':')[0], 0) + 1
    if not cond:
        print('BAD  ' + what)
        code = 1

# ---------------------------------------------------------------- reference
PAIRS = {'[': '{', ']': '}', '\\': '|', '~': '^'}
def fold(c):
    if 'A' <= c <= 'Z':
        return c.lower()
    return PAIRS.get(c, c)
def ref_lower(s):
    return ''.join(fold(c) for c in s)
def ref_match(pattern, hostmask):
    """glob match, IRC case rules, '.' never matches a newline, the regexp's
    '$' also matches before one final newline (as re does)."""
    def m(i, j):
        memo = {}
        def go(i, j):
            k = (i, j)
            if k in memo:
                return memo[k]
            if i == len(pattern):
                r = j == len(hostmask) or (j == len(hostmask) - 1
                                           and hostmask[j] == '\n')
            elif pattern[i] == '*':
                r = go(i + 1, j) or (j < len(hostmask) and hostmask[j] != '\n'
                                     and go(i, j + 1))
            elif j == len(hostmask):
                r = False
            elif pattern[i] == '?':
                r = hostmask[j] != '\n' and go(i + 1, j + 1)
            else:
                r = fold(pattern[i]) == fold(hostmask[j]) and go(i + 1, j + 1)
            memo[k] = r
            return r
        return go(i, j)
    return m(0, 0)

# ---------------------------------------------------------------- A: toLower
try:
    for cp in list(range(0, 0x250)) + [0x212A, 0x017F, 0x0130, 0x1E9E]:
        c = chr(cp)
        check(ircutils.toLower(c) == ref_lower(c), 'toLower: chr(%#x)' % cp)
    rnd = random.Random(4)
    alpha = 'aAzZ[]{}|\\^~`_-.!@*?09Kſİ\xe9\xc9'
    for n in range(3000):
        s = ''.join(rnd.choice(alpha) for _ in range(rnd.randint(0, 12)))
        check(ircutils.toLower(s) == ref_lower(s), 'toLower: %r' % s)
        check(type(ircutils.toLower(ircutils.IrcString(s))) is str, 'toLower: type')
        t = ''.join(rnd.choice(alpha) for _ in range(rnd.randint(0, 12)))
        check(ircutils.strEqual(s, t) == (ref_lower(s) == ref_lower(t)),
              'strEqual: %r %r' % (s, t))
        a = ircutils.IrcString(s)
        check((a == t) == (ref_lower(s) == ref_lower(t)), 'IrcString ==: %r %r' % (s, t))
        check(a == ref_lower(s) and hash(a) == hash(ref_lower(s)), 'IrcString hash: %r' % s)
    check(not (ircutils.IrcString('abc') == 3), 'IrcString ==: non-string')
    check(not (ircutils.IrcString('abc') == None), 'IrcString ==: None')
    check(ircutils.toLower('FOO[]', 'ascii') == 'foo[]', 'toLower: ascii mapping')
    try:
        ircutils.toLower('x', 'bogus'); check(False, 'toLower: bogus mapping')
    except ValueError:
        check(True, 'toLower: bogus mapping')
    st = ircutils.IrcSet(['Foo[x]!*@*'])
    check('fOO{X}!*@*' in st and 'foo(x)!*@*' not in st, 'IrcSet: membership')
    st.remove('FOO{x]!*@*'); check(len(st) == 0, 'IrcSet: remove')
except Exception:
    traceback.print_exc(); code = 1

# ------------------------------------------------- B: hostmaskPatternEqual
try:
    rnd = random.Random(40)
    palpha = 'aAbK[]{}|\\^~*?*?.!@-Kſİ'
    halpha = 'aAbBkK[]{}|\\^~.!@-*?Kſİ'
    for n in range(20000):
        pat = ''.join(rnd.choice(palpha) for _ in range(rnd.randint(0, 7)))
        hm = ''.join(rnd.choice(halpha) for _ in range(rnd.randint(0, 7)))
        want = ref_match(pat, hm)
        got1 = ircutils.hostmaskPatternEqual(pat, hm)
        got2 = ircutils.hostmaskPatternEqual(pat, hm)          # cached
        got3 = ircutils.hostmaskPatternEqual(ircutils.IrcString(pat), hm)
        got4 = ircutils._hostmaskPatternEqual(pat, hm)
        check(got1 is want and got2 is want and got3 is want and got4 is want,
              'patternEqual: %r vs %r: want %r got %r' % (pat, hm, want,
                                                     (got1, got2, got3, got4)))
    for (pat, hm, want) in [
            ('*!*@*', 'a!b@c', True), ('', '', True), ('', 'a', False),
            ('a!b@c', 'a!b@c\n', True), ('a!b@*', 'a!b@c\nd', False),
            ('a!b@?', 'a!b@\n', False), ('*', '', True), ('?', '', False),
            ('kate!*@*', 'Kate!u@h', False), ('a.b', 'axb', False),
            ('a+b(', 'a+b(', True), ('[foo]!*@*', '{FOO}!x@y', True),
            ('f\\o|!*@*', 'F|O\\!x@y', True), ('~x^!*@*', '^X~!a@b', True),
            ('a' * 300 + '*', 'A' * 300 + 'zz', True),
            ]:
        check(ircutils.hostmaskPatternEqual(pat, hm) is want
              and ref_match(pat, hm) is want,
              'patternEqual fixed: %r vs %r' % (pat, hm))
    # more than 1000 distinct patterns: the caches roll over
    for n in range(2500):
        pat = 'n%d!*@h%d.*' % (n, n % 7)
        check(ircutils.hostmaskPatternEqual(pat, 'N%d!u@H%d.example' % (n, n % 7)),
              'patternEqual rollover: hit %d' % n)
        check(not ircutils.hostmaskPatternEqual(pat, 'N%d!u@H%d.example' % (n + 1, n % 7)),
              'patternEqual rollover: miss %d' % n)
except Exception:
    traceback.print_exc(); code = 1

# ------------------------------------------ C: IrcUser.checkHostmask/addAuth
clock = [1000000.0]
real_time = time.time
time.time = lambda: clock[0]
def ref_addauth(auth, now, hostmask):
    auth = auth + [(now, hostmask)]
    seen = set(); out = []
    for (when, mask) in reversed(auth):
        if mask not in seen:
            seen.add(mask); out.append((when, mask))
    return list(reversed(out))
def ref_checkauth(auth, now, timeout, hostmask):
    """-> (answer, new auth list): expired entries met before the match go"""
    removals = []; answer = False
    for (when, mask) in auth:
        if timeout and when + timeout < now:
            removals.append((when, mask))
        elif hostmask == mask:
            answer = True
            break
    auth = list(auth)
    for r in removals:
        auth.remove(r)
    return (answer, auth)
try:
    rnd = random.Random(400)
    masks = ['a!b@c', 'A!b@c', 'x!y@z', 'bob!u@h', 'bob!u@H', 'q!r@s', '[x]!u@h', '{x}!u@h']
    for timeout in (0, 50, -5):
        conf.supybot.databases.users.timeoutIdentification.setValue(timeout)
        for trial in range(60):
            u = ircdb.IrcUser(name='t', secure=bool(trial % 3 == 0))
            for pat in rnd.sample(['a!b@c*', 'x!y@z*', '[X]!*@h', 'q*!r@s'], rnd.randint(0, 3)):
                u.addHostmask(pat)
            model = []
            for step in range(40):
                clock[0] += rnd.choice([0, 0, 1, 10, 30, 60])
                hm = rnd.choice(masks)
                bymask = any(ref_match(p, hm) for p in u.hostmasks)
                op = rnd.random()
                if op < 0.35:
                    try:
                        u.addAuth(hm); ok = True
                    except ValueError:
                        ok = False
                    check(ok == (bymask or not u.secure), 'addAuth: secure rule')
                    if ok:
                        model = ref_addauth(model, clock[0], hm)
                elif op < 0.85:
                    (ans, model) = ref_checkauth(model, clock[0], timeout, hm)
                    got = u.checkHostmask(hm)
                    if ans:
                        check(got is True, 'checkHostmask: login answer')
                    elif bymask:
                        check(got is not True and got in u.hostmasks
                              and ref_match(got, hm), 'checkHostmask: mask answer %r' % (got,))
                    else:
                        check(got is False, 'checkHostmask: no match')
                else:
                    got = u.checkHostmask(hm, useAuth=False)
                    check(bool(got) == bymask and got is not True, 'checkHostmask: useAuth=False')
                check(u.auth == model, 'auth list: %r vs %r' % (u.auth, model))
    conf.supybot.databases.users.timeoutIdentification.setValue(0)
except Exception:
    traceback.print_exc(); code = 1

# -------------------------------------- D: UsersDictionary random histories
def ref_user_matches(u, hm, timeout):
    for (when, mask) in u.auth:
        if timeout and when + timeout < clock[0]:
            continue
        if mask == hm:
            return True
    return any(ref_match(p, hm) for p in u.hostmasks)
try:
    users = ircdb.users
    rnd = random.Random(4000)
    nicks = ['al', 'AL', 'bo', '[c]', '{C}', 'd\\e', 'D|E', 'zed']
    idents = ['u', 'U', '~v']
    hosts = ['h.ex', 'H.EX', 'g.ex', 'pool-1.ex', 'pool-2.ex']
    def rand_hostmask():
        return '%s!%s@%s' % (rnd.choice(nicks), rnd.choice(idents), rnd.choice(hosts))
    def rand_pattern():
        r = rnd.random()
        if r < 0.3:
            return rand_hostmask()
        n = rnd.choice(nicks + ['*', '?l', '*e*'])
        i = rnd.choice(idents + ['*', '?'])
        h = rnd.choice(hosts + ['*', '*.ex', 'pool-?.ex', '?.ex'])
        return '%s!%s@%s' % (n, i, h)
    names = ['u%d' % i for i in range(6)]
    pw = {}
    nlook = 0
    for timeout in (0, 40):
        conf.supybot.databases.users.timeoutIdentification.setValue(timeout)
        for step in range(2500):
            clock[0] += rnd.choice([0, 0, 0, 1, 5, 25])
            op = rnd.random()
            present = dict((u.name, u) for (_, u) in users.items())
            if op < 0.08:
                free = [n for n in names if n not in present]
                if free:
                    u = users.newUser(); u.name = free[0]; u.setPassword('p' + u.name)
                    u.secure = rnd.random() < 0.3
                    try:
                        u.addHostmask(rand_pattern())
                        users.setUser(u)
                    except Exception:
                        users.delUser(u.id)
            elif op < 0.22 and present:
                u = rnd.choice(list(present.values())); h = rand_pattern()
                try:
                    u.addHostmask(h)
                    try:
                        users.setUser(u)
                    except ircdb.DuplicateHostmask:
                        u.removeHostmask(h)
                except ValueError:
                    pass
            elif op < 0.28 and present:
                u = rnd.choice(list(present.values()))
                if u.hostmasks:
                    u.removeHostmask(rnd.choice(sorted(u.hostmasks)))
                    try:
                        users.setUser(u)
                    except ircdb.DuplicateHostmask:
                        pass    # one of u's masks spells another user's login
            elif op < 0.40 and present:
                u = rnd.choice(list(present.values())); h = rand_hostmask()
                try:
                    u.addAuth(h)
                    users.setUser(u, flush=False)
                except ValueError:
                    pass
            elif op < 0.45 and present:
                u = rnd.choice(list(present.values()))
                u.clearAuth()
                try:
                    users.setUser(u)
                except ircdb.DuplicateHostmask:
                    pass
            elif op < 0.48 and present:
                u = rnd.choice(list(present.values()))
                users.delUser(u.id)
            else:
                h = rand_hostmask()
                truth = [i for (i, u) in users.items()
                         if ref_user_matches(u, h, timeout)]
                try:
                    got = users.getUserId(h)
                except KeyError:
                    got = None
                except ircdb.DuplicateHostmask:
                    got = 'dup'
                nlook += 1
                if len(truth) == 1:
                    check(got == truth[0], 'lookup: %r truth %r got %r' % (h, truth, got))
                else:
                    check(got in (None, 'dup'), 'lookup: %r truth %r got %r' % (h, truth, got))
                if len(truth) == 1:
                    check(users.getUserId(h) == truth[0], 'lookup: cached repeat')
            # no two accounts own masks that some hostmask of the universe matches
            if step % 50 == 0:
                for n in nicks:
                    for i in idents:
                        for ho in hosts:
                            h = '%s!%s@%s' % (n, i, ho)
                            owners = [k for (k, u) in users.items()
                                      if any(ref_match(p, h) for p in u.hostmasks)]
                            check(len(owners) <= 1, 'overlap: %r owned by %r' % (h, owners))
            # name lookups
            for (k, u) in list(users.items()):
                check(users.getUserId(u.name.upper()) == k, 'name lookup')
    check(nlook > 1500, 'lookup: enough lookups (%d)' % nlook)
    conf.supybot.databases.users.timeoutIdentification.setValue(0)

    # reload through unpreserve.Reader.readFile
    before = sorted((k, u.name, u.secure, sorted(map(str, u.hostmasks)), u.password)
                    for (k, u) in users.items())
    users.flush()
    users.reload()
    after = sorted((k, u.name, u.secure, sorted(map(str, u.hostmasks)), u.password)
                   for (k, u) in users.items())
    check(before == after and len(after) > 0, 'reload: same accounts (%d)' % len(after))
    for (k, u) in users.items():
        for p in u.hostmasks:
            lit = str(p).replace('*', 'x').replace('?', 'y')
            check(users.getUserId(lit) == k, 'reload: %r -> %r' % (lit, k))
    import supybot.unpreserve as unpreserve
    class Rec(object):
        log = []
        def __init__(self): pass
        def user(self, rest, lineno): Rec.log.append(('user', rest, lineno))
        def name(self, rest, lineno): Rec.log.append(('name', rest, lineno))
        def finish(self): Rec.log.append('finish')
        def badCommand(self, c, rest, lineno): Rec.log.append(('bad', c, rest, lineno))
    fn = os.path.join(tmp, 'r.conf')
    with open(fn, 'w') as fd:
        fd.write('user 1\n  name foo bar\n\nuser 2\n  name x\n  weird y z\n')
    unpreserve.Reader(Rec).readFile(fn)
    check(Rec.log == [('user', '1', 1), 'finish', ('name', 'foo bar', 2), 'finish',
                      ('user', '2', 4), 'finish', ('name', 'x', 5),
                      ('bad', 'weird', 'y z', 6), 'finish'],
          'readFile: call sequence %r' % (Rec.log,))
    try:
        unpreserve.Reader(Rec).readFile(os.path.join(tmp, 'missing.conf'))
        check(False, 'readFile: missing file')
    except EnvironmentError:
        check(True, 'readFile: missing file')
except Exception:
    traceback.print_exc(); code = 1

time.time = real_time
print('checks:', ', '.join('%s=%d' % kv for kv in sorted(counts.items())))
print('PASS' if code == 0 else 'FAIL')
sys.stdout.flush()
os._exit(code)
