import os, sys, tempfile, time, warnings
warnings.simplefilter('ignore')
sys.path.insert(0, os.getcwd())
def _crash(t, v, tb):
    import traceback
    traceback.print_exception(t, v, tb)
    print('FAIL (the scenario itself crashed)')
    sys.stdout.flush()
    os._exit(1)
sys.excepthook = _crash
tmp = tempfile.mkdtemp(prefix='c20demo')
for d in ('conf', 'data', 'logs', 'backup', 'plugins', 'tmp', 'web'):
    os.makedirs(os.path.join(tmp, d))
regfile = os.path.join(tmp, 'test.conf')
with open(regfile, 'w') as f:
    for (k, v) in [('data', 'data'), ('conf', 'conf'), ('log', 'logs'),
                   ('backup', 'backup'), ('data.tmp', 'tmp'),
                   ('data.web', 'web'), ('plugins', 'plugins')]:
        f.write('supybot.directories.%s: %s\n' % (k, os.path.join(tmp, v)))
    f.write('supybot.log.stdout: False\n')
    f.write('supybot.log.level: CRITICAL\n')
    f.write('supybot.reply.whenNotCommand: True\n')
    f.write('supybot.abuse.flood.command: False\n')
    f.write('supybot.protocols.irc.throttleTime: 0.0\n')
    f.write('supybot.networks: test\n')
    f.write('supybot.networks.test.servers: 127.0.0.1:1\n')
    f.write('supybot.networks.test.ssl: False\n')
import supybot
assert os.path.realpath(supybot.__file__).startswith(os.path.realpath(os.getcwd())), supybot.__file__
from supybot import registry
registry.open_registry(regfile)
from supybot import (conf, log, world, irclib, ircmsgs, ircdb, callbacks,
                     plugin, drivers, ircutils)
conf.supybot.abuse.flood.command.setValue(False)

class NullDriver(object):
    """No sockets: the Irc objects are fed and drained by hand."""
    def __init__(self, irc):
        self.irc = irc
        irc.driver = self
    def die(self): pass
    def reconnect(self, *args, **kwargs): pass
    def name(self): return 'null'
    def run(self): pass
drivers.newDriver = lambda irc, moduleName=None: NullDriver(irc)

OWNER = 'boss!boss@example.org'
def bootUser():
    u = ircdb.users.newUser()
    u.name = 'boss'
    u.addCapability('owner')
    u.addHostmask(OWNER)
    ircdb.users.setUser(u)

def drain(irc):
    out = []
    while True:
        m = irc.takeMsg()
        if m is None:
            return out
        out.append(m)

def cmd(irc, text):
    """Sends a private command as the owner, returns the replies."""
    drain(irc)
    irc.feedMsg(ircmsgs.privmsg(irc.nick, text, prefix=OWNER))
    deadline = time.time() + 5
    out = []
    while time.time() < deadline:
        got = drain(irc)
        out.extend(got)
        if out and not got:
            break
        time.sleep(0.01)
    return [m.args[1] for m in out if m.command in ('PRIVMSG', 'NOTICE')]

def bootIrc(network='test', core=('Owner', 'Misc', 'Config', 'User', 'Utilities')):
    irc = irclib.Irc(network)
    NullDriver(irc)
    for name in core:
        plugin.loadPluginClass(irc, plugin.loadPluginModule(name))
    bootUser()
    irc.feedMsg(ircmsgs.IrcMsg(':srv 001 %s :welcome' % irc.nick))
    drain(irc)
    return irc

def writePlugin(name, body, pre=''):
    """Creates the synthetic plugin package <name> in the bot's plugin
    directory; body is the body of the plugin class."""
    d = os.path.join(tmp, 'plugins', name)
    os.makedirs(d, exist_ok=True)
    with open(os.path.join(d, '__init__.py'), 'w') as f:
        f.write('import supybot\nfrom supybot import callbacks\n'
                'from supybot.commands import *\n'
                '__version__ = ""\n__author__ = supybot.authors.unknown\n'
                '__contributors__ = {}\n__url__ = ""\n'
                '%s\n'
                'class %s(callbacks.Plugin):\n'
                '    """synthetic"""\n%s\n'
                'Class = %s\n'
                'def configure(advanced):\n    pass\n' % (pre, name, body, name))

def names(irc):
    return [cb.name() for cb in irc.callbacks]

def checkDispatcher(irc, problems, where):
    """The structural part of the property."""
    ns = names(irc)
    if len(set(n.lower() for n in ns)) != len(ns):
        problems.append('%s: a plugin is registered more than once: %r' % (where, ns))
    if ns and ns[0] != 'Owner':
        problems.append('%s: Owner is not the first callback: %r' % (where, ns))
    pos = dict((id(cb), i) for (i, cb) in enumerate(irc.callbacks))
    for cb in irc.callbacks:
        for other in getattr(cb, 'callBefore', ()):
            o = [c for c in irc.callbacks if c.name().lower() == other.lower()]
            for c in o:
                if not pos[id(cb)] < pos[id(c)]:
                    problems.append('%s: %s must be called before %s: %r' % (where, cb.name(), c.name(), ns))
        for other in getattr(cb, 'callAfter', ()):
            o = [c for c in irc.callbacks if c.name().lower() == other.lower()]
            for c in o:
                if not pos[id(c)] < pos[id(cb)]:
                    problems.append('%s: %s must be called after %s: %r' % (where, cb.name(), c.name(), ns))

def finish(problems):
    if problems:
        print('FAIL')
        for p in problems:
            print('  ' + p)
        sys.stdout.flush()
        os._exit(1)
    print('PASS')
    sys.stdout.flush()
    os._exit(0)
# --- control scenario: exercises load/unload/reload paths broadly -----------
import shutil
CMD = '''
    def %(cmd)s(self, irc, msg, args):
        """takes no arguments

        Replies."""
        irc.reply('%(cmd)s!')
    %(cmd)s = wrap(%(cmd)s)
'''
def simple(name, cmds, extra='', pre=''):
    writePlugin(name, extra + ''.join(CMD % {'cmd': c} for c in cmds), pre=pre)

problems = []
irc = bootIrc('test')
expected = {}          # synthetic plugin name -> sorted list of its commands

def answered(c):
    r = cmd(irc, c)
    return r == [REPLY.get(c, c.split()[-1]) + '!'], r

def check(where):
    checkDispatcher(irc, problems, where)
    ns = names(irc)
    if ns[-1] != 'Misc':
        problems.append('%s: Misc is not last: %r' % (where, ns))
    for core in ('Owner', 'Misc', 'Config', 'User', 'Utilities'):
        if ns.count(core) != 1:
            problems.append('%s: core plugin %s registered %d times' % (where, core, ns.count(core)))
    synthetic = sorted(n for n in ns if n not in ('Owner', 'Misc', 'Config', 'User', 'Utilities', 'Math'))
    if synthetic != sorted(expected):
        problems.append('%s: loaded synthetic plugins are %r, expected %r' % (where, synthetic, sorted(expected)))
    for (n, cmds) in expected.items():
        cb = irc.getCallback(n.swapcase())
        if cb is None:
            continue
        if cb.listCommands() != sorted(cmds):
            problems.append('%s: %s lists %r, expected %r' % (where, n, cb.listCommands(), sorted(cmds)))
        for c in cmds:
            (ok, r) = answered(c)
            if not ok:
                problems.append('%s: command %r answered %r' % (where, c, r))
    for (n, cmds) in ALL.items():
        if n in expected:
            continue
        for c in cmds:
            if any(c in v for v in expected.values()):
                continue
            r = cmd(irc, c)
            if not (r and 'not a valid command' in r[0]):
                problems.append('%s: command %r of the unloaded %s answered %r' % (where, c, n, r))
    r = cmd(irc, 'echo ok')
    if r != ['ok']:
        problems.append('%s: echo answered %r' % (where, r))

def do(text, expect='The operation succeeded.'):
    r = cmd(irc, text)
    if expect is not None and not (r and r[0].startswith(expect)):
        problems.append('%r answered %r, expected %r' % (text, r, expect))
    return r

REPLY = {'summit': 'top'}
ALL = {'Pa': ['pa'], 'Pb': ['pb'], 'Pc': ['pc', 'pcx'], 'Pd': ['pd'],
       'Cyca': ['cyca'], 'Cycb': ['cycb'], 'Selfish': ['selfish'],
       'Aftermisc': ['aftermisc'], 'Beforeowner': ['beforeowner'],
       'Boom': ['boom'], 'Broken': ['broken'], 'Grumpy': ['grumpy'],
       'Evolving': ['evo', 'evotwo', 'evothree'],
       'Nested': ['top', 'grp one', 'grp two']}
simple('Pa', ['pa'], "    callBefore = ['Pb', 'Nope']\n")
simple('Pb', ['pb'], "    callAfter = ['owner', 'PC']\n")
simple('Pc', ['pc', 'pcx'], "    callBefore = ('misc', 'pA')\n")
simple('Pd', ['pd'], "    callAfter = ['Pa', 'Pb', 'Pc']\n    callBefore = ['Utilities']\n")
simple('Cyca', ['cyca'], "    callBefore = ['Cycb']\n")
simple('Cycb', ['cycb'], "    callBefore = ['Cyca']\n")
simple('Selfish', ['selfish'], "    callAfter = ['Selfish']\n")
simple('Aftermisc', ['aftermisc'], "    callAfter = ['Misc']\n")
simple('Beforeowner', ['beforeowner'], "    callBefore = ['Owner']\n")
simple('Boom', ['boom'], "    def __init__(self, irc):\n        super().__init__(irc)\n        raise RuntimeError('boom')\n")
simple('Grumpy', ['grumpy'], "    def die(self):\n        raise RuntimeError('grumpy die')\n")
writePlugin('Broken', '    def broken(self, irc, msg, args:\n        pass\n')
writePlugin('Nested', CMD % {'cmd': 'top'} + '''
    def helper(self, x):
        return x
    notamethod = 42
    class grp(callbacks.Commands):
        def one(self, irc, msg, args):
            """takes no arguments

            Replies."""
            irc.reply('one!')
        one = wrap(one)
        def two(self, irc, msg, args):
            """takes no arguments

            Replies."""
            irc.reply('two!')
        two = wrap(two)
''')
check('at boot')

# --- ordering, in several load orders, with case variants ------------------
import itertools
for order in [('Pa', 'Pb', 'Pc', 'Pd'), ('Pd', 'Pc', 'Pb', 'Pa'), ('pb', 'PD', 'pA', 'pc')]:
    for n in order:
        do('load ' + n)
        expected[n.capitalize()] = ALL[n.capitalize()]
        check('after load %s (order %r)' % (n, order))
    do('load ' + order[0].upper(), 'Error: %s is already loaded.' % order[0].capitalize())
    check('after refused second load')
    do('reload ' + order[1].swapcase())
    check('after reload %s' % order[1])
    for n in reversed(order):
        do('unload ' + n.swapcase())
        del expected[n.capitalize()]
        check('after unload %s' % n)
    do('unload ' + order[0], 'Error: There was no plugin')
    do('reload ' + order[0], 'Error: There was no plugin')

# --- cycles are refused, the rest is untouched -----------------------------
do('load Cyca'); expected['Cyca'] = ALL['Cyca']
before = list(irc.callbacks)
for n in ('Cycb', 'Selfish', 'Aftermisc', 'Beforeowner'):
    r = do('load ' + n, None)
    if r == ['The operation succeeded.'] or n in names(irc):
        problems.append('the cyclic %s was accepted: %r %r' % (n, r, names(irc)))
    if set(map(id, before)) != set(map(id, irc.callbacks)):
        problems.append('refusing %s changed the registered callbacks' % n)
    check('after refused %s' % n)
do('unload Cyca'); del expected['Cyca']
do('load Cycb'); expected['Cycb'] = ALL['Cycb']
r = do('load Cyca', None)
if 'Cyca' in names(irc):
    problems.append('the cyclic Cyca was accepted')
check('after refused Cyca')
do('unload Cycb'); del expected['Cycb']

# --- failing import / constructor -------------------------------------------
do('load Pa'); expected['Pa'] = ALL['Pa']
before = list(irc.callbacks)
do('load Nosuchplugin', 'Error: No plugin named "Nosuchplugin" exists.')
do('load Broken', 'Error:')
do('load Boom', 'An error has occurred')
do('load Boom', 'An error has occurred')
if [id(c) for c in before] != [id(c) for c in irc.callbacks]:
    problems.append('a failed load changed the callbacks: %r' % names(irc))
check('after failed loads')

# --- reload of a plugin whose source changes / breaks / vanishes -----------
simple('Evolving', ['evo', 'evotwo'])
do('load Evolving'); expected['Evolving'] = ['evo', 'evotwo']
check('Evolving v1')
old = irc.getCallback('Evolving')
writePlugin('Evolving', '    def evo(self, irc, msg, args:\n')     # syntax error
do('reload Evolving', 'Error:')
if irc.getCallback('evolving') is not old:
    problems.append('failed reload (syntax error) lost the old Evolving')
check('Evolving after failed reload (syntax error)')
shutil.rmtree(os.path.join(tmp, 'plugins', 'Evolving'))
do('reload Evolving', 'Error: No plugin named Evolving exists.')
if irc.getCallback('evolving') is not old:
    problems.append('failed reload (no module) lost the old Evolving')
check('Evolving after failed reload (module gone)')
simple('Evolving', ['evo', 'evothree'], "    def evotwo(self, x):\n        return x\n    callBefore = ['Pa']\n")
do('reload evolving'); expected['Evolving'] = ['evo', 'evothree']
if irc.getCallback('evolving') is old:
    problems.append('reload kept the old instance')
check('Evolving v2')
do('unload Evolving'); del expected['Evolving']
check('Evolving unloaded')

# --- die() raising -----------------------------------------------------------
do('load Grumpy'); expected['Grumpy'] = ALL['Grumpy']
do('reload Grumpy'); check('Grumpy reloaded')
do('unload Grumpy'); del expected['Grumpy']; check('Grumpy unloaded')

# --- nested commands, disabled commands, renames -----------------------------
do('load Nested'); expected['Nested'] = ALL['Nested']
check('Nested loaded')
do('disable Nested top')
if irc.getCallback('Nested').listCommands() != ['grp one', 'grp two']:
    problems.append('disabled command still listed: %r' % irc.getCallback('Nested').listCommands())
r = cmd(irc, 'top')
if not (r and 'not a valid command' in r[0]):
    problems.append('disabled command answered %r' % r)
do('reload Nested')
if irc.getCallback('Nested').listCommands() != ['grp one', 'grp two']:
    problems.append('disabled command listed after reload')
do('enable Nested top')
check('Nested enabled again')
do('rename Nested top summit')
expected['Nested'] = ['summit', 'grp one', 'grp two']; ALL['Nested'].append('summit')
check('Nested renamed')
do('reload Nested'); check('Nested renamed and reloaded')
do('unrename Nested')
expected['Nested'] = ['top', 'grp one', 'grp two']
check('Nested unrenamed')
do('unload Nested'); del expected['Nested']; check('Nested unloaded')

# --- the core dispatcher stays ------------------------------------------------
owner = irc.getCallback('Owner')
for n in ('Owner', 'owner', 'OWNER'):
    do('unload ' + n, "Error: You can't unload the")
    do('reload ' + n, "Error: You can't reload the")
    if irc.callbacks[0] is not owner:
        problems.append('Owner changed after unload/reload %s' % n)
check('after attempts on Owner')

# --- direct API: getCallback / removeCallback / addCallback -------------------
if irc.getCallback('nosuch') is not None or irc.removeCallback('nosuch') != []:
    problems.append('getCallback/removeCallback of an unknown name')
pa = irc.getCallback('PA')
removed = irc.removeCallback('pA')
if removed != [pa] or irc.getCallback('Pa') is not None:
    problems.append('removeCallback(pA) returned %r' % removed)
irc.addCallback(pa)
check('after remove/add of Pa')
try:
    irc.addCallback(pa)
    problems.append('addCallback accepted a second registration')
except AssertionError:
    pass
check('after refused double add')

# --- a bundled plugin and a second network --------------------------------------
irc2 = owner._connect('other', ('127.0.0.1', 1))
irc2.feedMsg(ircmsgs.IrcMsg(':srv 001 %s :welcome' % irc2.nick)); drain(irc2)
do('load Math')
if cmd(irc2, 'calc 2*3') != ['6'] or cmd(irc2, 'load math') != ['Error: Math is already loaded.']:
    problems.append('second network does not see Math')
if cmd(irc2, 'unload MATH') != ['The operation succeeded.'] or 'Math' in names(irc):
    problems.append('unload from the second network failed')
do('unload Pa'); del expected['Pa']
check('at the end')
finish(problems)
