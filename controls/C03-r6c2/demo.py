#!/usr/bin/env python
"""Equivalence demo for a C03 control (behaviour-preserving refactor of the
capability code in src/ircdb.py and src/ircutils.py).

Runs a large, deterministic battery of calls against the capability algebra,
the capability sets, IrcUser / IrcChannel, the users and channels databases
(with their caches and the files they write), checkCapability /
checkCapabilities / checkIgnored under several global configurations, and the
ircutils helpers they rely on.  Every observable result (return value with its
type, exception type and arguments, log calls, bytes written, cache contents)
is appended to a trace; the SHA-256 of the trace must equal the one recorded on
the unmodified tree.

Usage:  cd <worktree> && python _mutants/c<i>/demo.py
        DEMO_DUMP=file  additionally writes the trace to file (for diffing).
"""
import os
import sys

# Set iteration order of str sets must be reproducible: the files written by
# the databases list capabilities in set order.
if os.environ.get('PYTHONHASHSEED') != '0':
    env = dict(os.environ)
    env['PYTHONHASHSEED'] = '0'
    os.execve(sys.executable, [sys.executable] + sys.argv, env)

EXPECTED = '7171d3bc0d27055e8dddaf48891e97bc0927acf884678a17f88590c98a230ace'

import re
import copy
import pickle
import random
import shutil
import hashlib
import tempfile
import itertools
import traceback

sys.path.insert(0, os.getcwd())
tmp = tempfile.mkdtemp(prefix='c03demo')
for d in ('data', 'conf', 'logs'):
    os.mkdir(os.path.join(tmp, d))
registryFilename = os.path.join(tmp, 'conf', 'demo.conf')
with open(registryFilename, 'w') as fd:
    fd.write("""
supybot.directories.data: %(t)s/data
supybot.directories.conf: %(t)s/conf
supybot.directories.log: %(t)s/logs
supybot.log.stdout: False
supybot.log.level: CRITICAL
supybot.log.plugins.individualLogfiles: False
supybot.nick: demo
""" % {'t': tmp})

import supybot
assert os.path.realpath(os.path.dirname(supybot.__file__)) == \
    os.path.realpath(os.path.join(os.getcwd(), 'src')), supybot.__file__
import supybot.registry as registry
registry.open_registry(registryFilename)
import supybot.log as log
import supybot.conf as conf
conf.supybot.flush.setValue(False)
import supybot.world as world
import supybot.utils as utils
import supybot.ircutils as ircutils
import supybot.ircdb as ircdb

T = []

def _crash(*exc_info):
    traceback.print_exception(*exc_info)
    print('FAIL: the demo itself crashed')
    sys.stdout.flush()
    os._exit(2)
sys.excepthook = _crash

def show(x):
    """A representation that tells True from 1, str from IrcString..."""
    if isinstance(x, (list, tuple)):
        return '%s(%s)' % (type(x).__name__, ', '.join(map(show, x)))
    if isinstance(x, dict):
        return '%s{%s}' % (type(x).__name__, ', '.join(
            '%s: %s' % (show(k), show(v)) for (k, v) in x.items()))
    if isinstance(x, ircdb.IrcUser):
        return 'IrcUser<%s>' % showUser(x)
    if isinstance(x, ircdb.IrcChannel):
        return 'IrcChannel<%s>' % showChannel(x)
    if isinstance(x, (set, frozenset)) and not isinstance(x, ircdb.CapabilitySet):
        return '%s{%s}' % (type(x).__name__, ', '.join(sorted(map(show, x))))
    return '%s:%r' % (type(x).__name__, x)

def showUser(u):
    return show([u.id, u.name, u.ignore, u.secure, u.hashed, u.password,
                 list(u.capabilities), sorted(u.capabilities),
                 list(u.hostmasks), list(u.auth), u.nicks, u.gpgkeys])

def showChannel(c):
    return show([c.defaultAllow, c.lobotomized, list(c.capabilities),
                 sorted(c.capabilities), c.bans, c.ignores, c.expiredBans,
                 c.silences, c.exceptions])

_address = re.compile(r' at 0x[0-9a-fA-F]+')
def rec(*vals):
    line = ' | '.join(v if isinstance(v, str) else show(v) for v in vals)
    T.append(_address.sub(' at 0x?', line))

def call(tag, f, *args, **kwargs):
    try:
        r = f(*args, **kwargs)
    except BaseException as e:
        ctx = e.__context__
        rec(tag, 'RAISED', type(e).__name__, show(e.args),
            'ctx=' + (type(ctx).__name__ if ctx is not None else 'None'))
        return e
    rec(tag, 'OK', show(r))
    return r

class LogRecorder(object):
    """Stands in for supybot.log inside ircdb: records every call."""
    def _make(level):
        def f(self, *args, **kwargs):
            if level == 'exception':
                e = sys.exc_info()[1]
                rec('LOG', level, show(args), show(kwargs),
                    type(e).__name__, show(getattr(e, 'args', None)))
            else:
                rec('LOG', level, show(args), show(kwargs))
        return f
    for _level in ('debug', 'info', 'warning', 'error', 'critical',
                   'exception'):
        locals()[_level] = _make(_level)
    del _level, _make
    def __getattr__(self, name):
        return getattr(log, name)
ircdb.log = LogRecorder()

class Clock(object):
    """Every look at the clock advances it: an extra or a missing call to
    time.time() shows in the timestamps."""
    def __init__(self):
        self.t = 1000000.0
        self.step = 1.0
        self.calls = 0
    def time(self):
        self.calls += 1
        self.t += self.step
        return self.t
clock = Clock()
ircdb.time = clock

class FakeFile(object):
    """Records each write call."""
    def __init__(self):
        self.writes = []
    def write(self, s):
        self.writes.append(s)

def readFile(filename):
    try:
        with open(filename, 'rb') as fd:
            return fd.read()
    except EnvironmentError as e:
        return 'unreadable:%s' % type(e).__name__

def showCache(c):
    items = []
    for (k, v) in c.items():
        items.append('%s=>%s' % (show(k), show(v)))
    return '[%d: %s]' % (len(c), ', '.join(items))

def snapshotUsers(tag, users):
    rec(tag, 'users', '; '.join('%r=%s' % (i, showUser(u))
                                 for (i, u) in users.users.items()),
        'nextId', users.nextId, 'noFlush', users.noFlush,
        'names', showCache(users._nameCache),
        'masks', showCache(users._hostmaskCache),
        'file', show(readFile(users.filename)) if users.filename else 'nofile')

def snapshotChannels(tag, channels):
    rec(tag, 'channels',
        '; '.join('%r=%s' % (k, showChannel(c))
                  for (k, c) in channels.channels.items()),
        'keys', show(list(channels.channels)),
        'file',
        show(readFile(channels.filename)) if channels.filename else 'nofile')

###
# A. The capability algebra.
###
CAPSTRINGS = [
    'foo', '-foo', 'FOO', '-Foo', 'bar', '-bar', 'baz', '-baz',
    'owner', '-owner', 'OWNER', '-Owner', 'admin', '-admin', 'trusted',
    '-trusted', 'reg', '-reg', 'noreg', '-noreg', 'zed', '-zed', 'qux',
    '-qux', 'unknown', '-unknown', 'mixed', 'MIXED', '-MiXeD',
    'plugin.cmd', '-plugin.cmd', 'a[b]\\c~', 'A{B}|C^', '-a{b}|c^',
    '#chan,foo', '#CHAN,Foo', '#chan,-foo', '#Chan,-FOO', '#chan,op',
    '#chan,-op', '#CHAN,OP', '#chan,qux', '#chan,-qux', '#chan,unk',
    '#chan,-unk', '#chan2,baz', '#chan2,-baz', '#chan2,unk', '#chan2,-unk',
    '#CHAN2,op', '#chan2,-op', '#other,foo', '#other,-foo', '#other,op',
    '#other,-op', '#chan,owner', '#chan,-owner', '#chan,halfop',
    '#chan,-halfop', '#chan,voice', '#chan,-voice', '#chan,protected',
    '#[x]\\~,foo', '#{X}|^,-foo', '&loc,foo', '!safe,-foo', '+modeless,foo',
    '#a,#b,c', '#a,-#b,c', '-#chan,x', '--x', '#chan,--x', '-', '#chan,-',
]
BADSTRINGS = [
    '', ' foo', 'foo ', 'a b', '#chan,', '#chan, foo', '#ch an,foo', ',x',
    '#,x', '#' + 'c' * 49 + ',x', '#' + 'c' * 50 + ',x', '#bell\x07,x',
    'tab\tcap', 'nl\ncap', '#chan,a b', '-\t',
]
ALGEBRA = [ircdb.isCapability, ircdb.fromChannelCapability,
           ircdb.isChannelCapability, ircdb.isAntiCapability,
           ircdb.makeAntiCapability, ircdb.unAntiCapability,
           ircdb.invertCapability, ircdb.canonicalCapability,
           ircdb.unWildcardHostmask]
for s in CAPSTRINGS + BADSTRINGS:
    for f in ALGEBRA:
        call('A %s(%r)' % (f.__name__, s), f, s)
    call('A canonical callable', ircdb.canonicalCapability, lambda: s)
    for b in (True, False, 0, 1, None, 'x', ''):
        call('A _x(%r,%r)' % (s, b), ircdb._x, s, b)
    for chan in ('#c', '#C[', 'nochan', '', '#a,b', '#sp ace'):
        call('A makeChannelCapability(%r,%r)' % (chan, s),
             ircdb.makeChannelCapability, chan, s)
for f in ALGEBRA:
    for bad in (None, 5, b'foo', ['foo']):
        call('A %s(%r)' % (f.__name__, bad), f, bad)
rec('A antiOwner', ircdb.antiOwner)

###
# B. Capability sets.
###
def exerciseSet(tag, cls, rng, rounds):
    s = call(tag + ' new', cls)
    pool = [c for c in CAPSTRINGS if ',' not in c or c.startswith('#')]
    for n in range(rounds):
        c = rng.choice(pool + BADSTRINGS[:4])
        op = rng.choice(['add', 'add', 'remove', 'in', 'check', 'check',
                         'checkIO', 'inIO'])
        t = '%s %d %s(%r)' % (tag, n, op, c)
        if op == 'add':
            call(t, s.add, c)
        elif op == 'remove':
            call(t, s.remove, c)
        elif op == 'in':
            call(t, lambda: c in s)
        elif op == 'check':
            call(t, s.check, c)
        elif op == 'checkIO':
            call(t, s.check, c, ignoreOwner=True)
            call(t + ' positional', s.check, c, True)
        elif op == 'inIO':
            if cls is ircdb.UserCapabilitySet:
                call(t, s.__contains__, c, ignoreOwner=True)
                call(t, s.__contains__, c, True)
            else:
                call(t, s.__contains__, c)
        if n % 7 == 0:
            rec(t, 'state', repr(s), list(s), len(s), sorted(s))
    return s

rng = random.Random(30303)
for (i, cls) in enumerate([ircdb.CapabilitySet, ircdb.UserCapabilitySet] * 3):
    s = exerciseSet('B%d %s' % (i, cls.__name__), cls, rng, 260)
    call('B eval repr', lambda: eval(repr(s), ircdb.__dict__) == s)
    call('B copy', lambda: show(sorted(copy.copy(s))))
    call('B deepcopy', lambda: show(sorted(copy.deepcopy(s))))
    call('B pickle', lambda: show(sorted(pickle.loads(pickle.dumps(s)))))
    call('B set ops', lambda: show([sorted(s | {'zzz'}), sorted(s - {'foo'}),
                                    type(s | {'zzz'}).__name__,
                                    s == set(s), len(s)]))
for cls in (ircdb.CapabilitySet, ircdb.UserCapabilitySet):
    for init in ((), ['foo', '-foo'], ['-foo', 'foo', 'FOO'], ('owner',),
                 ('-owner',), ['OWNER', 'x'], ['#c,op', '#C,-OP'], [''],
                 ['a b'], 'abc', iter(['x', '-y']), None, 5):
        s = call('B init %s(%r)' % (cls.__name__, init), cls, init)
        if isinstance(s, set):
            rec('B init state', repr(s), list(s))
            for c in ('owner', '-owner', 'OWNER', 'foo', '-foo', 'x', '-x',
                      'y', '#c,op', '#c,-op', '#C,oP'):
                call('B init in %r' % c, lambda: c in s)
                call('B init check %r' % c, s.check, c)
                call('B init checkIO %r' % c, s.check, c, ignoreOwner=True)
    call('B kw', cls, capabilities=['q'])
    rec('B slots', cls.__slots__, [k for k in sorted(vars(cls))
                                   if not k.startswith('_')])

###
# C. IrcUser.
###
def writesOf(obj, indent):
    fd = FakeFile()
    obj.preserve(fd, indent=indent)
    return fd.writes

tid = conf.supybot.databases.users.timeoutIdentification
for timeout in (0, 25):
    tid.setValue(timeout)
    for (secure, ignore) in itertools.product((False, True), repeat=2):
        tag = 'C t=%d s=%r i=%r' % (timeout, secure, ignore)
        u = ircdb.IrcUser(ignore=ignore, secure=secure, name='Us[er]',
                          capabilities=['foo', '-bar', '#c,op', 'MiXed'])
        rec(tag, 'new', showUser(u), repr(u), hash(u))
        for h in ('us!er@host.example', 'US!*@*.Example', '*!*@*', 'a!b@c',
                  '*!*@a', 'x!y@z', 'nohostmask', '', 'sp ace!a@b'):
            call(tag + ' addHostmask %r' % h, u.addHostmask, h)
        rec(tag, 'hostmasks', list(u.hostmasks))
        for h in ('us!er@host.example', 'Us!Er@Host.Example',
                  'us!x@sub.example', 'nobody!n@no.where', 'US!*@*.Example',
                  'late!l@dyn.host', 'LATE!l@dyn.host', 'server.name', ''):
            for useAuth in (True, False):
                call(tag + ' checkHostmask %r %r' % (h, useAuth),
                     u.checkHostmask, h, useAuth=useAuth)
            call(tag + ' addAuth %r' % h, u.addAuth, h)
            rec(tag, 'auth', u.auth)
            call(tag + ' checkHostmask again %r' % h, u.checkHostmask, h)
        for n in range(12):
            call(tag + ' re-addAuth', u.addAuth,
                 ['us!er@host.example', 'late!l@dyn.host',
                  'Us!Er@Host.Example'][n % 3])
            rec(tag, 'auth', u.auth, clock.calls)
            call(tag + ' check', u.checkHostmask, 'other!o@dyn.host')
            rec(tag, 'auth', u.auth, clock.calls)
        for c in CAPSTRINGS + BADSTRINGS[:6]:
            for io in (False, True):
                call(tag + ' _checkCapability(%r,%r)' % (c, io),
                     u._checkCapability, c, io)
            call(tag + ' _checkCapability kw %r' % c, u._checkCapability, c,
                 ignoreOwner=True)
        call(tag + ' addCapability owner', u.addCapability, 'OWNER')
        call(tag + ' addCapability -owner', u.addCapability, '-Owner')
        for c in CAPSTRINGS[:34]:
            for io in (False, True):
                call(tag + ' owner _checkCapability(%r,%r)' % (c, io),
                     u._checkCapability, c, io)
        call(tag + ' removeCapability', u.removeCapability, 'Foo')
        call(tag + ' removeCapability again', u.removeCapability, 'foo')
        u.nicks = {'net': ['n1', 'n2'], 'other': []}
        u.gpgkeys = ['K1', 'K2']
        for pw in ('', 'secret'):
            u.password = pw
            for indent in ('', '  ', '\t'):
                rec(tag, 'preserve', writesOf(u, indent))
        u.removeHostmask('a!b@c')
        call(tag + ' removeHostmask missing', u.removeHostmask, 'q!q@q')
        rec(tag, 'final', showUser(u))
tid.setValue(0)

###
# D. IrcChannel.
###
for defaultAllow in (True, False, 0, 1, None, 'yes', ''):
    tag = 'D da=%r' % (defaultAllow,)
    c = ircdb.IrcChannel(defaultAllow=defaultAllow)
    rec(tag, 'new', showChannel(c), repr(c))
    for cap in ('foo', '-bar', 'OP', 'Voice', '-halfop', 'a b', ''):
        call(tag + ' addCapability %r' % cap, c.addCapability, cap)
    call(tag + ' removeCapability', c.removeCapability, '-PROTECTED')
    call(tag + ' removeCapability missing', c.removeCapability, 'nope')
    for cap in CAPSTRINGS + BADSTRINGS[:6]:
        call(tag + ' _checkCapability %r' % cap, c._checkCapability, cap)
        call(tag + ' _checkCapability IO %r' % cap, c._checkCapability, cap,
             ignoreOwner=True)
    c.setDefaultCapability(not defaultAllow)
    for cap in ('foo', '-foo', 'bar', 'zzz', '-zzz', 'op', '-op'):
        call(tag + ' flipped _checkCapability %r' % cap, c._checkCapability,
             cap)
    now = clock.t
    call(tag + ' addBan', c.addBan, '*!*@banned.host', now + 40)
    call(tag + ' addBan', c.addBan, 'b[a]d!*@*', 0)
    call(tag + ' addBan', c.addBan, 'old!*@*', now - 5)
    call(tag + ' addBan bad', c.addBan, 'notahostmask')
    call(tag + ' addIgnore', c.addIgnore, '*!*@ignored.host', now + 60.7)
    call(tag + ' addIgnore', c.addIgnore, 'ig!*@*')
    call(tag + ' addIgnore', c.addIgnore, 'oldig!*@*', now - 5)
    call(tag + ' addIgnore bad', c.addIgnore, 'notahostmask')
    for indent in ('', '  '):
        rec(tag, 'preserve', writesOf(c, indent))
    for n in range(8):
        for h in ('x!y@banned.host', 'B{A}D!u@h', 'old!o@h', 'ok!ok@ok',
                  'a!b@ignored.host', 'IG!x@y', 'oldig!x@y'):
            call(tag + ' checkBan %r' % h, c.checkBan, h)
            call(tag + ' checkIgnored %r' % h, c.checkIgnored, h)
        clock.t += 9
        rec(tag, 'state', showChannel(c))
    call(tag + ' checkBan bad', c.checkBan, 'nothostmask')
    c.lobotomized = True
    call(tag + ' lobotomized', c.checkIgnored, 'nothostmask')
    call(tag + ' removeBan', c.removeBan, 'b[a]d!*@*')
    call(tag + ' removeBan missing', c.removeBan, 'b[a]d!*@*')
    call(tag + ' removeIgnore', c.removeIgnore, 'ig!*@*')
    call(tag + ' removeIgnore missing', c.removeIgnore, 'ig!*@*')
    rec(tag, 'preserve', writesOf(c, '  '))
caps = ircdb.CapabilitySet(['op', '-x'])
c = ircdb.IrcChannel(bans={'a!b@c': 0}, ignores={'d!e@f': 5}, silences=['s'],
                     exceptions=['e'], capabilities=caps, lobotomized=True,
                     defaultAllow=False)
rec('D explicit', showChannel(c), repr(c), c.capabilities is caps)
rec('D defaultOff', ircdb.IrcChannel.defaultOff)

###
# E. UsersDictionary: histories of edits, caches, files.
###
NAMES = ['Alice', 'alice', 'ALICE', 'Bob', 'bob', 'Carol', 'Dave', 'Eve',
         'a!b@c', 'x y', 'nl\nname', 'cr\rname', '', 'Émile', 'ÉMILE']
MASKS = ['alice!*@*.example.com', 'ALICE!a@host.EXAMPLE.com', '*!*@*.example.com',
         'bob!*@bob.host', 'b?b!*@*', '*!*@bob.host', 'carol!c@secure.host',
         'dave!d@dyn.host', 'eve!*@*', '*!eve@*', 'e[v]e!*@*', 'E{V}E!*@*',
         'x\\y!*@*', 'X|Y!*@*', 'fr^nk!*@h', 'FR~NK!*@H', 'zed!z@z.z']
ASK = ['alice!a@host.example.com', 'Alice!A@HOST.example.com', 'bob!b@bob.host',
       'BOB!b@BOB.host', 'carol!c@secure.host', 'dave!d@dyn.host',
       'eve!eve@eve', 'E[V]E!x@y', 'x|y!a@b', 'fr~nk!x@h', 'zed!z@z.z',
       'nobody!n@no.where', 'irc.server.net', 'barenick', '']

USERCAPS = [c for c in CAPSTRINGS[:44] if c.lower() != '-owner']

def exerciseUsers(tag, seed, rounds, cachemax=None, timeout=0):
    rng = random.Random(seed)
    tid.setValue(timeout)
    users = ircdb.UsersDictionary()
    if cachemax is not None:
        users._nameCache.max = cachemax
        users._hostmaskCache.max = cachemax
    users.filename = os.path.join(tmp, 'conf', 'users-%s.conf' % seed)
    held = []   # user objects the "plugin" still holds
    for n in range(rounds):
        op = rng.choice(['new', 'set', 'set', 'setinplace', 'del', 'idname',
                         'idname', 'idmask', 'idmask', 'idmask', 'get', 'has',
                         'inval', 'auth', 'auth', 'clearauth', 'rawmask',
                         'nick', 'fromnick', 'flush', 'reload', 'num',
                         'noflush'])
        t = '%s %d %s' % (tag, n, op)
        ids = list(users.users) or [0]
        if op == 'new':
            u = call(t, users.newUser)
            if isinstance(u, ircdb.IrcUser):
                held.append(u)
                if rng.random() < 0.85:
                    # (a nameless user cannot be read back)
                    u.name = 'new%d' % n
                    call(t + ' name', users.setUser, u)
        elif op in ('set', 'setinplace'):
            if op == 'set' or not held:
                u = ircdb.IrcUser(name=rng.choice(NAMES),
                                  ignore=rng.random() < 0.2,
                                  secure=rng.random() < 0.2,
                                  capabilities=rng.sample(USERCAPS, 3))
                u.id = rng.choice(ids + [max(ids) + 1, max(ids) + 3])
            else:
                u = rng.choice(held)
                if rng.random() < 0.6:
                    u.name = rng.choice(NAMES)
                if rng.random() < 0.3:
                    call(t + ' cap', u.addCapability,
                         rng.choice(CAPSTRINGS[:40]))  # may be -owner
            for m in rng.sample(MASKS, rng.choice([0, 1, 1, 2])):
                call(t + ' addHostmask %r' % m, u.addHostmask, m)
            r = call(t + ' %r %r' % (u.id, u.name), users.setUser, u,
                     **rng.choice([{}, {'flush': False}, {'flush': True}]))
            if not isinstance(r, BaseException) and u not in held:
                held.append(u)
        elif op == 'del':
            call(t, users.delUser, rng.choice(ids + [77]))
        elif op == 'idname':
            name = rng.choice(NAMES + ['nosuchname'])
            call(t + ' %r' % name, users.getUserId, name)
        elif op == 'idmask':
            h = rng.choice(ASK)
            call(t + ' %r' % h, users.getUserId, h)
        elif op == 'get':
            k = rng.choice(ids + [77] + NAMES[:8] + ASK)
            call(t + ' %r' % (k,), users.getUser, k)
        elif op == 'has':
            k = rng.choice(ids + [77] + NAMES[:8] + ASK)
            call(t + ' %r' % (k,), users.hasUser, k)
        elif op == 'inval':
            kwargs = rng.choice([
                {}, {'id': rng.choice(ids + [77])},
                {'hostmask': rng.choice(ASK)},
                {'id': rng.choice(ids), 'name': 'x'},
                {'name': 'x'},
                {'id': rng.choice(ids), 'hostmask': rng.choice(ASK)},
                {'id': rng.choice(ids), 'hostmask': rng.choice(ASK),
                 'name': rng.choice(NAMES)}])
            call(t + ' %r' % sorted(kwargs.items()), users.invalidateCache,
                 **kwargs)
            if rng.random() < 0.3:
                call(t + ' positional', users.invalidateCache,
                     rng.choice(ids))
        elif op == 'auth':
            if users.users:
                u = users.users[rng.choice(ids)]
                h = rng.choice(ASK[:12])
                call(t + ' %r' % h, u.addAuth, h)
        elif op == 'clearauth':
            if users.users:
                # clearAuth uses the global ircdb.users
                saved = ircdb.users
                ircdb.users = users
                try:
                    call(t, users.users[rng.choice(ids)].clearAuth)
                finally:
                    ircdb.users = saved
        elif op == 'rawmask':
            # An edit behind the database's back: overlapping hostmasks.
            if users.users:
                u = users.users[rng.choice(ids)]
                m = rng.choice(MASKS)
                u.hostmasks.add(m)
                rec(t, 'added', m, 'to', u.id)
        elif op == 'nick':
            if users.users:
                saved = ircdb.users
                ircdb.users = users
                try:
                    u = users.users[rng.choice(ids)]
                    call(t, u.addNick, rng.choice(['net', 'net2']),
                         rng.choice(['nick1', 'Nick1', 'nick2', 'bad nick']))
                    call(t + ' check', u.checkNick, 'net', 'nick1')
                    if rng.random() < 0.3:
                        call(t + ' remove', u.removeNick, 'net', 'nick1')
                    for net in list(u.nicks):
                        if not u.nicks[net]:
                            # (an empty list cannot be read back)
                            del u.nicks[net]
                finally:
                    ircdb.users = saved
        elif op == 'fromnick':
            call(t, users.getUserFromNick, rng.choice(['net', 'net2', 'zz']),
                 rng.choice(['nick1', 'Nick1', 'nick2']))
        elif op == 'flush':
            call(t, users.flush)
        elif op == 'reload':
            ircdb.IrcUserCreator.u = None
            saved = ircdb.users
            ircdb.users = users
            try:
                call(t, users.reload)
            finally:
                ircdb.users = saved
            held = list(users.users.values())
            for (i, u) in users.users.items():
                u.id = i
        elif op == 'num':
            call(t, users.numUsers)
            call(t + ' items', lambda: show([(i, u.name) for (i, u)
                                             in users.items()]))
            call(t + ' iter', lambda: show(list(users)))
        elif op == 'noflush':
            users.noFlush = not users.noFlush
            call(t + ' flush', users.flush)
            users.noFlush = False
        snapshotUsers(t, users)
        clock.t += rng.choice([0, 0, 3, 11])
    call(tag + ' close', users.close)
    snapshotUsers(tag + ' closed', users)
    tid.setValue(0)
    return users

exerciseUsers('E1', 101, 420)
exerciseUsers('E2', 202, 420, cachemax=3)
exerciseUsers('E3', 303, 420, timeout=20)
exerciseUsers('E4', 404, 300, cachemax=2, timeout=8)
exerciseUsers('E5', 505, 300, cachemax=1)

# No filename; unreadable and malformed files.
users = ircdb.UsersDictionary()
call('E nofile flush', users.flush)
call('E nofile reload', users.reload)
call('E nofile close', users.close)
call('E open missing', users.open, os.path.join(tmp, 'conf', 'missing.conf'))
snapshotUsers('E open missing', users)
bad = os.path.join(tmp, 'conf', 'bad-users.conf')
for (n, text) in enumerate([
        'user 1\n  name foo\n  capability bar\n  hostmask a!b@c\n\n'
        'user 2\n  name FOO\n  hostmask *!*@c\n\n',
        'user 1\n  name foo\n  bogus line\n\n',
        'name foo\n\n',
        'user x\n  name foo\n\n',
        'user 3\n  name n3\n  ignore True\n  secure True\n  hashed False\n'
        '  password pw\n  capability OWNER\n  capability -x\n'
        '  hostmask h!h@h\n  nicks net a b\n  gpgkey K\n\n'
        'user 5\n  name n5\n  capability -owner\n\n',
        '']):
    with open(bad, 'w') as fd:
        fd.write(text)
    ircdb.IrcUserCreator.u = None
    users = ircdb.UsersDictionary()
    call('E bad %d open' % n, users.open, bad)
    snapshotUsers('E bad %d' % n, users)
    call('E bad %d getUser' % n, lambda: showUser(users.getUser('foo')))
    ircdb.IrcUserCreator.u = None
    call('E bad %d reload' % n, users.reload)
    snapshotUsers('E bad %d reloaded' % n, users)
ircdb.IrcUserCreator.u = None
# getUser follows integer aliases.
users = ircdb.UsersDictionary()
u = ircdb.IrcUser(name='real')
users.users[4] = u
users.users[2] = 4
users.users[1] = 2
call('E alias', lambda: showUser(users.getUser(1)))
call('E alias missing', users.getUser, 9)

###
# F. ChannelsDictionary.
###
channels = ircdb.ChannelsDictionary()
call('F nofile flush', channels.flush)
call('F nofile reload', channels.reload)
channels.filename = os.path.join(tmp, 'conf', 'channels-demo.conf')
rng = random.Random(606)
CHANS = ['#chan', '#CHAN', '#Chan2', '#[x]\\~', '#{X}|^', '&loc', '#é', '#É']
for n in range(160):
    op = rng.choice(['get', 'get', 'set', 'edit', 'flush', 'reload', 'items'])
    ch = rng.choice(CHANS)
    t = 'F %d %s %r' % (n, op, ch)
    if op == 'get':
        call(t, lambda: showChannel(channels.getChannel(ch)))
    elif op == 'set':
        c = ircdb.IrcChannel(defaultAllow=rng.random() < 0.5,
                             lobotomized=rng.random() < 0.2)
        for cap in rng.sample(CAPSTRINGS[:34], 3):
            call(t + ' addCapability %r' % cap, c.addCapability, cap)
        call(t, channels.setChannel, ch, c)
    elif op == 'edit':
        c = channels.getChannel(ch)
        cap = rng.choice(CAPSTRINGS[:34])
        call(t + ' addCapability %r' % cap, c.addCapability, cap)
        c.addBan('ban%d!*@*' % n, rng.choice([0, clock.t + 50, clock.t - 1]))
        c.addIgnore('ig%d!*@*' % n, rng.choice([0, clock.t + 50]))
        c.setDefaultCapability(rng.random() < 0.5)
    elif op == 'flush':
        channels.noFlush = rng.random() < 0.2
        call(t, channels.flush)
        channels.noFlush = False
    elif op == 'reload':
        ircdb.IrcChannelCreator.name = None
        call(t, channels.reload)
    elif op == 'items':
        call(t, lambda: show([k for (k, v) in channels.items()]))
        call(t + ' iter', lambda: show(list(channels)))
    snapshotChannels(t, channels)
call('F close', channels.close)
snapshotChannels('F closed', channels)
ircdb.IrcChannelCreator.name = None
bad = os.path.join(tmp, 'conf', 'bad-channels.conf')
for (n, text) in enumerate([
        'channel #a\n  lobotomized False\n  defaultAllow False\n'
        '  capability -op\n  capability FOO\n  ban a!b@c 0\n'
        '  ignore d!e@f 12\n\nchannel #A\n  capability bar\n\n',
        'channel #a\n  bogus\n\n', 'defaultAllow True\n\n', '']):
    with open(bad, 'w') as fd:
        fd.write(text)
    ircdb.IrcChannelCreator.name = None
    channels = ircdb.ChannelsDictionary()
    call('F bad %d open' % n, channels.open, bad)
    snapshotChannels('F bad %d' % n, channels)
ircdb.IrcChannelCreator.name = None
call('F open missing', channels.open, os.path.join(tmp, 'conf', 'nochan.conf'))

###
# G. checkCapability / checkCapabilities over database states and settings.
###
def buildWorld():
    users = ircdb.UsersDictionary()
    users.filename = os.path.join(tmp, 'conf', 'users-G.conf')
    channels = ircdb.ChannelsDictionary()
    channels.filename = os.path.join(tmp, 'conf', 'channels-G.conf')
    def mk(name, masks, caps, **kw):
        u = users.newUser()
        u.name = name
        for k in ('ignore', 'secure'):
            if k in kw:
                setattr(u, k, kw[k])
        for c in caps:
            u.addCapability(c)
        for m in masks:
            u.addHostmask(m)
        users.setUser(u)
        return u
    mk('Owner', ['own!*@host.own'], ['owner'])
    mk('Alice', ['alice!*@*.example.com'],
       ['foo', '-bar', '#chan,op', '#Chan2,-baz', 'MiXed', '#chan,-unk'])
    mk('Bob', ['bob!*@bob.host'], ['foo', '#chan,foo', '#chan,op'],
       ignore=True)
    carol = mk('Carol', ['carol!c@secure.host'], ['admin', '-#chan,x', 'reg'],
               secure=True)
    carol.auth.append((clock.time(), 'carol2!x@elsewhere'))
    dave = mk('Dave', [], ['#chan,-op', 'trusted', '-noreg', '#other,op'])
    dave.addAuth('dave!d@dyn.host')
    mk('Eve', ['eve!*@*'], [])
    mk('Frank', ['fr^nk!*@h'], ['owner', '-foo', '#chan,-foo'], ignore=True)
    mk('Gus', ['g[u]s!*@*'], ['-zed', 'qux', '#chan2,op', '#{x}|^,foo'])
    c = channels.getChannel('#chan')
    c.addCapability('foo')
    c.addCapability('-qux')
    c.addCapability('voice')
    c = channels.getChannel('#Chan2')
    c.setDefaultCapability(False)
    c.addCapability('baz')
    c.addCapability('-unk')
    return (users, channels)

WHO = ['own!er@host.own', 'OWN!er@HOST.own', 'alice!a@x.example.com',
       'ALICE!A@X.EXAMPLE.COM', 'bob!b@bob.host', 'carol!c@secure.host',
       'carol2!x@elsewhere', 'dave!d@dyn.host', 'DAVE!d@dyn.host',
       'eve!e@e', 'fr~nk!f@h', 'G{U}S!g@g', 'nobody!n@no.where',
       'irc.server.net', 'barenick', 'Alice', '', 1, 2, 5, 99]
FLAGS = [dict(zip(('ignoreOwner', 'ignoreChannelOp', 'ignoreDefaultAllow'), f))
         for f in itertools.product((False, True), repeat=3)]
SETTINGS = [
    None,
    (['-owner', 'foo', '-qux', 'zed', 'MiXed'], ['reg', '-noreg', 'foo', '-zed'],
     False),
    (['-owner', '-admin'], ['-foo', 'unknown', '#chan,unk'], False),
    (['-owner', 'noreg', '-reg'], ['reg', '-noreg'], True),
]
defaultCaps = list(conf.supybot.capabilities())
GCAPS = CAPSTRINGS + BADSTRINGS[:6]

def applySettings(s):
    if s is None:
        conf.supybot.capabilities.setValue(defaultCaps)
        conf.supybot.capabilities.registeredUsers.setValue([])
        conf.supybot.capabilities.default.setValue(True)
    else:
        conf.supybot.capabilities.setValue(s[0])
        conf.supybot.capabilities.registeredUsers.setValue(s[1])
        conf.supybot.capabilities.default.setValue(s[2])

for (si, setting) in enumerate(SETTINGS):
    applySettings(setting)
    (users, channels) = buildWorld()
    rec('G settings', si, repr(conf.supybot.capabilities()),
        repr(conf.supybot.capabilities.registeredUsers()),
        conf.supybot.capabilities.default())
    for who in WHO:
        for cap in GCAPS:
            for (fi, flags) in enumerate(FLAGS):
                call('G%d %r %r %d' % (si, who, cap, fi),
                     ircdb.checkCapability, who, cap, users=users,
                     channels=channels, **flags)
        call('G%d %r positional' % (si, who), ircdb.checkCapability, who,
             '#chan,foo', users, channels, True, True, True)
        for requireAll in (False, True, 0, 1, None, 'all'):
            for caps in ([], ['foo'], ['foo', '-foo'], ['-bar', 'admin'],
                         ['#chan,op', 'owner'], ['-qux', 'zed', '#chan2,baz'],
                         ['bad cap', 'foo'], ['foo', 'bad cap']):
                saved = (ircdb.checkCapability.__defaults__,)
                # checkCapabilities uses the global databases
                ircdb.checkCapability.__defaults__ = \
                    (users, channels) + saved[0][2:]
                try:
                    call('G%d caps %r %r %r' % (si, who, caps, requireAll),
                         ircdb.checkCapabilities, who, caps,
                         requireAll=requireAll)
                    call('G%d caps iter %r %r %r' % (si, who, caps, requireAll),
                         ircdb.checkCapabilities, who, iter(caps), requireAll)
                finally:
                    ircdb.checkCapability.__defaults__ = saved[0]
    for cap in GCAPS:
        for ida in (False, True):
            call('G%d unknown %r %r' % (si, cap, ida),
                 ircdb._checkCapabilityForUnknownUser, cap, users=users,
                 channels=channels, ignoreDefaultAllow=ida)
    snapshotUsers('G%d end' % si, users)
    snapshotChannels('G%d end' % si, channels)
    # The same questions again, after the caches have been filled, after they
    # have been emptied, and after a flush and a reload.
    for phase in ('warm', 'cold', 'reloaded'):
        if phase == 'cold':
            users._nameCache.clear()
            users._hostmaskCache.clear()
            ircutils._hostmaskPatternEqualCache.clear()
            ircutils._patternCache.clear()
        elif phase == 'reloaded':
            users.flush()
            channels.flush()
            ircdb.IrcUserCreator.u = None
            ircdb.IrcChannelCreator.name = None
            users.reload()
            channels.reload()
            for (i, u) in users.users.items():
                if u.name == 'Dave':
                    u.addAuth('dave!d@dyn.host')
                if u.name == 'Carol':
                    u.auth.append((clock.time(), 'carol2!x@elsewhere'))
        for who in WHO[:13]:
            for cap in GCAPS[:74:3]:
                call('G%d %s %r %r' % (si, phase, who, cap),
                     ircdb.checkCapability, who, cap, users=users,
                     channels=channels)
        snapshotUsers('G%d %s' % (si, phase), users)
    # Two accounts matching the same sender: the lookup refuses both, logs,
    # removes the hostmasks and the sender is treated as unknown.
    users.users[6].hostmasks.add('alice!*@*')
    users.users[1].hostmasks.add('*!*@x.example.com')
    for who in ('alice!a@x.example.com', 'alice!a@x.example.com',
                'own!er@host.own', 'eve!e@e'):
        for cap in ('foo', '-foo', '#chan,op', 'owner', '-owner'):
            call('G%d dup %r %r' % (si, who, cap), ircdb.checkCapability, who,
                 cap, users=users, channels=channels)
        snapshotUsers('G%d dup' % si, users)
    # Login time-outs: the cached answer must not outlive the login.
    tid.setValue(30)
    users.users[5].addAuth('dave!d@dyn.host')
    for n in range(40):
        call('G%d timeout %d' % (si, n), ircdb.checkCapability,
             'dave!d@dyn.host', 'trusted', users=users, channels=channels)
        call('G%d timeout %d anti' % (si, n), ircdb.checkCapability,
             'dave!d@dyn.host', '-trusted', users=users, channels=channels)
        rec('G timeout auth', users.users[5].auth,
            showCache(users._hostmaskCache))
    tid.setValue(0)
    # world.testing short-circuits everything except __no_testcap__ hosts.
    world.testing = True
    try:
        for who in ('alice!a@x.example.com', 'nobody!n@__no_testcap__.host',
                    'alice!a@__no_testcap__.example.com', 'server', 3, None):
            for cap in ('foo', '-foo', '#chan,op', '#chan,-op', 'bad cap', ''):
                call('G%d testing %r %r' % (si, who, cap),
                     ircdb.checkCapability, who, cap, users=users,
                     channels=channels)
    finally:
        world.testing = False

# Stand-in databases: lookups that raise.
class RaisingUsers(object):
    def __init__(self, exn):
        self.exn = exn
    def getUser(self, x):
        raise self.exn
class RaisingChannels(object):
    def __init__(self, exn):
        self.exn = exn
    def getChannel(self, x):
        raise self.exn
applySettings(SETTINGS[1])
(users, channels) = buildWorld()
for exn in (KeyError('k'), ValueError('v'), ircdb.DuplicateHostmask('a', 'b'),
            IndexError('i'), RuntimeError('r')):
    for cap in ('foo', '-foo', '#chan,foo', '#chan,-foo', '#chan,op', 'zzz'):
        call('G raising users %r %r' % (exn, cap), ircdb.checkCapability,
             'alice!a@x.example.com', cap, users=RaisingUsers(exn),
             channels=channels)
        call('G raising channels %r %r' % (exn, cap), ircdb.checkCapability,
             'alice!a@x.example.com', cap, users=users,
             channels=RaisingChannels(exn))
        call('G raising channels unknown %r %r' % (exn, cap),
             ircdb.checkCapability, 'nobody!n@no.where', cap, users=users,
             channels=RaisingChannels(exn))
        call('G raising channels unknown ida %r %r' % (exn, cap),
             ircdb._checkCapabilityForUnknownUser, cap, users=users,
             channels=RaisingChannels(exn), ignoreDefaultAllow=True)

###
# H. checkIgnored.
###
(users, channels) = buildWorld()
channels.getChannel('#chan').addIgnore('*!*@ig.chan')
channels.getChannel('#lobo').lobotomized = True
savedIgnores = ircdb.ignores
ircdb.ignores = ircdb.IgnoresDB()
ircdb.ignores.add('*!*@ig.global')
ircdb.ignores.add('*!*@ig.expired', clock.t - 10)
ircdb.ignores.add('*!*@ig.soon', clock.t + 400)
try:
    for defaultIgnore in (False, True):
        conf.supybot.defaultIgnore.setValue(defaultIgnore)
        for who in WHO[:17] + ['x!y@ig.global', 'x!y@ig.chan', 'x!y@ig.expired',
                               'x!y@ig.soon', 'ALICE!a@ig.global.example.com']:
            for recipient in ('', 'demo', '#chan', '#CHAN', '#lobo', '#new'):
                call('H %r %r %r' % (defaultIgnore, who, recipient),
                     ircdb.checkIgnored, who, recipient, users=users,
                     channels=channels)
        rec('H ignores', ircdb.ignores.hostmasks)
        clock.t += 300
finally:
    conf.supybot.defaultIgnore.setValue(False)
    ircdb.ignores = savedIgnores
igfile = os.path.join(tmp, 'conf', 'ignores-demo.conf')
with open(igfile, 'w') as fd:
    fd.write('# comment\n\n*!*@a 0\n*!*@b %s\n*!*@c 12.5\nbad\n*!*@d x\n'
             '*!*@e\n' % (clock.t + 1000))
ig = ircdb.IgnoresDB()
call('H flush nofile', ig.flush)
call('H reload nofile', ig.reload)
call('H open', ig.open, igfile)
rec('H opened', ig.hostmasks)
for h in ('x!y@a', 'x!y@B', 'x!y@c', 'x!y@e', 'x!y@z'):
    call('H checkIgnored %r' % h, ig.checkIgnored, h)
call('H add bad', ig.add, 'nope')
call('H remove', ig.remove, '*!*@a')
call('H remove missing', ig.remove, '*!*@a')
call('H flush', ig.flush)
rec('H file', readFile(igfile), ig.hostmasks)
call('H reload', ig.reload)
rec('H reloaded', ig.hostmasks)
call('H close', ig.close)
rec('H closed', readFile(igfile), ig.hostmasks)

###
# I. ircutils helpers the capability code relies on.
###
CHARS = [chr(i) for i in range(0, 256)] + ['K', 'ſ', 'İ', 'é',
                                            'É']
call('I toLower all', ircutils.toLower, ''.join(CHARS))
for cm in (None, 'rfc1459', 'ascii', 'strict-rfc1459', '', 0):
    call('I toLower %r' % (cm,), ircutils.toLower, 'AbC[]\\~{}|^ÉK', cm)
    call('I toLower kw %r' % (cm,), ircutils.toLower, 'AbC[]\\~', casemapping=cm)
for bad in (None, 5, b'ABC', ['A']):
    call('I toLower bad %r' % (bad,), ircutils.toLower, bad)
call('I toLower IrcString', ircutils.toLower, ircutils.IrcString('A[B]'))
for c in CHARS:
    call('I _hostmaskPatternClass %r' % c, ircutils._hostmaskPatternClass, c)
for s in ['#chan', '#CHAN', '&x', '!x', '+x', 'x', '', '#', '#a,b', '#a b',
          ' #a', '#a ', '#a\x07', '#' + 'x' * 49, '#' + 'x' * 50, '#é',
          '#a\tb', '#a\n']:
    call('I isChannel %r' % s, ircutils.isChannel, s)
    call('I isChannel %r custom' % s, ircutils.isChannel, s, '+#', 5)
    call('I isChannel %r kw' % s, ircutils.isChannel, s, chantypes='&',
         channellen=200)
    call('I areChannels %r' % s, ircutils.areChannels, s)
for bad in (None, 0, [], ['#a'], b'#a'):
    call('I isChannel bad %r' % (bad,), ircutils.isChannel, bad)
for s in ['a!b@c', 'a!b@', '!b@c', 'a@b!c', 'a b!c@d', 'a!b@c d', 'a!!b@@c',
          'server.name', '', 'é!é@é', 'a!b@c\n', '\na!b@c']:
    call('I isUserHostmask %r' % s, ircutils.isUserHostmask, s)
    call('I isServerHostmask %r' % s, ircutils.isServerHostmask, s)
    call('I splitHostmask %r' % s, ircutils.splitHostmask, s)
PATTERNS = ['*!*@*', 'a!b@c', 'A!B@C', '?!?@?', 'a*!*b@c*d', '[x]!{y}@|z\\',
            '{X}![Y]@\\Z|', '^a~!~b^@c', '~A^!^B~@C', 'a.b!c+d@e(f)$',
            '*a*b*!*@*', 'k!s@i', 'K!ſ@İ', 'é!É@x', '**!??@*?',
            'a!b@c*', '*a!b@c', 'a?c!b@c', '', '*', 'a!b@c.d.e', 'a!b@*.d.e',
            'a!b@c.*.e', 'n-1!u_2@h-3.x']
HOSTS = ['a!b@c', 'A!B@C', 'x!y@z', '[x]!{y}@|z\\', '{X}![Y]@\\Z|',
         '^a~!~b^@c', '~A^!^B~@C', 'a.b!c+d@e(f)$', 'aXb!q@q', 'k!s@i',
         'K!S@I', 'K!ſ@İ', 'é!É@x', 'É!é@x', 'abc!b@c',
         'a!b@c.d.e', 'a!b@cXd.e', 'n-1!u_2@h-3.x', 'a!b@c\n', '']
for p in PATTERNS:
    for h in HOSTS:
        call('I hostmaskPatternEqual %r %r' % (p, h),
             ircutils.hostmaskPatternEqual, p, h)
        call('I _hostmaskPatternEqual %r %r' % (p, h),
             ircutils._hostmaskPatternEqual, p, h)
    f = ircutils._patternCache[p]
    rec('I compiled', p, f.__self__.pattern, f.__self__.flags, f.__name__)
    for q in PATTERNS:
        call('I hostmaskPatternsIntersect %r %r' % (p, q),
             ircutils.hostmaskPatternsIntersect, p, q)
rec('I caches', len(ircutils._patternCache),
    show(list(ircutils._patternCache.keys())),
    len(ircutils._hostmaskPatternEqualCache),
    show(list(ircutils._hostmaskPatternEqualCache.items())[:200]))
for bad in (None, 5, b'a!b@c'):
    call('I hostmaskPatternEqual bad %r' % (bad,),
         ircutils.hostmaskPatternEqual, bad, 'a!b@c')
    call('I hostmaskPatternEqual bad host %r' % (bad,),
         ircutils.hostmaskPatternEqual, 'a!b@c2', bad)
    call('I hostmaskPatternsIntersect bad %r' % (bad,),
         ircutils.hostmaskPatternsIntersect, bad, 'a!b@c')
# Filling the pattern caches beyond their size.
ircutils._patternCache.max = 5
ircutils._hostmaskPatternEqualCache.max = 7
for n in range(40):
    p = 'p%d*!*@*' % (n % 9)
    call('I small cache %d' % n, ircutils.hostmaskPatternEqual, p,
         'P%dx!a@b' % (n % 4))
    rec('I small cache', show(list(ircutils._patternCache.keys())),
        show(list(ircutils._hostmaskPatternEqualCache.items())))
ircutils._patternCache.max = 1000
ircutils._hostmaskPatternEqualCache.max = 1000
d = ircutils.IrcDict()
d['#Chan[1]'] = 1
d['#chan{1}'] = 2
d['Other'] = 3
rec('I IrcDict', list(d), list(d.items()), '#CHAN[1]' in d, d['#CHAN{1}'],
    list(d.keys()), repr(d), len(d))
s = ircutils.IrcSet(['A!b@c', 'a!B@C', 'x[y]', 'X{Y}'])
rec('I IrcSet', list(s), [type(x).__name__ for x in s], 'A!B@C' in s,
    'x{y}' in s, len(s), repr(s), s.__reduce__())
x = ircutils.IrcString('Nick[a]')
rec('I IrcString', x, x.lowered, x == 'nick{A}', x != 'nick{a}', x == 5,
    x == None, hash(x) == hash('nick{a}'), x == 'other')

###
# Verdict.
###
shutil.rmtree(tmp, ignore_errors=True)
blob = '\n'.join(T).encode('utf-8', 'backslashreplace')
blob = blob.replace(tmp.encode(), b'<TMP>')
digest = hashlib.sha256(blob).hexdigest()
dump = os.environ.get('DEMO_DUMP')
if dump:
    with open(dump, 'wb') as fd:
        fd.write(blob)
code = 0
if digest == EXPECTED:
    print('PASS (%d observations, digest %s)' % (len(T), digest[:16]))
else:
    print('FAIL: digest %s over %d observations, expected %s'
          % (digest, len(T), EXPECTED))
    code = 1
sys.stdout.flush()
os._exit(code)
