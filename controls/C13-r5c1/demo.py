# C13 control c1: behaviour-preserving refactor of Tokenizer.__init__,
# _handleToken (-> _unescape), _insideBrackets, tokenize (-> _foldPipes),
# callbacks.tokenize, utils.str.dqrepr and shlex push_token/get_token/
# read_token.  This checks (1) the property itself: totality, quoted round
# trip, exact nesting; (2) known answers for edge cases; (3) a digest of the
# exact results (tokens or error messages) over a large deterministic corpus,
# recorded on the unmodified tree.
import os, sys, random, hashlib, io
sys.path.insert(0, os.getcwd())
EXPECTED_DIGEST = '69ba7cfb3b4bbf8ce8f38b4efcf0c63d6d39e93a929b270579fb700b1a2a9b94'
code = 1
try:
    import supybot.conf as conf
    import supybot.utils as utils
    import supybot.shlex as shlex
    import supybot.callbacks as callbacks
    dqrepr = utils.str.dqrepr
    problems = []
    h = hashlib.sha256()
    def record(*things):
        h.update(ascii(things).encode())

    def run(tok, s):
        """('ok', tree) or ('syntax', message); anything else is a failure."""
        try:
            return ('ok', tok(s))
        except SyntaxError as e:
            return ('syntax', str(e))
    def viaTokenizer(t):
        # what callbacks.tokenize does around Tokenizer.tokenize
        def f(s):
            try:
                return t.tokenize(s)
            except ValueError as e:
                raise SyntaxError(str(e))
        return f
    def isTree(x):
        return isinstance(x, list) and all(isinstance(y, str) or isTree(y) for y in x)

    BRACKETS = ['', '[]', '<>', '{}', '()']
    QUOTES = ['"', '"\'', '"`', '"\'`', '\'', '`', '']
    configs = [(b, p, q) for b in BRACKETS for p in (False, True) for q in QUOTES]
    tokenizers = dict((c, callbacks.Tokenizer(brackets=c[0], pipe=c[1], quotes=c[2]))
                      for c in configs)

    # --- constructor -------------------------------------------------------
    for c, t in sorted(tokenizers.items()):
        record('init', c, t.left, t.right, t.pipe, t.quotes, t.separators)
        want = '\x00\r\n \t' + c[0] + ('|' if c[1] else '') + c[2]
        if t.separators != want or (t.left + t.right) != c[0]:
            problems.append(('init', c, t.separators))
    if callbacks.Tokenizer.separators != '\x00\r\n \t':
        problems.append(('class attribute changed', callbacks.Tokenizer.separators))
    d = callbacks.Tokenizer()
    if (d.left, d.right, d.pipe, d.quotes, d.separators) != ('', '', False, '"', '\x00\r\n \t"'):
        problems.append(('defaults', d.separators))

    # --- known answers -------------------------------------------------------
    T = viaTokenizer(tokenizers[('[]', True, '"')])
    known = [
        ('', ('ok', [])), ('   ', ('ok', [])), ('foo', ('ok', ['foo'])),
        ('""', ('ok', [''])), ('"" ""', ('ok', ['', ''])),
        ('foo "bar baz" quux', ('ok', ['foo', 'bar baz', 'quux'])),
        ('"a\\"b"', ('ok', ['a"b'])), ('"a\\\\"', ('ok', ['a\\'])),
        ('"a\\\\\\"b"', ('ok', ['a\\"b'])), ('"\\\\\\\\"', ('ok', ['\\\\'])),
        ('"\\t\\x41\\u00e9\\N{BULLET}"', ('ok', ['\tA\xe9\u2022'])),
        ('"\u597d"', ('ok', ['\u597d'])), ('"\xe9"', ('ok', ['\xe9'])),
        ('"\\x80"', ('ok', ['\x80'])), ('"\\xc3\\xa9"', ('ok', ['\xe9'])),
        ('"\U0001f600 [x] | <y>"', ('ok', ['\U0001f600 [x] | <y>'])),
        ('foo"bar"', ('ok', ['foo"bar"'])), ('"foo"bar', ('ok', ['foo', 'bar'])),
        ('a [b [c d] e] f', ('ok', ['a', ['b', ['c', 'd'], 'e'], 'f'])),
        ('[]', ('ok', [[]])), ('[[]]', ('ok', [[[]]])), ('a[b]c', ('ok', ['a', ['b'], 'c'])),
        ('a | b', ('ok', ['b', ['a']])), ('a|b', ('ok', ['b', ['a']])),
        ('a 1 | b 2 | c 3', ('ok', ['c', '3', ['b', '2', ['a', '1']]])),
        ('a | b | c | d', ('ok', ['d', ['c', ['b'], ['a']]])),
        ('a 1 | b 2 | c 3 | d 4 | e 5',
            ('ok', ['e', '5', ['d', '4', ['c', '3'], ['b', '2'], ['a', '1']]])),
        ('[a | b]', ('ok', [['a', '|', 'b']])), ('a "|" b', ('ok', ['a', '|', 'b'])),
        ('[a] | b', ('ok', ['b', [['a']]])), ('a | [b]', ('ok', [['b'], ['a']])),
    ]
    for s, want in known:
        got = run(T, s)
        if got != want:
            problems.append(('known', s, got, want))
    for s, frag in [('[', 'Missing "]"'), ('a [b [c]', 'Missing "]"'), (']', 'Spurious "]"'),
                    ('a ] b', 'Spurious "]"'), ('| a', 'nothing preceding'),
                    ('a | | b', 'nothing preceding'), ('a |', 'nothing following'),
                    ('a | b |', 'nothing following'),
                    ('"abc', 'No closing quotation'), ('"abc\\', 'No closing quotation'),
                    ('"abc\\"', 'No closing quotation'), ('[a "b]', 'No closing quotation'),
                    ('"\\x"', 'truncated'), ('"\\N{nope}"', 'unknown Unicode character name'),
                    ('"\\ud800"', 'surrogates not allowed'), ('"\\U00110000"', 'illegal Unicode')]:
        got = run(T, s)
        if got[0] != 'syntax' or frag not in got[1]:
            problems.append(('known error', s, got, frag))
    for style in BRACKETS[1:]:
        l, r = style
        t = viaTokenizer(tokenizers[(style, False, '"')])
        s = 'a %sb %sc%s%s %s%s "%sq%s"' % (l, l, r, r, l, r, l, r)
        if run(t, s) != ('ok', ['a', ['b', ['c']], [], l + 'q' + r]):
            problems.append(('style', style, run(t, s)))
        others = ''.join(x for x in '[]<>{}()' if x not in style)
        if run(t, 'x' + others + 'y |') != ('ok', ['x' + others + 'y', '|']):
            problems.append(('other brackets are text', style, run(t, 'x' + others + 'y |')))

    # --- dqrepr ----------------------------------------------------------------
    for s, want in [('', '""'), ('foo', '"foo"'), ('a"b', '"a\\"b"'), ('a\\b', '"a\\\\b"'),
                    ('a\\"b', '"a\\\\\\"b"'), ("it's", '"it\'s"'), ('\x00\t\x7f', '"\\x00\\t\\x7f"'),
                    ('\x7f\x80\xe9\u597d\U0001f600', '"\\x7f\x80\xe9\u597d\U0001f600"'),
                    ('[a] | `b`', '"[a] | `b`"')]:
        if dqrepr(s) != want:
            problems.append(('dqrepr', s, dqrepr(s), want))

    # --- random corpus ---------------------------------------------------------
    rnd = random.Random(20240913)
    ALPHA = list('ab z09') + list('[]<>{}()|"\'`\\\\\\ \t  ') + \
            list('\xe9\xff\x80\xa0\u0416\u597d\u202e\u200b\U0001f600\U000e0001\x01\x7f$%#:.,') + \
            ['\\x', '\\x4', '\\x41', '\\u00e9', '\\u12', '\\ud800', '\\N{BULLET}', '\\N{', '\\n',
             '\\"', '\\\\', '\\777', '\\8', '""', '[]', ' | ', '"a b"', '\\U0001f600']
    def randText(n):
        return ''.join(rnd.choice(ALPHA) for _ in range(n))
    texts = [randText(rnd.randrange(0, 25)) for _ in range(2500)]
    texts += [randText(rnd.randrange(100, 480)) for _ in range(40)]
    texts += ['[' * n for n in (1, 50, 300)] + ['[' * 200 + 'x' + ']' * 200, ']' * 3, '|' * 5, '"' * 7]
    nOk = nErr = 0
    for c in configs:
        t = viaTokenizer(tokenizers[c])
        for s in (texts if c[2] in ('"', '"\'`') else texts[::9]):
            try:
                got = run(t, s)
            except BaseException as e:
                problems.append(('TOTALITY', c, s, type(e).__name__, str(e)))
                continue
            if got[0] == 'ok':
                nOk += 1
                if not isTree(got[1]):
                    problems.append(('not a tree', c, s, got))
            else:
                nErr += 1
            record(c, s, got)

    # --- quoted argument lists round trip, for every configuration with '"' ------
    ARGCH = list('ab \t[]<>{}()|"\'`\\$') + list('\xe9\xff\x80\xa0\u0416\u597d\u202e\u200b\U0001f600\x01\x7f')
    def randArg():
        return ''.join(rnd.choice(ARGCH) for _ in range(rnd.randrange(0, 12)))
    lists = [[randArg() for _ in range(rnd.randrange(0, 6))] for _ in range(600)]
    lists += [[], [''], ['', ''], ['\\'], ['"'], ['\\"'], ['\\\\'], ['a\\'], [' '], ['[', ']', '|'],
              ['x' * 400], ['\xe9' * 150], ['\\' * 101], ['"' * 100]]
    nRound = 0
    for c in configs:
        if '"' not in c[2]:
            continue
        t = viaTokenizer(tokenizers[c])
        for L in lists:
            line = ' '.join(map(dqrepr, L))
            got = run(t, line)
            nRound += 1
            record('rt', c, line, got)
            if got != ('ok', L):
                problems.append(('ROUND TRIP', c, L, line, got))
            # a hand-written quoting (only \ and " escaped) must do as well
            line2 = ' '.join('"%s"' % a.replace('\\', '\\\\').replace('"', '\\"') for a in L)
            got2 = run(t, line2)
            # (mixing raw non-ASCII with nothing escaped: always exact)
            if got2 != ('ok', L):
                problems.append(('ROUND TRIP raw', c, L, line2, got2))

    # --- nesting trees rendered with brackets give exactly that tree -----------------
    def randTree(depth):
        n = rnd.randrange(0, 4)
        out = []
        for _ in range(n):
            if depth > 0 and rnd.random() < 0.45:
                out.append(randTree(depth - 1))
            else:
                out.append(rnd.choice(['a', 'foo', 'x.y', '\u597d', '$1', '@', 'a\\b', 'it\'s']))
        return out
    def render(tree, l, r, tight):
        parts = [l + render(x, l, r, tight) + r if isinstance(x, list) else x for x in tree]
        return ' '.join(parts) if not tight else \
               ''.join(p if (p[0] == l or i == 0 or parts[i-1][-1] == r) else ' ' + p
                       for i, p in enumerate(parts))
    trees = [randTree(rnd.randrange(0, 9)) for _ in range(400)]
    nTrees = 0
    for c in configs:
        if not c[0] or "'" in c[2]:
            continue
        t = viaTokenizer(tokenizers[c])
        l, r = c[0]
        for tree in trees:
            for tight in (False, True):
                s = render(tree, l, r, tight)
                got = run(t, s)
                nTrees += 1
                if got != ('ok', tree):
                    problems.append(('NESTING', c, s, got, tree))
    deep = ['x']
    for _ in range(120):
        deep = [deep]
    if run(T, render(deep, '[', ']', True)) != ('ok', deep):
        problems.append(('deep nesting',))

    # --- module-level tokenize() and the configuration ------------------------------
    cmds = conf.supybot.commands
    def M(s, **kw):
        try:
            return run(lambda x: callbacks.tokenize(x, **kw), s)
        except BaseException as e:
            problems.append(('TOTALITY tokenize()', s, kw, type(e).__name__, str(e)))
            return ('other',)
    sample = texts[:400] + [' '.join(map(dqrepr, L)) for L in lists[:100]]
    def sweep(label, **kw):
        for s in sample:
            record(label, s, M(s, **kw))
    sweep('default')
    if M('a [b] | "c d"') != ('ok', ['a', ['b'], '|', 'c d']):
        problems.append(('tokenize default', M('a [b] | "c d"')))
    cmds.nested.pipeSyntax.setValue(True)
    sweep('pipe')
    if M('a [b] | "c d"') != ('ok', ['c d', ['a', ['b']]]):
        problems.append(('tokenize pipe', M('a [b] | "c d"')))
    cmds.nested.setValue(False)                     # no nesting, no pipe
    sweep('nonested')
    if M('a [b] | "c d"') != ('ok', ['a', '[b]', '|', 'c d']):
        problems.append(('tokenize nonested', M('a [b] | "c d"')))
    cmds.nested.setValue(True)
    cmds.nested.pipeSyntax.setValue(False)
    cmds.nested.brackets.get('#angle').setValue('<>')
    cmds.nested.pipeSyntax.get('#angle').setValue(True)
    cmds.quotes.get('#angle').setValue('"`')
    sweep('#angle', channel='#angle')
    sweep('#other', channel='#other')
    if M('a <b> [c] | `d e`', channel='#angle') != ('ok', ['d e', ['a', ['b'], '[c]']]):
        problems.append(('tokenize #angle', M('a <b> [c] | `d e`', channel='#angle')))
    if M('a <b> [c] | `d e`', channel='#other') != ('ok', ['a', '<b>', ['c'], '|', '`d', 'e`']):
        problems.append(('tokenize #other', M('a <b> [c] | `d e`', channel='#other')))
    cmds.nested.brackets.get('#none').setValue('')
    cmds.nested.pipeSyntax.get('#none').setValue(True)
    sweep('#none', channel='#none')
    if M('a [b] | c', channel='#none') != ('ok', ['c', ['a', '[b]']]):
        problems.append(('tokenize #none', M('a [b] | c', channel='#none')))

    # --- the lexer on its own: pushback order, state across tokens ---------------------
    def lex(s, pushes=()):
        lx = shlex.shlex(io.StringIO(s))
        lx.commenters = ''
        lx.quotes = '"\''
        lx.separators = '\x00\r\n \t[]|"\''
        out = []
        for p in pushes:
            lx.push_token(p)
        try:
            while True:
                tk = lx.get_token()
                if not tk:
                    break
                out.append(tk)
                if tk == 'PUSH':
                    lx.push_token('p1'); lx.push_token('p2')
            out.append(('end', lx.state, lx.backslash, list(lx.pushback), lx.token))
        except ValueError as e:
            out.append(('ValueError', str(e), lx.backslash))
        return out
    if lex('a[b]c PUSH d', pushes=('x', 'y')) != \
            ['y', 'x', 'a', '[', 'b', ']', 'c', 'PUSH', 'p2', 'p1', 'd', ('end', None, False, [], '')]:
        problems.append(('lexer pushback', lex('a[b]c PUSH d', pushes=('x', 'y'))))
    if lex('"a\\"b" \'c"d\' e"f\'g') != ['"a\\"b"', '\'c"d\'', 'e"f\'g', ('end', None, False, [], '')]:
        problems.append(('lexer quotes', lex('"a\\"b" \'c"d\' e"f\'g')))
    for s in texts[:1500]:
        record('lex', s, lex(s))

    digest = h.hexdigest()
    if os.environ.get('C13_PRINT_DIGEST'):
        print('digest', digest)
    if EXPECTED_DIGEST != digest:
        problems.append(('DIGEST of all results differs from the unmodified tree', digest))
    if problems:
        print('FAIL: %d problems' % len(problems))
        for p in problems[:8]:
            print('   %a' % (p,))
    else:
        print('PASS: %d tokenisations total (%d trees, %d syntax errors), %d quoted lists round-trip, '
              '%d rendered trees exact, digest of all results unchanged'
              % (nOk + nErr, nOk, nErr, nRound, nTrees))
        code = 0
except BaseException as e:
    import traceback; traceback.print_exc()
    print('FAIL: unexpected', type(e).__name__, e)
    code = 1
sys.stdout.flush()
os._exit(code)
