import os, sys, tempfile
sys.path.insert(0, os.getcwd())
_base = tempfile.mkdtemp(prefix='c19demo')
_regf = os.path.join(_base, 'test.conf')
with open(_regf, 'w') as _fd:
    _fd.write("""
supybot.directories.data: %(b)s/data
supybot.directories.conf: %(b)s/conf
supybot.directories.log: %(b)s/logs
supybot.log.stdout: False
supybot.log.level: CRITICAL
supybot.log.plugins.individualLogfiles: False
supybot.networks.test.server: should.not.need.this
supybot.nick: test
""" % {'b': _base})
import supybot
import supybot.registry as registry
registry.open_registry(_regf)
import supybot.log as log
import supybot.conf as conf
import supybot.world as world
import supybot.irclib as irclib
import supybot.ircmsgs as ircmsgs
assert os.path.realpath(supybot.__file__).startswith(os.path.realpath(os.getcwd())), supybot.__file__
assert not world.testing and not log.testing
conf.registerNetwork('test')
conf.registerNetwork('other')

import time as _realtime
class Clock(object):
    """Settable clock seen by irclib (throttle, JOIN rate limit, ping)."""
    t = 1000000.0
    def __getattr__(self, name):
        return getattr(_realtime, name)
    def time(self):
        return self.t
clock = Clock()
irclib.time = clock

class Driver(object):
    def __init__(self):
        self.dead = False
        self.reconnects = 0
    def die(self):
        self.dead = True
    def reconnect(self, *args, **kwargs):
        self.reconnects += 1

class Plain(irclib.IrcCallback):
    def name(self):
        return 'Plain'

def newIrc(network='test', callbacks=None):
    irc = irclib.Irc(network, callbacks=[Plain()] if callbacks is None else callbacks)
    irc.driver = Driver()
    return irc

def take(irc, tick=0.0):
    """One takeMsg call after advancing the clock by `tick` seconds."""
    clock.t += tick
    m = irc.takeMsg()
    return None if m is None else str(m).rstrip('\r\n')

def drain(irc, tick=10.0, calls=40):
    out = []
    for _ in range(calls):
        s = take(irc, tick)
        if s is not None:
            out.append(s)
    return out

failures = []
def check(cond, what):
    if not cond:
        failures.append(what)
        print('VIOLATION:', what)

def finish():
    if failures:
        print('FAIL')
        sys.stdout.flush()
        os._exit(1)
    print('PASS')
    sys.stdout.flush()
    os._exit(0)

# ---------------------------------------------------------------------------
# CONTROL.  Differential test of the real Irc against a small executable
# statement of the property's mechanisms (three classes, FIFO inside a class,
# JOIN rate limit with hold-back to the end of the line, throttle, duplicate
# refusal, filters that drop, ping, die-drains-then-closes, reset), over
# seeded random interleavings of queueMsg/sendMsg/takeMsg/die/reset/clock
# advances, for many settings.  Then a few hand-written edge cases.
# ---------------------------------------------------------------------------
import random
import supybot.utils.structures as structures

HIGH = set(['MODE', 'KICK', 'PONG', 'NICK', 'PASS', 'CAPAB', 'REMOVE'])
LOW = set(['PRIVMSG', 'PING', 'WHO', 'NOTICE', 'JOIN'])

class Dropper(irclib.IrcCallback):
    """An outFilter that drops every message whose last argument has DROP."""
    def name(self):
        return 'Dropper'
    def outFilter(self, irc, msg):
        if msg.args and 'DROP' in msg.args[-1]:
            return None
        return msg

class Model(object):
    def __init__(self, cfg, now):
        self.cfg = cfg
        self.zombie = False
        self.closed = 0
        self.reconnects = 0
        self.connectMsgs(now)
    def connectMsgs(self, now):
        self.fast = []
        self.q = {'high': [], 'normal': [], 'low': []}
        self.lastJoin = 0
        self.lastTake = 0
        self.afterConnect = False
        self.lastping = now
        self.outstanding = False
        if self.zombie:
            self.closed += 2    # driver.die() + _reallyDie() -> driver.die()
            return
        self.fast.extend([('CAP', 'CAP LS :302'), ('NICK', 'NICK :test'),
                          ('USER', 'USER limnoria 0 * :Limnoria 2000.01.01')])
    def waiting(self):
        return self.q['high'] + self.q['normal'] + self.q['low']
    def queue(self, m):
        if self.zombie:
            return False
        if self.cfg['dups'] and m in self.waiting():
            return False
        (cmd, wire) = m
        cls = 'high' if cmd in HIGH else 'low' if cmd in LOW else 'normal'
        self.q[cls].append(m)
        return True
    def send(self, m):
        if not self.zombie:
            self.fast.append(m)
    def dequeue(self, now):
        for cls in ('high', 'normal', 'low'):
            if self.q[cls]:
                m = self.q[cls].pop(0)
                if cls == 'low' and m[0] == 'JOIN':
                    if self.lastJoin + self.cfg['join'] <= now:
                        self.lastJoin = now
                    else:
                        self.q['low'].append(m)
                        return None
                return m
        return None
    def take(self, now):
        for _ in range(len(self.fast) + len(self.waiting()) + 1):
            m = None
            if self.fast:
                m = self.fast.pop(0)
            elif self.waiting():
                if not (now - self.lastTake <= self.cfg['throttle']):
                    self.lastTake = now
                    m = self.dequeue(now)
            elif self.afterConnect and self.cfg['ping'] and \
                    now > self.lastping + self.cfg['interval']:
                if self.outstanding:
                    self.reconnects += 1
                elif not self.zombie:
                    self.lastping = now
                    self.outstanding = True
                    self.queue(('PING', 'PING :%d' % int(now)))
            if m is not None:
                if 'DROP' in m[1]:
                    continue
                return m[1]
            if self.zombie and not self.waiting() and not self.fast:
                self.closed += 2
            return None
        return None
    def die(self):
        self.zombie = True
        if not self.afterConnect:
            self.closed += 1

def pool(rng):
    n = rng.randrange(4)
    c = '#c%d' % rng.randrange(3)
    return rng.choice([
        lambda: ircmsgs.op(c, 'n%d' % n),
        lambda: ircmsgs.kick(c, 'n%d' % n, 'DROP it' if n == 0 else 'out'),
        lambda: ircmsgs.pong('p%d' % n),
        lambda: ircmsgs.nick('nick%d' % n),
        lambda: ircmsgs.topic(c, 'DROP' if n == 0 else 'topic %d' % n),
        lambda: ircmsgs.IrcMsg(command='AWAY'),
        lambda: ircmsgs.IrcMsg(command='AWAY', args=('gone %d' % n,)),
        lambda: ircmsgs.IrcMsg(command='join', args=(c,)),      # not 'JOIN'
        lambda: ircmsgs.part(c),
        lambda: ircmsgs.privmsg(c, 'text %d' % n),
        lambda: ircmsgs.privmsg(c, 'DROP %d' % n),
        lambda: ircmsgs.notice(c, 'note %d' % n),
        lambda: ircmsgs.join(c),
        lambda: ircmsgs.join('#j%d' % n),
        lambda: ircmsgs.who(c),
        lambda: ircmsgs.ping('q%d' % n),
    ])()

def key(m):
    return (m.command, str(m).rstrip('\r\n'))

def runCase(seed, cfg, steps):
    rng = random.Random(seed)
    conf.supybot.protocols.irc.throttleTime.setValue(cfg['throttle'])
    conf.supybot.protocols.irc.queuing.rateLimit.join.setValue(cfg['join'])
    conf.supybot.protocols.irc.queuing.duplicates.setValue(cfg['dups'])
    conf.supybot.protocols.irc.ping.setValue(cfg['ping'])
    conf.supybot.protocols.irc.ping.interval.setValue(cfg['interval'])
    clock.t = 1000000.0 + rng.randrange(100)
    irc = newIrc(callbacks=[Plain(), Dropper()])
    model = Model(cfg, clock.t)
    kept = []       # objects queued before, to be queued again
    trace = []
    def bad(what):
        check(False, 'seed %d cfg %r: %s\n   trace: %r' % (seed, cfg, what, trace[-12:]))
        return False
    for i in range(steps):
        op = rng.choice(['queue'] * 5 + ['send'] * 2 + ['take'] * 8 +
                        ['tick'] * 4 + ['connect', 'pong'] +
                        (['die'] if rng.random() < 0.15 else []) +
                        (['reset'] if rng.random() < 0.15 else []))
        if op in ('queue', 'send'):
            if kept and rng.random() < 0.3:
                m = rng.choice(kept)
            else:
                m = pool(rng)
                kept.append(m)
            if op == 'queue':
                r = irc.queueMsg(m)
                e = model.queue(key(m))
                trace.append(('queue', key(m)[1], r))
                if r is not e:
                    return bad('queueMsg(%s) returned %r, expected %r' % (key(m)[1], r, e))
            else:
                r = irc.sendMsg(m)
                model.send(key(m))
                trace.append(('send', key(m)[1]))
                if r is not None:
                    return bad('sendMsg returned %r' % (r,))
        elif op == 'take':
            got = take(irc)
            e = model.take(clock.t)
            trace.append(('take', clock.t, got))
            if got != e:
                return bad('takeMsg at %s gave %r, expected %r' % (clock.t, got, e))
        elif op == 'tick':
            clock.t += rng.choice([0.0, 0.5, 0.5, 1.0, 1.5, 2.0, 3.0, 7.0])
            trace.append(('tick', clock.t))
        elif op == 'connect':
            irc.afterConnect = model.afterConnect = True
            trace.append(('connect',))
        elif op == 'pong':
            irc.feedMsg(ircmsgs.IrcMsg(':srv PONG srv :x'))
            model.outstanding = False
            trace.append(('pong',))
        elif op == 'die':
            irc.die()
            model.die()
            trace.append(('die',))
        elif op == 'reset':
            irc.reset()
            model.connectMsgs(clock.t)
            trace.append(('reset',))
        # observable state after every step
        if (len(irc.fastqueue), len(irc.queue)) != (len(model.fast), len(model.waiting())):
            return bad('queue lengths %r, expected %r' % (
                (len(irc.fastqueue), len(irc.queue)), (len(model.fast), len(model.waiting()))))
        if bool(irc.queue) != bool(model.waiting()):
            return bad('bool(queue)')
        if [key(m) for m in irc.queue.highpriority] != model.q['high'] or \
           [key(m) for m in irc.queue.normal] != model.q['normal'] or \
           [key(m) for m in irc.queue.lowpriority] != model.q['low'] or \
           [key(m) for m in irc.fastqueue] != model.fast:
            return bad('queue contents differ')
        if kept:
            m = rng.choice(kept)
            if (m in irc.queue) != (key(m) in model.waiting()):
                return bad('%s in queue' % key(m)[1])
        if irc.driver.closes != model.closed:
            return bad('driver closed %d times, expected %d' % (irc.driver.closes, model.closed))
        if irc.driver.reconnects != model.reconnects:
            return bad('reconnects %d, expected %d' % (irc.driver.reconnects, model.reconnects))
        if (irc.zombie, irc.lastTake, irc.queue.lastJoin) != \
                (model.zombie, model.lastTake, model.lastJoin):
            return bad('zombie/lastTake/lastJoin %r' % ((irc.zombie, irc.lastTake, irc.queue.lastJoin),))
    if irc in world.ircs:
        world.ircs.remove(irc)
    return True

class CountingDriver(Driver):
    closes = 0
    def die(self):
        self.closes += 1
        self.dead = True
_newIrc = newIrc
def newIrc(network='test', callbacks=None):
    irc = _newIrc(network, callbacks)
    irc.driver = CountingDriver()
    return irc

# A second network that stays alive: Irc._reallyDie() clears the callback
# list (and with it the outFilters) only when the LAST Irc object dies.
keepalive = _newIrc('other')

cases = 0
seed = 0
for throttle in (0.0, 0.5, 1.0, 2.0):
    for join in (0.0, 1.5, 3.0, 10.0):
        for dups in (False, True):
            for ping in (False, True):
                cfg = {'throttle': throttle, 'join': join, 'dups': dups,
                       'ping': ping, 'interval': 5}
                for k in range(6):
                    seed += 1
                    runCase(seed, cfg, 150)
                    cases += 1
                    if len(failures) > 3:
                        finish()
print('random interleavings: %d cases' % cases)

# ---- hand-written edge cases ------------------------------------------------
conf.supybot.protocols.irc.ping.setValue(False)
conf.supybot.protocols.irc.queuing.duplicates.setValue(False)
conf.supybot.protocols.irc.queuing.rateLimit.join.setValue(0.0)
conf.supybot.protocols.irc.throttleTime.setValue(1.0)

# empty queue
q = irclib.IrcMsgQueue()
check(q.dequeue() is None and not q and len(q) == 0, 'empty IrcMsgQueue')
check(ircmsgs.ping('x') not in q, 'in empty queue')
check(repr(q) == 'IrcMsgQueue([])', 'repr of empty queue: %r' % q)
# constructor from an iterable, priorities, repr order
q = irclib.IrcMsgQueue([ircmsgs.privmsg('#a', '1'), ircmsgs.topic('#a', 't'), ircmsgs.op('#a', 'n')])
check([m.command for m in eval(repr(q).replace('IrcMsgQueue', ''), {'IrcMsg': ircmsgs.IrcMsg})]
      == ['MODE', 'TOPIC', 'PRIVMSG'], 'repr order: %r' % q)
check([q.dequeue().command for _ in range(3)] == ['MODE', 'TOPIC', 'PRIVMSG'], 'priorities')
check(q.dequeue() is None, 'drained')
# exact JOIN boundary: allowed when lastJoin + limit == now
conf.supybot.protocols.irc.queuing.rateLimit.join.setValue(4.0)
q = irclib.IrcMsgQueue()
clock.t = 2000000.0
j1, j2, j3 = ircmsgs.join('#1'), ircmsgs.join('#2'), ircmsgs.join('#3')
for j in (j1, j2, j3):
    check(q.enqueue(j) is True, 'enqueue')
check(q.dequeue() is j1, 'first JOIN')
clock.t += 3.5
check(q.dequeue() is None and list(q.lowpriority) == [j3, j2], 'held JOIN goes to the back')
check(len(q) == 2 and bool(q) and j2 in q, 'held JOIN still counted')
clock.t += 0.5
check(q.dequeue() is j3, 'JOIN allowed exactly at the limit')
check(q.dequeue() is None, 'second held')
q.reset()
check(q.lastJoin == 0 and len(q) == 0 and not q, 'IrcMsgQueue.reset')
# exact throttle boundary: elapsed == throttleTime is still throttled
irc = newIrc(callbacks=[Plain(), Dropper()])
drain(irc)
clock.t = 3000000.0
a, b, c = ircmsgs.topic('#a', '1'), ircmsgs.topic('#a', '2'), ircmsgs.topic('#a', '3')
for m in (a, b, c):
    irc.queueMsg(m)
check(take(irc) == 'TOPIC #a :1', 'first')
check(take(irc, 1.0) is None, 'elapsed == throttleTime must still throttle')
check(take(irc, 0.5) == 'TOPIC #a :2', 'released after the interval')
# a run of dropped sendMsg messages does not stall the one behind
for i in range(300):
    irc.sendMsg(ircmsgs.privmsg('#a', 'DROP %d' % i))
irc.sendMsg(ircmsgs.privmsg('#a', 'survivor'))
check(take(irc) == 'PRIVMSG #a :survivor', 'message behind 300 dropped ones')
# dropped throttled message: next one after one interval
irc.queueMsg(ircmsgs.topic('#a', 'DROP'))      # queue: 3, DROP
check(take(irc, 2.0) == 'TOPIC #a :3', 'third')
check(take(irc, 2.0) is None and len(irc.queue) == 0, 'dropped one consumed')
# zombie refuses, drains, closes once drained
irc.afterConnect = True
irc.queueMsg(ircmsgs.quit('bye'))
irc.sendMsg(ircmsgs.pong('last'))
irc.die()
check(irc.queueMsg(ircmsgs.privmsg('#a', 'late')) is False, 'zombie accepted queueMsg')
check(irc.sendMsg(ircmsgs.privmsg('#a', 'late')) is None and len(irc.fastqueue) == 1, 'zombie accepted sendMsg')
check(take(irc, 2.0) == 'PONG :last' and not irc.driver.dead, 'pong before close')
check(take(irc, 2.0) == 'QUIT :bye' and not irc.driver.dead, 'quit before close')
check(take(irc, 2.0) is None and irc.driver.dead, 'closed after drain')
# smallqueue
sq = structures.smallqueue([1, 2, 3])
alias = sq
check(sq.peek() == 1 and sq.dequeue() == 1 and repr(sq) == 'smallqueue([2, 3])', 'smallqueue basics')
sq.reset()
check(alias is sq and len(alias) == 0 and repr(sq) == 'smallqueue([])', 'smallqueue.reset in place')
try:
    sq.dequeue()
    check(False, 'dequeue on empty smallqueue')
except IndexError:
    pass
finish()
