#!/usr/bin/env python
"""Equivalence demo for the C16 controls (database save / reload).

Run as:  cd /tmp/mut6_C16 && /venv/bin/python _mutants/c<i>/demo.py
Drives ircdb (users, channels, networks, ignores), unpreserve.Reader and
utils.file.AtomicFile through ordinary, edge and error paths, records every
observable result (return values, exceptions, log calls, bytes of every file
written, the sequence of write()/replace/copy/remove calls, object state after
each step) and compares a digest of the record with the one taken on the
unmodified tree.  `--show` prints the digest, `--dump FILE` writes the record.
"""
import os
import sys

if os.environ.get('PYTHONHASHSEED') != '0':
    # Capability sets are written in set iteration order: pin the str hash.
    env = dict(os.environ)
    env['PYTHONHASHSEED'] = '0'
    os.execve(sys.executable, [sys.executable] + sys.argv, env)

EXPECTED = '71c21754fdd7f5c57df61b9ef8813fede0c42dc054a79644597fbe6492c1be38'

import io
import shutil
import hashlib
import tempfile
import traceback

sys.path.insert(0, os.getcwd())

def crashed(type, value, tb):
    traceback.print_exception(type, value, tb)
    print('FAIL: the demo itself crashed (%s)' % type.__name__)
    sys.stdout.flush()
    os._exit(1)
sys.excepthook = crashed

TMP = tempfile.mkdtemp(prefix='c16demo')
for d in ('conf', 'data', 'logs', 'backup', 'tmp', 'work'):
    os.mkdir(os.path.join(TMP, d))
registryFilename = os.path.join(TMP, 'demo.conf')
with open(registryFilename, 'w') as fd:
    fd.write("""
supybot.directories.data: %(base)s/data
supybot.directories.conf: %(base)s/conf
supybot.directories.log: %(base)s/logs
supybot.directories.backup: %(base)s/backup
supybot.directories.data.tmp: %(base)s/tmp
supybot.log.stdout: False
supybot.log.level: CRITICAL
supybot.log.plugins.individualLogfiles: False
supybot.nick: demo
""" % {'base': TMP})

import supybot
import supybot.registry as registry
registry.open_registry(registryFilename)
import supybot.log as log
import supybot.conf as conf
import supybot.utils as utils
import supybot.world as world
import supybot.ircutils as ircutils
import supybot.unpreserve as unpreserve

OBS = []

def norm(x):
    """A printable, run-independent form of any observed value."""
    if isinstance(x, str):
        return x.replace(TMP, '<TMP>')
    if isinstance(x, bytes):
        return x.replace(TMP.encode(), b'<TMP>')
    if isinstance(x, (int, float, bool)) or x is None:
        return x
    if isinstance(x, (list, tuple)):
        return type(x)(norm(y) for y in x)
    if isinstance(x, dict):
        return [(norm(k), norm(v)) for (k, v) in x.items()]
    if isinstance(x, BaseException):
        return excinfo(x)
    return norm(repr(x))

def excinfo(e):
    chain = []
    c = e.__context__
    while c is not None and len(chain) < 5:
        chain.append(c.__class__.__name__)
        c = c.__context__
    return ('EXC', e.__class__.__name__, norm(str(e)), tuple(chain),
            e.__cause__.__class__.__name__)

def obs(tag, *values):
    OBS.append((tag,) + tuple(norm(v) for v in values))

def attempt(tag, f, *args, **kwargs):
    """Calls f and records what it returns or raises."""
    try:
        ret = f(*args, **kwargs)
    except Exception as e:
        obs(tag, 'raised', e)
        return None
    obs(tag, 'returned', ret)
    return ret

def unraisable(info):
    obs('UNRAISABLE', info.exc_type.__name__, str(info.exc_value),
        getattr(info.object, '__qualname__', None))
sys.unraisablehook = unraisable

# --- log calls -------------------------------------------------------------
def makeLogRecorder(level):
    def record(fmt, *args, **kwargs):
        current = sys.exc_info()[1]
        obs('LOG', level, fmt, args, sorted(kwargs.items()),
            current if current is not None else None)
    return record
for level in ('debug', 'info', 'warning', 'error', 'critical', 'exception'):
    setattr(log, level, makeLogRecorder(level))

# --- clock, random tokens, file-system calls --------------------------------
class Clock(object):
    now = 1000000000.75
    def time(self):
        return Clock.now
    def sleep(self, n=0):
        Clock.now += n
    def __getattr__(self, name):
        import time
        return getattr(time, name)
clock = Clock()

tokens = [0]
def fakeMktemp(suffix=''):
    tokens[0] += 1
    return 'tok%04d%s' % (tokens[0], suffix)
utils.file.mktemp = fakeMktemp
utils.file.time = clock

failReplace = [0]
realReplace, realRemove = os.replace, os.remove
realCopy, realCopy2 = shutil.copy, shutil.copy2
def replace(src, dst, *args, **kwargs):
    if failReplace[0]:
        failReplace[0] -= 1
        obs('FS', 'replace-fails', src, dst)
        raise OSError(18, 'Invalid cross-device link')
    obs('FS', 'replace', src, dst)
    return realReplace(src, dst, *args, **kwargs)
def remove(path, *args, **kwargs):
    obs('FS', 'remove', path)
    return realRemove(path, *args, **kwargs)
def copy(src, dst, *args, **kwargs):
    obs('FS', 'copy', src, dst)
    return realCopy(src, dst, *args, **kwargs)
def copy2(src, dst, *args, **kwargs):
    obs('FS', 'copy2', src, dst)
    return realCopy2(src, dst, *args, **kwargs)
os.replace, os.remove = replace, remove
shutil.copy, shutil.copy2 = copy, copy2

import supybot.ircdb as ircdb
ircdb.time = clock
obs('import', 'done')

RealAtomicFile = utils.file.AtomicFile
class SpyAtomicFile(RealAtomicFile):
    """Records the arguments of the constructor and of every write()."""
    def __init__(self, *args, **kwargs):
        obs('AF', 'init', args, sorted(kwargs.items()))
        RealAtomicFile.__init__(self, *args, **kwargs)
    def write(self, data):
        obs('AF', 'write', data)
        return RealAtomicFile.write(self, data)
    def close(self):
        obs('AF', 'close')
        return RealAtomicFile.close(self)

def spying(on):
    utils.file.AtomicFile = SpyAtomicFile if on else RealAtomicFile

def listing(directory=None):
    directory = directory or os.path.join(TMP, 'work')
    out = []
    for (dirpath, dirnames, filenames) in sorted(os.walk(directory)):
        dirnames.sort()
        for name in sorted(filenames):
            path = os.path.join(dirpath, name)
            with open(path, 'rb') as fd:
                out.append((path, fd.read()))
    return out

def snapshotWork(tag):
    obs('FILES', tag, listing())
    obs('FILES-backup', tag, listing(os.path.join(TMP, 'backup')))
    obs('FILES-tmp', tag, listing(os.path.join(TMP, 'tmp')))

def work(name):
    return os.path.join(TMP, 'work', name)

def write(name, text, mode='w', newline=''):
    path = work(name)
    if 'b' in mode:
        with open(path, mode) as fd:
            fd.write(text)
    else:
        with open(path, mode, newline=newline, encoding='utf8') as fd:
            fd.write(text)
    return path

def resetCreators():
    obs('CREATORS', ircdb.IrcUserCreator.u is None
                    or (ircdb.IrcUserCreator.u.id, ircdb.IrcUserCreator.u.name),
        ircdb.IrcChannelCreator.name, ircdb.IrcNetworkCreator.name)
    ircdb.IrcUserCreator.u = None
    ircdb.IrcChannelCreator.name = None
    ircdb.IrcNetworkCreator.name = None

# --- snapshots --------------------------------------------------------------
def userState(u):
    return ('user', u.id, u.name, u.ignore, u.secure, u.hashed, u.password,
            list(u.capabilities), sorted(u.capabilities),
            [str(h) for h in u.hostmasks], list(u.nicks.items()),
            list(u.gpgkeys), list(u.auth))

def usersState(db):
    return ('users', db.filename, db.noFlush, db.nextId,
            [(k, userState(v)) for (k, v) in db.users.items()],
            sorted(db.users), db.numUsers())

def channelState(c):
    return ('channel', c.defaultAllow, c.lobotomized, list(c.capabilities),
            sorted(c.capabilities), list(c.bans.items()),
            list(c.ignores.items()), list(c.expiredBans), list(c.silences),
            list(c.exceptions))

def channelsState(db):
    return ('channels', db.filename, db.noFlush,
            [(k, channelState(v)) for (k, v) in db.channels.items()],
            list(db.channels), [k for (k, v) in db.items()])

def networkState(n):
    return ('network', list(n.stsPolicies.items()),
            list(n.lastDisconnectTimes.items()))

def networksState(db):
    return ('networks', db.filename, db.noFlush,
            [(k, networkState(v)) for (k, v) in db.networks.items()],
            list(db.networks))

def ignoresState(db):
    return ('ignores', db.filename, list(db.hostmasks.items()))

def roundTrip(tag, db, state, fresh):
    """flush; read the bytes; load them into a fresh database; flush that."""
    attempt(tag + ':flush', db.flush)
    snapshotWork(tag + ':flushed')
    obs(tag + ':state', state(db))
    other = fresh()
    attempt(tag + ':open', other.open, db.filename)
    obs(tag + ':reloaded', state(other))
    obs(tag + ':same', state(other) == state(db))
    resetCreators()
    attempt(tag + ':reload', db.reload)
    obs(tag + ':state-after-reload', state(db))
    snapshotWork(tag + ':after-reload')
    resetCreators()


# ===========================================================================
# 1. unpreserve.Reader with a recording creator
# ===========================================================================
class RecCreator(object):
    instances = 0
    attribute = 'not callable'
    none = None
    def __init__(self, *args, **kwargs):
        RecCreator.instances += 1
        self.n = RecCreator.instances
        obs('RC', self.n, 'init', args, sorted(kwargs.items()))
    def badCommand(self, command, rest, lineno):
        obs('RC', self.n, 'badCommand', command, rest, lineno)
    def entry(self, rest, lineno):
        obs('RC', self.n, 'entry', rest, lineno)
    def field(self, rest, lineno):
        obs('RC', self.n, 'field', rest, lineno)
    def boom(self, rest, lineno):
        obs('RC', self.n, 'boom', rest, lineno)
        raise RuntimeError('boom on %s' % lineno)
    def finish(self):
        obs('RC', self.n, 'finish')

class StrictCreator(RecCreator):
    def badCommand(self, command, rest, lineno):
        obs('RC', self.n, 'badCommand!', command, rest, lineno)
        raise ValueError('Invalid command on line %s: %s' % (lineno, command))

class UpperReader(unpreserve.Reader):
    def normalizeCommand(self, s):
        obs('RC', 'normalize', s)
        if s == 'explode':
            raise KeyError(s)
        return s.lower().replace('-', '')

def readerState(r):
    return ('reader', r.Creator.__name__, r.args, sorted(r.kwargs.items()),
            r.creator is None or r.creator.n, r.modifiedCreator, r.indent)

READER_TEXTS = [
    ('plain', 'entry one\n  field a b  c \n  field d\n\nentry two\n  field e\n'),
    ('crlf', 'entry one\r\n  field a\r\n\r\nentry two\r\n  FIELD x\r\n'),
    ('tabs', 'entry one\n\tfield tab\n        field eight\n  \tfield mixed\n'
             'entry\ttabsep rest\n'),
    ('blank-only', '\n   \n\t\n\r\n'),
    ('empty', ''),
    ('no-final-newline', 'entry one\n  field last'),
    ('unknown', 'entry one\n  nosuch x y\n  field after\n'),
    ('noncallable', 'entry one\n  attribute x\n  field after\n'),
    ('none-attr', 'entry one\n  none x\n  field after\n'),
    ('private', 'entry one\n  n x\n'),
    ('one-word', 'entry one\n  field\n  field after\n'),
    ('one-word-first', 'entry\n'),
    ('raising', 'entry one\n  boom now\n  field after\n'),
    ('deeper', 'entry one\n  field a\n    field deeper\n  field back\nentry two\n'),
    ('indented-start', '   entry one\n   field same\n entry two\n'),
    ('trailing-blanks', 'entry one   \n  field  x \t \n'),
    ('unicode', 'entry \xe9中\n  field  nbsp em\n  field \x0bvt\x0c\n'),
    ('case', 'ENTRY One\n  Field MiXed\n  fIeLd x\n'),
    ('dash', 'entry one\n  fi-eld x\n  explode y\n  field after\n'),
]

for Creator in (RecCreator, StrictCreator):
    for ReaderClass in (unpreserve.Reader, UpperReader):
        for (name, text) in READER_TEXTS:
            tag = 'reader:%s:%s:%s' % (Creator.__name__, ReaderClass.__name__,
                                      name)
            r = ReaderClass(Creator, 'arg1', 2, key='value')
            obs(tag, readerState(r))
            attempt(tag + ':read', r.read, io.StringIO(text, newline=''))
            obs(tag, readerState(r))
            # the same reader goes on with a second file
            attempt(tag + ':read2', r.read,
                    io.StringIO('entry again\n  field z\n'))
            obs(tag, readerState(r))
            path = write('reader.txt', text)
            r = ReaderClass(Creator)
            attempt(tag + ':readFile', r.readFile, path)
            obs(tag, readerState(r))
r = unpreserve.Reader(RecCreator)
attempt('reader:missing', r.readFile, work('does-not-exist'))
attempt('reader:directory', r.readFile, work(''))
os.remove(work('reader.txt'))

# ===========================================================================
# 2. utils.file.AtomicFile
# ===========================================================================
AF = utils.file.AtomicFile
obs('af:defaults', [v() if callable(v) else v for v in (
    AF.default.tmpDir, AF.default.backupDir,
    AF.default.makeBackupIfSmaller, AF.default.allowEmptyOverwrite)])

def allFiles():
    return [listing(os.path.join(TMP, d)) for d in ('work', 'backup', 'tmp')]
savedDefaults = (AF.default.tmpDir, AF.default.backupDir,
                 AF.default.makeBackupIfSmaller, AF.default.allowEmptyOverwrite)

def afState(f):
    return ('af', f.filename, f.tempFilename, f.backupDir, f.rolledback,
            f.allowEmptyOverwrite, f.makeBackupIfSmaller, f.closed)

def afScenario(tag, old, new, mode='w', fail=0, **kwargs):
    shutil.rmtree(os.path.join(TMP, 'work'))
    os.mkdir(os.path.join(TMP, 'work'))
    os.mkdir(work('bk'))
    os.mkdir(work('tm'))
    if old is not None:
        write('target.db', old, 'wb')
    try:
        f = AF(work('target.db'), mode, **kwargs)
    except Exception as e:
        obs(tag, 'init raised', e)
        return
    obs(tag, afState(f))
    attempt(tag + ':write', f.write, new)
    attempt(tag + ':writelines', f.writelines, [new, new])
    attempt(tag + ':tell', f.tell)
    attempt(tag + ':flush', f.flush)
    obs(tag, afState(f))
    failReplace[0] = fail
    Clock.now += 1
    attempt(tag + ':close', f.close)
    failReplace[0] = 0
    obs(tag, afState(f))
    obs(tag + ':files', allFiles())
    attempt(tag + ':close-again', f.close)
    attempt(tag + ':rollback-after-close', f.rollback)
    obs(tag, afState(f))
    obs(tag + ':files', allFiles())
    del f

for (dn, defaults) in [
        ('conf-defaults', savedDefaults),
        ('plain-defaults', (None, None, True, True)),
        ('other-defaults', (lambda: work('tm'), work('bk'), False, False))]:
    (AF.default.tmpDir, AF.default.backupDir,
     AF.default.makeBackupIfSmaller, AF.default.allowEmptyOverwrite) = defaults
    for (on, old) in [('new', None), ('bigger', b'x' * 100), ('smaller', b'x'),
                      ('empty', b'')]:
        for (nn, new) in [('text', 'h\xe9llo\n'), ('nothing', '')]:
            tag = 'af:%s:%s:%s' % (dn, on, nn)
            afScenario(tag, old, new)
            afScenario(tag + ':bytes', old, new.encode('utf8'), mode='wb')
            afScenario(tag + ':xdev', old, new, fail=1)
            afScenario(tag + ':xdev2', old, new, fail=2)
            afScenario(tag + ':tmpDir', old, new, tmpDir=work('tm'))
            afScenario(tag + ':tmpDir-xdev', old, new, tmpDir=work('tm'),
                       fail=1)
            afScenario(tag + ':backupDir', old, new, backupDir=work('bk'))
            afScenario(tag + ':devnull', old, new, backupDir='/dev/null')
            afScenario(tag + ':nobackup', old, new, makeBackupIfSmaller=False)
            afScenario(tag + ':backup', old, new, makeBackupIfSmaller=True,
                       backupDir=work('bk'), tmpDir=work('tm'))
            afScenario(tag + ':noempty', old, new, allowEmptyOverwrite=False)
            afScenario(tag + ':emptyok', old, new, allowEmptyOverwrite=True)
            afScenario(tag + ':latin', old, new, encoding='latin1')
(AF.default.tmpDir, AF.default.backupDir,
 AF.default.makeBackupIfSmaller, AF.default.allowEmptyOverwrite) = \
    (None, None, True, True)
afScenario('af:badmode', b'x', 'y', mode='a')
afScenario('af:badmode2', b'x', 'y', mode='r')
afScenario('af:missing-tmpDir', b'x', 'y', tmpDir=work('nowhere'))
afScenario('af:missing-backupDir', b'xxxxxxxxxxxxxx', 'y',
           backupDir=work('nowhere'))
afScenario('af:type-error', b'x', b'y')

# rollback, context manager, deletion
shutil.rmtree(os.path.join(TMP, 'work'))
os.mkdir(os.path.join(TMP, 'work'))
write('target.db', 'original\n')
f = AF(work('target.db'))
f.write('partial')
obs('af:rollback', afState(f), listing())
attempt('af:rollback', f.rollback)
obs('af:rollback', afState(f), listing())
attempt('af:rollback-twice', f.rollback)
attempt('af:close-after-rollback', f.close)
attempt('af:write-after-rollback', f.write, 'x')
obs('af:rollback', afState(f), listing())
del f
with AF(work('target.db')) as f:
    obs('af:with', f.write('inside\n'), afState(f))
obs('af:with', afState(f), listing())
try:
    with AF(work('target.db')) as f:
        f.write('never\n')
        raise KeyError('inside with')
except KeyError as e:
    obs('af:with-raise', e, afState(f), listing())
f = AF(work('target.db'))
f.write('dropped')
f.seek(0)
obs('af:del', f.tell(), listing())
del f
obs('af:del', listing())
(AF.default.tmpDir, AF.default.backupDir,
 AF.default.makeBackupIfSmaller, AF.default.allowEmptyOverwrite) = savedDefaults

obs('file:helpers',
    list(utils.file.nonCommentNonEmptyLines(io.StringIO(
        '# c\n\n  \nline\n #not comment\n\t\nlast'))),
    list(utils.file.nonCommentLines(['#a', 'b', '', ' #c'])),
    list(utils.file.nonEmptyLines(['#a', ' ', '', 'x\n'])))

shutil.rmtree(os.path.join(TMP, 'work'))
os.mkdir(os.path.join(TMP, 'work'))

# ===========================================================================
# 3. users
# ===========================================================================
NAMES = ['plain', 'two words', ' leading', 'trailing ', 'tab\tinside', '\ttab',
         'ctl\x01\x02\x1f', 'vt\x0bff\x0cfs\x1cgs\x1d', 'nbsp\xa0end\xa0',
         ' em', 'line sep', 'nel\x85x', 'caf\xe9', '中文',
         '#hash', '# hash', 'MiXeD', 'user 7', 'name x', 'capability owner',
         '  ', 'x' * 300, "quote'\"\\"]

def buildUsers(db):
    made = []
    for (i, name) in enumerate(NAMES):
        u = attempt('users:newUser', db.newUser)
        u.name = name
        if i % 3 == 0:
            u.password = 'salt%d|%040x' % (i, i * 7919)
            u.hashed = True
        elif i % 3 == 1:
            u.hashed = False
            u.setPassword('clear text %d ' % i)
        u.ignore = (i % 4 == 1)
        u.secure = (i % 5 == 2)
        for cap in ['Owner', 'admin', '-Trusted', '#Chan,op', '#CHAN[x],-Voice',
                    'plugin.Command', 'caf\xe9', '-x'][:i % 9]:
            attempt('users:addCapability', u.addCapability, cap)
        attempt('users:addHostmask', u.addHostmask,
                'nick%d!user@host%d.example.org' % (i, i))
        if i % 2:
            attempt('users:addHostmask', u.addHostmask,
                    'N[%d]*!*@*.Example{%d}.net' % (i, i))
        if i % 6 == 3:
            u.nicks = {'net': ['nick%d' % i, 'Other%d' % i], 'Net Two': ['a'],
                       'empty': []}
        if i % 6 == 4:
            u.gpgkeys = ['0xDEADBEEF%d' % i, 'key two']
        attempt('users:setUser', db.setUser, u)
        made.append(u)
    return made

def freshUsers():
    return ircdb.UsersDictionary()

users = freshUsers()
obs('users:empty', usersState(users))
attempt('users:flush-nofilename', users.flush)
attempt('users:reload-nofilename', users.reload)
attempt('users:open-missing', users.open, work('users.conf'))
obs('users:after-open-missing', usersState(users))
snapshotWork('users:open-missing')
resetCreators()
spying(True)
made = buildUsers(users)
spying(False)
roundTrip('users:built', users, usersState, freshUsers)

# invalid and conflicting modifications
u = users.getUser(1)
u.name = 'line\nbreak'
attempt('users:newline', users.setUser, u)
u.name = 'cr\rbreak'
attempt('users:cr', users.setUser, u)
u.name = 'TWO WORDS'
attempt('users:name-taken', users.setUser, u)
u.name = 'plain'
attempt('users:name-back', users.setUser, u)
u2 = users.getUser(2)
attempt('users:hostmask-taken', u2.addHostmask, 'nick0!user@host0.example.org')
attempt('users:hostmask-taken', users.setUser, u2)
attempt('users:removeHostmask', u2.removeHostmask,
        'nick0!user@host0.example.org')
attempt('users:hostmask-intersect', u2.addHostmask, 'nick0!*@*')
attempt('users:hostmask-intersect', users.setUser, u2)
attempt('users:removeHostmask', u2.removeHostmask, 'nick0!*@*')
attempt('users:short-hostmask', u2.addHostmask, '*!*@*')
attempt('users:bad-hostmask', u2.addHostmask, 'nohostmask')
attempt('users:setUser-noflush', users.setUser, u2, flush=False)
for key in ['plain', 'PLAIN', 'Two Words', 'nobody', 'nick3!user@host3.example.org',
            'n[5]x!y@z.example{5}.net', 'N{5}x!y@z.EXAMPLE[5].NET',
            'stranger!x@y', 3, 999, 'caf\xc9', '中文']:
    attempt('users:getUserId', users.getUserId, key) \
        if not isinstance(key, int) else None
    attempt('users:hasUser', users.hasUser, key)
    g = attempt('users:getUser', users.getUser, key)
    if g is not None:
        obs('users:getUser', userState(g))
    # twice: the second answer comes from the caches
    attempt('users:getUserId-again', users.getUserId, key) \
        if not isinstance(key, int) else None
attempt('users:getUserFromNick', users.getUserFromNick, 'net', 'nick3')
attempt('users:getUserFromNick', users.getUserFromNick, 'net', 'NICK3')
attempt('users:getUserFromNick', users.getUserFromNick, 'other', 'nick3')
u4 = users.getUser(4)
attempt('users:addNick', u4.addNick, 'net', 'fresh')
attempt('users:addNick-taken', u4.addNick, 'net', 'nick3')
attempt('users:addNick-bad', u4.addNick, 'net', 'bad nick')
attempt('users:removeNick', u4.removeNick, 'net', 'fresh')
attempt('users:removeNick-missing', u4.removeNick, 'net', 'fresh')
attempt('users:removeNick-nonet', u4.removeNick, 'nonet', 'fresh')
attempt('users:checkNick', u4.checkNick, 'net', 'nick3')
attempt('users:setUser', users.setUser, u4)
# two users matching the same hostmask behind setUser's back
users.users[5].hostmasks.add('dup!*@*')
users.users[6].hostmasks.add('dup!*@*')
attempt('users:multiple', users.getUserId, 'dup!x@y')
obs('users:after-multiple', usersState(users))
# authentication and its time-out
u7 = users.getUser(7)
attempt('users:addAuth', u7.addAuth, 'roaming!x@y')
attempt('users:addAuth', u7.addAuth, 'roaming!x@y')
attempt('users:getUserId-auth', users.getUserId, 'roaming!x@y')
attempt('users:checkHostmask', u7.checkHostmask, 'roaming!x@y')
conf.supybot.databases.users.timeoutIdentification.setValue(10)
Clock.now += 100
attempt('users:checkHostmask-late', u7.checkHostmask, 'roaming!x@y')
attempt('users:getUserId-late', users.getUserId, 'roaming!x@y')
conf.supybot.databases.users.timeoutIdentification.setValue(0)
u2.secure = True
attempt('users:addAuth-secure', u2.addAuth, 'elsewhere!x@y')
attempt('users:clearAuth', u7.clearAuth)
for id in (3, 8, 8, 20):
    attempt('users:delUser', users.delUser, id)
n = attempt('users:newUser-after-del', users.newUser)
obs('users:new', userState(n))
roundTrip('users:modified', users, usersState, freshUsers)
attempt('users:noFlush', setattr, users, 'noFlush', True)
attempt('users:flush-noFlush', users.flush)
users.noFlush = False

USER_FILES = [
    ('ok', 'user 1\n  name one\n  ignore False\n  secure True\n  hashed True\n'
           '  password a|b\n  capability owner\n  hostmask a!b@c\n'
           '  nicks net n1 n2\n  gpgkey K\n\nuser 2\n  name two\n\n'),
    ('crlf', 'user 1\r\n  name one \r\n  ignore True\r\n\r\nuser 5\r\n'
             '  name five\r\n'),
    ('tabs', 'user 1\n\tname tabbed\tname\n\thostmask t!a@b\nuser 2\n'
             '        name eight\n'),
    ('flags', 'user 1\n  name f\n  ignore 1\n  secure 0\n  hashed "yes"\n'
              'user 2\n  name g\n  ignore None\n  secure []\n  hashed 2.5\n'),
    ('bad-flag', 'user 1\n  name f\n  ignore maybe\n\nuser 2\n  name g\n'),
    ('bad-flag2', 'user 1\n  name f\n  secure __import__("os")\n'),
    ('unknown-command', 'user 1\n  name one\n  colour blue\n\nuser 2\n'
                        '  name two\n'),
    ('u-command', 'user 1\n  name one\n  u x\nuser 2\n  name two\n'),
    ('users-command', 'user 1\n  name one\n  users x\n'),
    ('finish-command', 'user 1\n  name one\n  finish x\n'),
    ('checkid-command', 'user 1\n  name one\n  _checkId x\n'),
    ('user-twice', 'user 1\n  name one\n  user 2\n  name two\n'),
    ('no-user', '  name orphan\n  ignore False\n'),
    ('no-user2', 'name orphan\n'),
    ('bad-id', 'user one\n  name one\n'),
    ('one-word', 'user 1\n  name\n'),
    ('no-name', 'user 1\n  ignore True\n\nuser 2\n  name two\n'),
    ('nicks-short', 'user 1\n  name one\n  nicks net\n'),
    ('nicks-empty', 'user 1\n  name one\n  nicks net \n  nicks n2  a  b\n'),
    ('collide', 'user 1\n  name one\n  hostmask a!b@c\n\nuser 2\n  name two\n'
                '  hostmask a!*@*\n  hostmask z!z@z\n\nuser 3\n  name three\n'),
    ('same-name', 'user 1\n  name one\n\nuser 2\n  name ONE\n\nuser 3\n'
                  '  name three\n'),
    ('same-id', 'user 1\n  name one\n\nuser 1\n  name uno\n'),
    ('caps', 'user 1\n  name one\n  capability Owner\n  capability -owner\n'
             '  capability #C,Op\n  capability -#c,op\n  capability two words\n'),
    ('antiowner', 'user 1\n  name one\n  capability -owner\n'),
    ('unsorted', 'user 9\n  name nine\n\nuser 2\n  name two\n\nuser 30\n'
                 '  name thirty\n'),
    ('names', 'user 1\n  name  lead\n\nuser 2\n  name trail \n\nuser 3\n'
              '  name a\tb\n\nuser 4\n  name #x\n\nuser 5\n  name \xe9中\n'),
    ('comment', '# comment\nuser 1\n  name one\n'),
    ('empty', ''),
    ('blank', '\n\n  \n'),
    ('no-newline', 'user 1\n  name one'),
    ('negative', 'user -4\n  name minus\n\nuser 0\n  name zero\n'),
    ('deeper', 'user 1\n  name one\n    ignore True\n  secure True\n'),
]
for (name, text) in USER_FILES:
    tag = 'users:file:' + name
    db = freshUsers()
    path = write('u.conf', text)
    attempt(tag + ':open', db.open, path)
    obs(tag, usersState(db))
    snapshotWork(tag)
    resetCreators()
    attempt(tag + ':reload', db.reload)
    obs(tag, usersState(db))
    snapshotWork(tag)
    resetCreators()
    # a failed load leaves state behind for the next one in the same process
    attempt(tag + ':open-twice', db.open, path)
    attempt(tag + ':open-thrice', db.open, path)
    obs(tag, usersState(db))
    resetCreators()
write('u.conf', b'user 1\n  name \xff\xfe\n', 'wb')
db = freshUsers()
attempt('users:file:undecodable', db.open, work('u.conf'))
obs('users:file:undecodable', usersState(db))
resetCreators()
os.remove(work('u.conf'))
db.filename = work('gone/u.conf')
attempt('users:reload-missing-dir', db.reload)
attempt('users:flush-missing-dir', db.flush)
world.flushers.append(users.flush)
obs('users:flushers', users.flush in world.flushers)
attempt('users:close', users.close)
obs('users:closed', usersState(users), users.flush in world.flushers)
attempt('users:close-again', users.close)
snapshotWork('users:closed')
shutil.rmtree(os.path.join(TMP, 'work'))
os.mkdir(os.path.join(TMP, 'work'))

# ===========================================================================
# 4. channels
# ===========================================================================
def freshChannels():
    return ircdb.ChannelsDictionary()

channels = freshChannels()
attempt('channels:flush-nofilename', channels.flush)
attempt('channels:reload-nofilename', channels.reload)
attempt('channels:open-missing', channels.open, work('channels.conf'))
obs('channels:after-open-missing', channelsState(channels))
resetCreators()
spying(True)
CHANNELS = ['#plain', '#MiXeD', '#mixed', '#br[ack]et', '#BR{ACK}ET', '#til~de',
            '#TIL^DE', '&local', '#caf\xe9', '#CAF\xc9', '#中', '##', '#a,b',
            '#with#hash', '+modeless', '!12345safe']
for (i, name) in enumerate(CHANNELS):
    c = attempt('channels:getChannel', channels.getChannel, name)
    obs('channels:got', channelState(c))
    for cap in ['Op', '-HalfOp', 'plugin.Cmd', '-Plugin.CMD', 'caf\xe9',
                'x[y]', 'X{Y}', '-x[y]'][:i % 9]:
        attempt('channels:addCapability', c.addCapability, cap)
    if i % 3 == 0:
        attempt('channels:setDefault', c.setDefaultCapability, False)
    c.lobotomized = (i % 4 == 1)
    for (j, (mask, exp)) in enumerate([
            ('a!b@c', 0), ('A!B@C', Clock.now + 50), ('*!*@host[%d]' % i, 5),
            ('n!u@h%d' % i, Clock.now + 10.9), ('late!*@*', 2 ** 40),
            ('n{}!u@h', 0)][:i % 7]):
        attempt('channels:addBan', c.addBan, mask, exp)
        if j % 2:
            attempt('channels:addIgnore', c.addIgnore, 'ig' + mask, exp)
    if i % 5 == 0:
        attempt('channels:setChannel', channels.setChannel, name.upper(), c)
    else:
        attempt('channels:setChannel', channels.setChannel, name, c)
spying(False)
roundTrip('channels:built', channels, channelsState, freshChannels)
c = channels.getChannel('#MIXED')
attempt('channels:addBan-bad', c.addBan, 'not a hostmask')
conf.supybot.protocols.irc.strictRfc.setValue(True)
attempt('channels:addBan-bad-strict', c.addBan, 'not a hostmask')
attempt('channels:removeBan-bad-strict', c.removeBan, 'not a hostmask')
conf.supybot.protocols.irc.strictRfc.setValue(False)
attempt('channels:addBan-str', c.addBan, 'q!q@q', '17')
attempt('channels:addBan-none', c.addBan, 'q!q@q', None)
attempt('channels:removeBan', c.removeBan, 'q!q@q')
attempt('channels:removeBan-missing', c.removeBan, 'q!q@q')
attempt('channels:addIgnore-bad', c.addIgnore, 'nohostmask')
attempt('channels:removeIgnore-missing', c.removeIgnore, 'q!q@q')
attempt('channels:removeCapability-missing', c.removeCapability, 'never')
attempt('channels:addCapability-bad', c.addCapability, 'two words')
for name in CHANNELS:
    c = channels.getChannel(name)
    for mask in ['a!b@c', 'n!u@h1', 'late!x@y', 'iga!b@c', 'nobody!x@y']:
        attempt('channels:checkBan', c.checkBan, mask)
        attempt('channels:checkIgnored', c.checkIgnored, mask)
    for cap in ['op', 'voice', 'plugin.cmd', '-plugin.cmd', 'other', '-other']:
        attempt('channels:_checkCapability', c._checkCapability, cap)
Clock.now += 60
for name in CHANNELS:
    c = channels.getChannel(name)
    attempt('channels:checkBan-later', c.checkBan, 'nobody!x@y')
    attempt('channels:checkIgnored-later', c.checkIgnored, 'nobody!x@y')
    obs('channels:later', channelState(c))
roundTrip('channels:expired', channels, channelsState, freshChannels)
c = ircdb.IrcChannel()
c.bans['odd!a@b'] = 12.75
c.ignores['odd!a@b'] = True
attempt('channels:setChannel-odd', channels.setChannel, '#odd', c)
c = ircdb.IrcChannel()
c.bans['none!a@b'] = None
attempt('channels:setChannel-none', channels.setChannel, '#none', c)
snapshotWork('channels:none')
del channels.channels['#none']
c = ircdb.IrcChannel()
c.bans['one!a@b'] = 3
c.bans['two!a@b'] = 'three'
attempt('channels:setChannel-mixed', channels.setChannel, '#zmixed', c)
snapshotWork('channels:mixed')
del channels.channels['#zmixed']
roundTrip('channels:odd', channels, channelsState, freshChannels)
channels.noFlush = True
attempt('channels:flush-noFlush', channels.flush)
channels.noFlush = False

CHANNEL_FILES = [
    ('ok', 'channel #one\n  lobotomized False\n  defaultAllow True\n'
           '  capability -op\n  ban a!b@c 0\n  ignore d!e@f 12\n\n'
           'channel #two\n  lobotomized True\n  defaultAllow False\n\n'),
    ('crlf', 'channel #one\r\n  lobotomized True\r\n  ban a!b@c 5\r\n\r\n'
             'channel #two\r\n  defaultAllow False\r\n'),
    ('tabs', 'channel #one\n\tlobotomized True\n\tban\ta!b@c\t7\n'),
    ('case', 'channel #ONE\n  lobotomized True\n\nchannel #one\n'
             '  defaultAllow False\n\nchannel #O[]\n  lobotomized True\n\n'
             'channel #o{}\n  capability x\n'),
    ('floats', 'channel #one\n  ban a!b@c 12.9\n  ignore a!b@c 1e3\n'
               '  ban n!b@c -3\n'),
    ('bad-expiry', 'channel #one\n  ban a!b@c never\n\nchannel #two\n'
                   '  lobotomized True\n'),
    ('ban-arity1', 'channel #one\n  ban a!b@c\n'),
    ('ban-arity3', 'channel #one\n  ban a!b@c 1 2\n'),
    ('ignore-arity', 'channel #one\n  ignore a!b@c 1 2\n'),
    ('ignore-bad', 'channel #one\n  ignore a!b@c x\n'),
    ('bad-flag', 'channel #one\n  lobotomized perhaps\n'),
    ('bad-default', 'channel #one\n  defaultAllow perhaps\n'),
    ('unknown', 'channel #one\n  colour blue\n\nchannel #two\n'
                '  lobotomized True\n'),
    ('c-command', 'channel #one\n  c x\n'),
    ('name-command', 'channel #one\n  name x\n'),
    ('channel-twice', 'channel #one\n  channel #two\n'),
    ('no-channel', '  lobotomized True\n'),
    ('no-channel2', 'lobotomized True\n'),
    ('only-header', 'channel #lonely\n'),
    ('header-then-header', 'channel #one\nchannel #two\n  lobotomized True\n'),
    ('no-body-last', 'channel #one\n  lobotomized True\nchannel #two\n'),
    ('one-word', 'channel\n'),
    ('caps', 'channel #one\n  capability Op\n  capability -OP\n'
             '  capability two words\n  capability -voice\n  capability voice\n'),
    ('empty', ''),
    ('no-newline', 'channel #one\n  lobotomized True'),
    ('unicode', 'channel #caf\xe9\n  lobotomized True\n\nchannel #CAF\xc9\n'
                '  defaultAllow False\n'),
    ('spaces', 'channel #one two\n  lobotomized True\n\nchannel  #lead\n'
               '  lobotomized True\n\nchannel #trail \n  lobotomized True\n'),
    ('deeper', 'channel #one\n  lobotomized True\n    defaultAllow False\n'),
]
for (name, text) in CHANNEL_FILES:
    tag = 'channels:file:' + name
    db = freshChannels()
    path = write('c.conf', text)
    attempt(tag + ':open', db.open, path)
    obs(tag, channelsState(db))
    snapshotWork(tag)
    resetCreators()
    attempt(tag + ':reload', db.reload)
    obs(tag, channelsState(db))
    snapshotWork(tag)
    resetCreators()
    attempt(tag + ':open-twice', db.open, path)
    attempt(tag + ':open-thrice', db.open, path)
    obs(tag, channelsState(db))
    resetCreators()
os.remove(work('c.conf'))
db.filename = work('gone/c.conf')
attempt('channels:reload-missing-dir', db.reload)
attempt('channels:flush-missing-dir', db.flush)
world.flushers.append(channels.flush)
attempt('channels:close', channels.close)
obs('channels:closed', channelsState(channels),
    channels.flush in world.flushers)
attempt('channels:close-again', channels.close)
snapshotWork('channels:closed')
shutil.rmtree(os.path.join(TMP, 'work'))
os.mkdir(os.path.join(TMP, 'work'))

# ===========================================================================
# 5. networks
# ===========================================================================
def freshNetworks():
    return ircdb.NetworksDictionary()

networks = freshNetworks()
attempt('networks:flush-nofilename', networks.flush)
attempt('networks:reload-nofilename', networks.reload)
attempt('networks:open-missing', networks.open, work('networks.conf'))
resetCreators()
spying(True)
for (i, name) in enumerate(['libera', 'LiBeRa', 'OFTC', 'net[1]', 'NET{1}',
                            'caf\xe9', 'two words', '#net']):
    n = attempt('networks:getNetwork', networks.getNetwork, name)
    for j in range(i % 4):
        attempt('networks:addStsPolicy', n.addStsPolicy,
                'irc%d.Example.org' % j, 'duration=%d,port=6697' % (i * j))
    attempt('networks:addStsPolicy-bad', n.addStsPolicy, 'x', 5)
    if i % 2:
        Clock.now += 1
        attempt('networks:addDisconnection', n.addDisconnection,
                'irc%d.example.org' % i)
    if i % 3 == 0:
        attempt('networks:expire', n.expireStsPolicy, 'irc0.Example.org')
        attempt('networks:expire-missing', n.expireStsPolicy, 'nowhere')
    attempt('networks:setNetwork', networks.setNetwork, name.upper(), n)
spying(False)
roundTrip('networks:built', networks, networksState, freshNetworks)
n = networks.getNetwork('oftc')
n.stsPolicies['spaced'] = 'duration=1, port=2'
attempt('networks:flush-spaced', networks.flush)
roundTrip('networks:spaced', networks, networksState, freshNetworks)
networks.noFlush = True
attempt('networks:flush-noFlush', networks.flush)
networks.noFlush = False

NETWORK_FILES = [
    ('ok', 'network one\n  stsPolicy irc.a duration=5,port=6697\n'
           '  lastDisconnectTime irc.a 12345\n\nnetwork two\n\n'),
    ('crlf', 'network one\r\n  stsPolicy irc.a d=1\r\n\r\nnetwork two\r\n'
             '  lastDisconnectTime irc.b 7\r\n'),
    ('tabs', 'network one\n\tstsPolicy\tirc.a\td=1\n'),
    ('case', 'network ONE\n  stsPolicy irc.a d=1\n\nnetwork one\n'
             '  stsPolicy irc.b d=2\n'),
    ('sts-arity1', 'network one\n  stsPolicy irc.a\n'),
    ('sts-arity3', 'network one\n  stsPolicy irc.a d=1 port=2\n\nnetwork two\n'
                   '  stsPolicy irc.b d=2\n'),
    ('time-float', 'network one\n  lastDisconnectTime irc.a 12.5\n'),
    ('time-arity', 'network one\n  lastDisconnectTime irc.a\n'),
    ('unknown', 'network one\n  colour blue\n'),
    ('net-command', 'network one\n  net x\n'),
    ('name-command', 'network one\n  name x\n'),
    ('network-twice', 'network one\n  network two\n  stsPolicy irc.a d=1\n'),
    ('no-network', '  stsPolicy irc.a d=1\n'),
    ('only-header', 'network lonely\n'),
    ('headers', 'network one\nnetwork two\n  stsPolicy irc.a d=1\n'),
    ('one-word', 'network\n'),
    ('empty', ''),
    ('no-newline', 'network one\n  stsPolicy irc.a d=1'),
    ('spaces', 'network one two\n  stsPolicy irc.a d=1\n'),
]
for (name, text) in NETWORK_FILES:
    tag = 'networks:file:' + name
    db = freshNetworks()
    path = write('n.conf', text)
    attempt(tag + ':open', db.open, path)
    obs(tag, networksState(db))
    snapshotWork(tag)
    resetCreators()
    attempt(tag + ':reload', db.reload)
    obs(tag, networksState(db))
    snapshotWork(tag)
    resetCreators()
    attempt(tag + ':open-twice', db.open, path)
    obs(tag, networksState(db))
    resetCreators()
os.remove(work('n.conf'))
db.filename = work('gone/n.conf')
attempt('networks:reload-missing-dir', db.reload)
attempt('networks:flush-missing-dir', db.flush)
world.flushers.append(networks.flush)
attempt('networks:close', networks.close)
obs('networks:closed', networksState(networks),
    networks.flush in world.flushers)
attempt('networks:close-again', networks.close)
snapshotWork('networks:closed')
shutil.rmtree(os.path.join(TMP, 'work'))
os.mkdir(os.path.join(TMP, 'work'))

# ===========================================================================
# 6. ignores
# ===========================================================================
def freshIgnores():
    return ircdb.IgnoresDB()

ignores = freshIgnores()
attempt('ignores:flush-nofilename', ignores.flush)
attempt('ignores:reload-nofilename', ignores.reload)
attempt('ignores:open-missing', ignores.open, work('ignores.conf'))
obs('ignores:after-open-missing', ignoresState(ignores))
attempt('ignores:reload-missing', ignores.reload)
spying(True)
for (mask, exp) in [('a!b@c', 0), ('A!B@C', Clock.now + 100), ('*!*@spam[1]', 5),
                    ('float!b@c', Clock.now + 10.5), ('n{x}!*@*', 2 ** 40),
                    ('caf\xe9!b@c', 0), ('str!b@c', '17'), ('none!b@c', None)]:
    attempt('ignores:add', ignores.add, mask, exp)
attempt('ignores:add-default', ignores.add, 'default!b@c')
attempt('ignores:add-bad', ignores.add, 'nohostmask')
attempt('ignores:add-bad2', ignores.add, 'two words!b@c')
attempt('ignores:flush', ignores.flush)
spying(False)
snapshotWork('ignores:flushed-with-odd')
attempt('ignores:remove', ignores.remove, 'str!b@c')
attempt('ignores:remove', ignores.remove, 'none!b@c')
attempt('ignores:remove-missing', ignores.remove, 'none!b@c')
roundTrip('ignores:built', ignores, ignoresState, freshIgnores)
for mask in ['a!b@c', 'x!y@spam[1]', 'x!y@spam{1}', 'float!b@c', 'zzz!y@z']:
    attempt('ignores:checkIgnored', ignores.checkIgnored, mask)
Clock.now += 50
attempt('ignores:checkIgnored-later', ignores.checkIgnored, 'zzz!y@z')
obs('ignores:later', ignoresState(ignores))
roundTrip('ignores:later', ignores, ignoresState, freshIgnores)

IGNORE_FILES = [
    ('ok', 'a!b@c 0\nd!e@f 99999999999\n'),
    ('crlf', 'a!b@c 0\r\nd!e@f 99999999999.5\r\n\r\n'),
    ('comments', '# comment\n\n   \na!b@c\n #not!a@comment 0\n\t\nlast!b@c 0'),
    ('floats', 'a!b@c 1e12\nb!b@c 99999999999.99\nc!b@c -1\nd!b@c 0.0\n'),
    ('bad', 'nohostmask 0\na!b@c never\nb!b@c 0 extra words\n\tc!b@c\t0\n'
            'good!b@c 0\n'),
    ('expired', 'a!b@c 5\nb!b@c 0\n'),
    ('dups', 'a!b@c 0\nA!B@C 99999999999\na!b@c 99999999998\n'),
    ('empty', ''),
    ('unicode', 'caf\xe9!b@c 0\n中!b@c 0\n\xa0!b@c 0\n'),
]
for (name, text) in IGNORE_FILES:
    tag = 'ignores:file:' + name
    db = freshIgnores()
    db.add('kept!b@c', 0)
    path = write('i.conf', text)
    attempt(tag + ':open', db.open, path)
    obs(tag, ignoresState(db))
    attempt(tag + ':flush', db.flush)
    snapshotWork(tag)
    attempt(tag + ':reload', db.reload)
    obs(tag, ignoresState(db))
    os.remove(path)
    attempt(tag + ':reload-missing', db.reload)
    obs(tag, ignoresState(db))
write('i.conf', b'a!b@c 0\n\xff\xfe!b@c 0\n', 'wb')
db = freshIgnores()
db.add('kept!b@c', 0)
db.filename = work('i.conf')
attempt('ignores:file:undecodable', db.reload)
obs('ignores:file:undecodable', ignoresState(db))
os.remove(work('i.conf'))
world.flushers.append(ignores.flush)
attempt('ignores:close', ignores.close)
obs('ignores:closed', ignoresState(ignores), ignores.flush in world.flushers)
attempt('ignores:close-again', ignores.close)
snapshotWork('ignores:closed')

# ===========================================================================
# 7. the module-level databases and credential checks
# ===========================================================================
obs('module', ircdb.users.filename, ircdb.channels.filename,
    ircdb.networks.filename, ircdb.ignores.filename,
    [f in world.flushers for f in (ircdb.users.flush, ircdb.channels.flush,
                                   ircdb.networks.flush, ircdb.ignores.flush)])
u = ircdb.users.newUser()
u.name = 'Boss'
u.addCapability('owner')
u.addHostmask('boss!b@c')
ircdb.users.setUser(u)
v = ircdb.users.newUser()
v.name = 'pest'
v.ignore = True
v.addHostmask('pest!b@c')
v.addCapability('#chan,op')
ircdb.users.setUser(v)
ircdb.ignores.add('spam!*@*')
ircdb.channels.getChannel('#chan').addIgnore('chanspam!*@*')
ircdb.channels.getChannel('#chan').addCapability('-fun')
for flag in (False, True):
    conf.supybot.defaultIgnore.setValue(flag)
    for (mask, recipient) in [('boss!b@c', ''), ('pest!b@c', '#chan'),
                              ('spam!x@y', ''), ('chanspam!x@y', '#CHAN'),
                              ('chanspam!x@y', '#other'), ('nobody!x@y', ''),
                              ('irc.server.net', ''), ('barenick', '#chan')]:
        attempt('module:checkIgnored', ircdb.checkIgnored, mask, recipient)
    for mask in ['boss!b@c', 'pest!b@c', 'nobody!x@y', 'irc.server.net', 2, 99]:
        for cap in ['owner', '-owner', 'admin', '#chan,op', '#chan,-op',
                    '#chan,fun', '#chan,-fun', '#chan,other', 'other', '-other']:
            for kwargs in [{}, {'ignoreOwner': True}, {'ignoreChannelOp': True},
                           {'ignoreDefaultAllow': True}]:
                attempt('module:checkCapability', ircdb.checkCapability, mask,
                        cap, **kwargs)
    attempt('module:checkCapabilities', ircdb.checkCapabilities, 'pest!b@c',
            ['admin', '#chan,op'])
    attempt('module:checkCapabilities', ircdb.checkCapabilities, 'pest!b@c',
            ['admin', '#chan,op'], requireAll=True)
conf.supybot.defaultIgnore.setValue(False)
for db in (ircdb.users, ircdb.channels, ircdb.networks, ircdb.ignores):
    attempt('module:flush', db.flush)
obs('module:files', listing(os.path.join(TMP, 'conf')))
for db in (ircdb.users, ircdb.channels, ircdb.networks, ircdb.ignores):
    attempt('module:reload', db.reload)
obs('module:state', usersState(ircdb.users), channelsState(ircdb.channels),
    networksState(ircdb.networks), ignoresState(ircdb.ignores))
resetCreators()

# ===========================================================================
record = '\n'.join(repr(o) for o in OBS)
digest = hashlib.sha256(record.encode('utf8', 'backslashreplace')).hexdigest()
code = 0
if '--dump' in sys.argv:
    with open(sys.argv[sys.argv.index('--dump') + 1], 'w',
              encoding='utf8', errors='backslashreplace') as fd:
        fd.write(record + '\n')
if '--show' in sys.argv:
    print(len(OBS), 'observations', digest)
elif digest == EXPECTED:
    print('PASS (%d observations, digest %s)' % (len(OBS), digest[:16]))
else:
    print('FAIL: digest %s, expected %s (%d observations)'
          % (digest, EXPECTED, len(OBS)))
    code = 1
os.replace, os.remove = realReplace, realRemove
shutil.rmtree(TMP, ignore_errors=True)
sys.stdout.flush()
os._exit(code)
