#!/usr/bin/env python
"""Equivalence demo for the C11 controls (socket driver byte stream).

Drives the real SocketDriver / drivers module / decode_raw_line over scripted
fake sockets, records every observable (bytes handed to send(), messages fed
to the Irc object, return values, exceptions, log records with their
unformatted arguments, public and private driver state after each step) and
compares a digest of the whole trace with the one recorded on the unmodified
tree.  Prints PASS and exits 0 when they are equal.
"""
import os
import sys
import time as _realtime

if os.environ.get('PYTHONHASHSEED') != '0':
    # drivers.run() iterates over a set of driver names: fix the string hash
    # so that the order is the same in every run.
    os.environ['PYTHONHASHSEED'] = '0'
    os.execv(sys.executable, [sys.executable] + sys.argv)

os.environ['TZ'] = 'UTC'
_realtime.tzset()
sys.path.insert(0, os.getcwd())

EXPECTED = '86d2d74774544ddbfec076ed9fdde9728a007cb06fc9701f5c93da85efe767bf'

import re
import errno
import random
import shutil
import hashlib
import logging
import tempfile
import socket
import select as _realselect
import threading


def main():
    base = tempfile.mkdtemp(prefix='c11demo')
    try:
        return _main(base)
    finally:
        shutil.rmtree(base, ignore_errors=True)


def _main(base):
    for d in ('data', 'conf', 'logs'):
        os.mkdir(os.path.join(base, d))
    regfile = os.path.join(base, 'conf', 'test.conf')
    with open(regfile, 'w') as fd:
        fd.write("""
supybot.directories.data: %(b)s/data
supybot.directories.conf: %(b)s/conf
supybot.directories.log: %(b)s/logs
supybot.log.stdout: False
supybot.log.level: DEBUG
supybot.log.plugins.individualLogfiles: False
supybot.protocols.irc.throttleTime: 0
supybot.networks.test.servers: irc.example.org:6667
supybot.networks.test.ssl: False
supybot.networks.other.servers: irc.other.example:6667
supybot.networks.other.ssl: False
supybot.nick: test
""" % {'b': base})
    import supybot.registry as registry
    registry.open_registry(regfile)
    import supybot.log as supylog
    import supybot.conf as conf
    conf.supybot.flush.setValue(False)
    import supybot.utils as utils
    import supybot.world as world
    import supybot.ircdb as ircdb
    import supybot.ircmsgs as ircmsgs
    import supybot.drivers as drivers
    import supybot.drivers.Socket as S
    import supybot.utils.str as ustr
    assert os.path.realpath(S.__file__).startswith(
        os.path.realpath(os.getcwd())), S.__file__
    conf.registerNetwork('test')
    conf.registerNetwork('other')

    # ------------------------------------------------------------------
    # trace
    T = []
    sections = []

    addr_re = re.compile(r' at 0x[0-9a-fA-F]+')

    def ev(*items):
        T.append(addr_re.sub(' at 0x?', repr(items)).replace(base, '<base>'))

    def section(name):
        sections.append((name, len(T)))
        ev('=== section', name)

    # log capture: unformatted records
    class Capture(logging.Handler):
        def emit(self, record):
            if isinstance(record.msg, str) and (
                    record.msg.startswith('Exception id: ') or
                    record.msg.startswith('Limnoria version: ')):
                # supybot.log.exception's dump of frames, line numbers and
                # local variables: internal by nature, only its presence is
                # recorded
                ev('log', record.levelname, record.msg.split(':')[0])
                return
            args = record.args
            if isinstance(args, tuple):
                args = tuple(show(a) for a in args)
            else:
                args = show(args)
            ev('log', record.levelname, record.msg, args,
               bool(record.exc_info))

    def show(a):
        if isinstance(a, BaseException):
            return (type(a).__name__, tuple(repr(x) for x in a.args))
        return repr(a)

    logger = supylog._logger
    for h in list(logger.handlers):
        logger.removeHandler(h)
    logger.addHandler(Capture())
    logger.setLevel(logging.DEBUG)
    logging.disable(logging.NOTSET)

    # clock and select shims
    class Clock(object):
        now = 1000000.0

    class TimeShim(object):
        def time(self):
            return Clock.now

        def sleep(self, n):
            ev('sleep', n)

        def __getattr__(self, name):
            return getattr(_realtime, name)

    shim = TimeShim()
    S.time = shim
    drivers.time = shim
    ircdb.time = shim

    class SelectShim(object):
        error = _realselect.error
        script = []

        def select(self, r, w, x, timeout=None):
            ev('select', [c.name for c in r], [c.name for c in w],
               list(x), timeout)
            if self.script:
                res = self.script.pop(0)
            else:
                res = 'none'
            if isinstance(res, BaseException):
                raise res
            if res == 'none':
                return ([], [], [])
            if res == 'allr':
                return (list(r), [], [])
            if res == 'allw':
                return ([], list(w), [])
            return res

        def __getattr__(self, name):
            return getattr(_realselect, name)

    selshim = SelectShim()
    S.select = selshim

    # fake socket
    class FakeSock(object):
        count = 0

        def __init__(self, sends=None, recvs=None, connect_exc=None,
                     shutdown_exc=None, close_exc=None, fileno=7):
            FakeSock.count += 1
            self.name = 'sock%d' % FakeSock.count
            self.sends = list(sends or [])
            self.recvs = list(recvs or [])
            self.connect_exc = connect_exc
            self.shutdown_exc = shutdown_exc
            self.close_exc = close_exc
            self._fileno = fileno
            self._closed = False
            self.wire = b''

        def __repr__(self):
            return '<%s>' % self.name

        def send(self, data):
            ev('send', self.name, type(data).__name__, bytes(data))
            r = self.sends.pop(0) if self.sends else 'all'
            if isinstance(r, BaseException):
                raise r
            n = len(data) if r == 'all' else min(r, len(data))
            self.wire += bytes(data[:n])
            return n

        def recv(self, n):
            ev('recv', self.name, n)
            r = self.recvs.pop(0) if self.recvs else b''
            if isinstance(r, BaseException):
                raise r
            return r

        def settimeout(self, t):
            ev('settimeout', self.name, t)

        def connect(self, addr):
            ev('connect', self.name, addr)
            if self.connect_exc is not None:
                raise self.connect_exc

        def shutdown(self, how):
            ev('shutdown', self.name, how)
            if self.shutdown_exc is not None:
                raise self.shutdown_exc

        def close(self):
            ev('close', self.name)
            self._closed = True
            if self.close_exc is not None:
                raise self.close_exc

        def fileno(self):
            return self._fileno

    class Net(object):
        socks = []
        addresses = []

    def getSocket(host, port=None, socks_proxy=None, vhost=None,
                  vhostv6=None):
        ev('getSocket', host, port, socks_proxy, vhost, vhostv6)
        s = Net.socks.pop(0)
        if isinstance(s, BaseException):
            raise s
        return s

    def getAddressFromHostname(host, port=None, attempt=0):
        ev('getAddress', host, port, attempt)
        a = Net.addresses.pop(0) if Net.addresses else '10.0.0.1'
        if isinstance(a, BaseException):
            raise a
        return a

    class Wrap(object):
        exc = None

    def ssl_wrap_socket(conn, hostname, logger, certfile=None,
                        trusted_fingerprints=None, verify=True, ca_file=None,
                        **kwargs):
        ev('ssl_wrap', conn.name, hostname, logger is drivers.log,
           certfile and os.path.basename(certfile), trusted_fingerprints,
           verify, ca_file, sorted(kwargs))
        if Wrap.exc is not None:
            raise Wrap.exc
        conn.name = 'tls-' + conn.name
        return conn

    utils.net.getSocket = getSocket
    utils.net.getAddressFromHostname = getAddressFromHostname
    utils.net.ssl_wrap_socket = ssl_wrap_socket

    class TextMsg(object):
        """An outgoing object that is not an IrcMsg: only str() is used."""
        def __init__(self, s):
            self.s = s

        def __str__(self):
            return self.s

    class StubIrc(object):
        def __init__(self, network='test'):
            self.network = network
            self.q = []
            self.zombie = False
            self.driver = None
            self.onFeed = None
            self.onTake = None
            self.takes = 0

        def __repr__(self):
            return 'StubIrc(%s)' % self.network

        def takeMsg(self):
            self.takes += 1
            if self.onTake is not None:
                self.onTake(self)
            if self.q:
                m = self.q.pop(0)
                ev('take', str(m))
                return m
            return None

        def feedMsg(self, msg):
            ev('feed', str(msg), msg.prefix, msg.command, msg.args)
            if self.onFeed is not None:
                self.onFeed(self, msg)

        def reset(self):
            ev('irc.reset', self.network)

        def queue(self, *items):
            for s in items:
                if isinstance(s, str):
                    s = ircmsgs.IrcMsg(s)
                self.q.append(s)

    def state(d):
        ev('state', d.connected, d.zombie, d.eagains,
           type(d.inbuffer).__name__, bytes(d.inbuffer),
           type(d.outbuffer).__name__, bytes(d.outbuffer),
           d.nextReconnectTime, d.writeCheckTime, d.currentDelay, d._attempt,
           repr(getattr(d, 'currentServer', 'unset')), repr(d.servers),
           d in S.SocketDriver._instances,
           getattr(d.conn, 'name', None), d.ssl,
           d.irc is not None and repr(d.irc))

    def attempt(label, f, *args, **kwargs):
        try:
            r = f(*args, **kwargs)
        except BaseException as e:
            ev('raised', label, type(e).__name__,
               tuple(repr(a) for a in e.args))
            return None
        ev('returned', label, repr(r))
        return r

    def cleanup():
        del S.SocketDriver._instances[:]
        while drivers._newDrivers:
            drivers._newDrivers.pop()
        drivers._drivers.clear()
        drivers._deadDrivers.clear()
        Net.socks = []
        Net.addresses = []
        selshim.script = []
        Wrap.exc = None
        net = ircdb.networks.getNetwork('test')
        net.stsPolicies.clear()
        net.lastDisconnectTimes.clear()
        # (removeCallback compares bound methods with 'is': it never removes
        # a driver's setTimeout)
        ev('poll callbacks', [getattr(cb[0], '__name__', '?')
                              for cb in conf.supybot.drivers.poll._callbacks])
        conf.supybot.drivers.poll._callbacks = []
        world.dying = False

    def mkdriver(sock=None, irc=None, address=None):
        if irc is None:
            irc = StubIrc()
        if sock is None:
            sock = FakeSock()
        Net.socks.append(sock)
        if address is not None:
            Net.addresses.append(address)
        d = S.SocketDriver(irc)
        irc.driver = d
        return d, irc, sock

    rng = random.Random(20260930)

    # ------------------------------------------------------------------
    section('decode_raw_line')
    samples = [
        b'', b'PING :abc', 'caf\u00e9 \u20ac \U0001f600'.encode('utf8'),
        'caf\u00e9'.encode('latin-1'), b'\xff\xfe\xfd', b'\xe2\x82',
        b'abc\xe2\x82\xacdef\xe2', b'\xed\xa0\x80', b'\r', b'a\rb',
        'd\u00e9j\u00e0 vu'.encode('cp1252'), bytearray(b'PING x'),
        bytearray(b'\xe9t\xe9'),
    ]

    class FakeDetector(object):
        encoding = None
        calls = []

        def __init__(self):
            self.result = {'encoding': None}
            self.fed = []

        def feed(self, data):
            self.fed.append(bytes(data))

        def close(self):
            ev('detector.close', self.fed)
            self.result = {'encoding': FakeDetector.encoding,
                           'confidence': 0.5}

    saved = (ustr.charadeLoaded, getattr(ustr, 'UniversalDetector', None))
    for loaded, enc in [(False, None), (True, None), (True, 'latin-1'),
                        (True, 'ascii'), (True, 'utf-16'), (True, ''),
                        (True, 'no-such-codec'), (True, 'cp1252')]:
        ustr.charadeLoaded = loaded
        ustr.UniversalDetector = FakeDetector
        FakeDetector.encoding = enc
        for s in samples:
            r = attempt(('decode', loaded, enc, bytes(s)),
                        ustr.decode_raw_line, s)
            if r is not None:
                ev('type', type(r).__name__)
            r = attempt(('S.decode', loaded, enc, bytes(s)),
                        S.decode_raw_line, s)
    attempt('decode-str', ustr.decode_raw_line, 'already text')
    attempt('decode-none', ustr.decode_raw_line, None)
    ustr.charadeLoaded = saved[0]
    if saved[1] is None:
        del ustr.UniversalDetector
    else:
        ustr.UniversalDetector = saved[1]
    ev('charade', ustr.charadeLoaded, hasattr(ustr, 'UniversalDetector'))

    # ------------------------------------------------------------------
    section('parseMsg')
    for s in ['', '   ', '\r', '\r\n', 'PING :x', 'PING :x\r', '  PING x  ',
              ':nick!u@h PRIVMSG #c :h\u00e9llo w\u00f6rld\r',
              ':onlyprefix', ':', '@tag', '@a=b :p', '@a=b;c :n!u@h CMD x :y z',
              ':n!u@h PRIVMSG #c :%s %d %r', 'CMD', ':p CMD',
              '\x00', ':a  b', 'PRIVMSG #c :trailing space ', 'a\rb',
              '@' + 'x' * 600 + ' PING y']:
        m = attempt(('parseMsg', s), drivers.parseMsg, s)
        if m is not None:
            ev('parsed', type(m).__name__, str(m), m.prefix, m.command,
               m.args, sorted(m.server_tags.items()))
    attempt('parseMsg-bytes', drivers.parseMsg, b'PING x')
    attempt('parseMsg-none', drivers.parseMsg, None)

    # ------------------------------------------------------------------
    section('Log')
    srv = drivers.Server('irc.example.org', 6667, None, False)
    L = drivers.log
    attempt('connect', L.connect, srv)
    for e in [socket.gaierror(-2, 'Name or service not known'),
              socket.error(111, 'Connection refused'), socket.error('plain'),
              socket.error(), 'Timed out', None, 42, ValueError('v'),
              socket.gaierror('one-arg')]:
        attempt(('connectError', show(e)), L.connectError, srv, e)
    for e in [None, '', 0, socket.error(104, 'Connection reset by peer'),
              socket.error('ends with dot.'), socket.error(), 'text',
              'text.', 17, ValueError('x'), KeyError('k')]:
        attempt(('disconnect', show(e)), L.disconnect, srv, e)
    attempt('disconnect-default', L.disconnect, srv)
    for when in [None, 0, 1000000.5, 1000000, 'tomorrow', '']:
        attempt(('reconnect', when), L.reconnect, 'test', when)
    attempt('reconnect-default', L.reconnect, 'test')
    attempt('reconnect-%', L.reconnect, '100%s')
    attempt('reconnect-tuple', L.reconnect, ('a',), 5)
    attempt('die', L.die, StubIrc())
    ev('Log attrs', sorted(k for k in vars(drivers.Log)
                           if not k.startswith('_')))
    ev('aliases', L.error is supylog.warning, L.debug is supylog.debug,
       L.timestamp is supylog.timestamp)

    # ------------------------------------------------------------------
    section('drivers.run loop')
    cleanup()

    class Dummy(drivers.IrcDriver):
        def __init__(self, name, irc='unset', behaviour=None):
            self._name = name
            if irc != 'unset':
                self.irc = irc
            self.behaviour = behaviour or []
            drivers.IrcDriver.__init__(self)

        def name(self):
            return self._name

        def run(self):
            b = self.behaviour.pop(0) if self.behaviour else 'ok'
            ev('Dummy.run', self._name, b)
            if b == 'raise':
                raise RuntimeError('boom ' + self._name)
            if b == 'die':
                self.die()
            if b == 'exit':
                raise SystemExit(3)
            if b == 'spawn':
                Dummy(self._name + '-child', irc=None)
            if b == 'replace':
                Dummy(self._name, irc=None, behaviour=['ok', 'die'])

        def die(self):
            ev('Dummy.die', self._name)
            drivers.IrcDriver.die(self)

    def loopstate():
        ev('loop', list(drivers._drivers), sorted(drivers._deadDrivers),
           [n for (n, _) in drivers._newDrivers], drivers.empty(),
           [(n, getattr(d, 'irc', 'noattr') is None,
             getattr(getattr(d, 'irc', None), 'driver', 'noattr'))
            for (n, d) in drivers._drivers.items()])

    ev('empty', drivers.empty())
    irca, ircb = StubIrc('a'), StubIrc('b')
    irca.driver = 'A'
    ircb.driver = 'B'
    Dummy('a', irc=irca, behaviour=['ok', 'raise'])
    Dummy('b', irc=ircb, behaviour=['ok', 'ok', 'die', 'ok'])
    Dummy('c', behaviour=['spawn', 'ok', 'replace', 'ok', 'exit'])
    Dummy('d', irc=None, behaviour=['ok', 'ok', 'ok', 'raise'])
    loopstate()
    for i in range(8):
        attempt(('drivers.run', i), drivers.run)
        loopstate()
        ev('irc.driver', irca.driver, ircb.driver)
    drivers.remove('never-added')
    attempt('run-after-bogus-remove', drivers.run)
    loopstate()
    Dummy('c', irc=None)
    Dummy('c', irc=None)
    attempt('run-double-add', drivers.run)
    loopstate()
    attempt('IrcDriver.run', drivers.IrcDriver.run, object())
    attempt('IrcDriver.reconnect', drivers.IrcDriver.reconnect, object())
    cleanup()

    # ------------------------------------------------------------------
    section('write path')
    msglists = [
        [],
        ['PING :a'],
        ['PRIVMSG #c :hello', 'PRIVMSG #c :world', 'PONG x'],
        ['PRIVMSG #c :h\u00e9 \u20ac \U0001f600 \u00fc', 'PRIVMSG #\u00e9 :x',
         'NOTICE n :\u65e5\u672c\u8a9e'],
        [TextMsg('RAW no newline'), TextMsg(''), TextMsg('X \ud800 Y\r\n'),
         'PRIVMSG #c :after'],
        ['PRIVMSG #c :dup', 'PRIVMSG #c :dup', 'PRIVMSG #c :dup'],
        ['PRIVMSG #c :' + 'x\u00e9' * 150],
        [ircmsgs.privmsg('#c', 'cr lf h\u00e9llo'), ircmsgs.ping('\u20ac'),
         ircmsgs.IrcMsg(command='NOTICE', args=('n', 'tr\u00e4iling '))],
    ]

    def sendscripts(total):
        yield 'whole', []
        yield 'bytewise', [1] * (total + 2)
        yield 'two', [2] * (total + 2)
        yield 'eagain-mix', [socket.error(11, 'EAGAIN'), 3,
                             socket.error(11, 'EAGAIN'),
                             socket.error(11, 'EAGAIN'), 1, 0, 5] * (total + 1)
        for seed in range(3):
            r = random.Random(seed)
            sc = []
            for _ in range(total + 5):
                if r.random() < 0.25:
                    sc.append(socket.error(11, 'Resource temporarily '
                                               'unavailable'))
                else:
                    sc.append(r.randint(1, 9))
            yield 'rand%d' % seed, sc
        yield 'blocking', [BlockingIOError(11, 'would block'), 4] * (total + 1)

    for li, msgs in enumerate(msglists):
        irc0 = StubIrc()
        irc0.queue(*msgs)
        total = sum(len(str(m).encode('utf8', 'replace')) for m in irc0.q)
        for label, script in sendscripts(total):
            cleanup()
            d, irc, sock = mkdriver(FakeSock(sends=script))
            irc.queue(*msgs)
            ev('case', li, label)
            for step in range(4 * total + 10):
                attempt('_sendIfMsgs', d._sendIfMsgs)
                state(d)
                if not d.outbuffer and not irc.q:
                    break
            ev('wire', li, label, sock.wire)
            expected = b''.join(str(m).encode('utf8', 'replace')
                                for m in irc0.q)
            ev('wire ok', sock.wire == expected)
            # late messages, queued while something is still buffered
            sock.sends = [1, 2]
            irc.queue('PRIVMSG #c :late one')
            attempt('_sendIfMsgs', d._sendIfMsgs)
            irc.queue('PRIVMSG #c :late tw\u00f6')
            attempt('_sendIfMsgs', d._sendIfMsgs)
            state(d)
            while d.outbuffer:
                attempt('_sendIfMsgs', d._sendIfMsgs)
            ev('wire2', sock.wire)

    # error paths of the write side
    for label, script in [
            ('epipe', [3, socket.error(32, 'Broken pipe')]),
            ('noargs', [socket.error()]),
            ('strarg', [socket.error('weird')]),
            ('timeout', [socket.timeout('timed out')]),
            ('sslerror', [S.SSLError('The write operation timed out')]),
            ('valueerror', [ValueError('not a socket error')]),
            ('eagain-121', [socket.error(11, 'EAGAIN')] * 125),
    ]:
        cleanup()
        d, irc, sock = mkdriver(FakeSock(sends=script,
                                         close_exc=(label == 'epipe' and
                                                    socket.error(9, 'EBADF')
                                                    or None)))
        irc.queue('PRIVMSG #c :one', 'PRIVMSG #c :tw\u00f6')
        ev('case', label)
        for step in range(130):
            attempt('_sendIfMsgs', d._sendIfMsgs)
            if step < 4 or step > 118:
                state(d)
            if not d.connected:
                break
        state(d)
        # not connected: nothing is taken, nothing is sent
        irc.queue('PRIVMSG #c :while down')
        attempt('_sendIfMsgs-down', d._sendIfMsgs)
        state(d)
        ev('queue left', [str(m) for m in irc.q], sock.wire)

    # takeMsg reconnects in the middle of a batch
    cleanup()
    d, irc, sock = mkdriver()
    sock2 = FakeSock(sends=[5, 5])
    Net.socks.append(sock2)
    irc.queue('PRIVMSG #c :old1', 'PRIVMSG #c :old2', 'USER new',
              'NICK n\u00e9w')

    def take_hook(irc):
        if irc.takes == 3:
            ev('hook: reconnect')
            irc.driver.reconnect()
    irc.onTake = take_hook
    attempt('_sendIfMsgs', d._sendIfMsgs)
    state(d)
    while d.outbuffer:
        attempt('_sendIfMsgs', d._sendIfMsgs)
    ev('wires', sock.wire, sock2.wire)
    state(d)

    # takeMsg disconnects (schedules a reconnect) in the middle of a batch
    cleanup()
    d, irc, sock = mkdriver()
    irc.queue('PRIVMSG #c :a', 'PRIVMSG #c :b', 'PRIVMSG #c :c')

    def take_hook2(irc):
        if irc.takes == 2:
            ev('hook: reconnect(wait)')
            irc.driver.reconnect(wait=True)
    irc.onTake = take_hook2
    attempt('_sendIfMsgs', d._sendIfMsgs)
    state(d)
    ev('wire', sock.wire, [str(m) for m in irc.q])

    # zombie: flush then really die
    for script in [[], [4, socket.error(11, 'EAGAIN'), 3],
                   [2, socket.error(104, 'reset')]]:
        cleanup()
        d, irc, sock = mkdriver(FakeSock(sends=[0] + script))
        irc.queue('QUIT :bye bye', 'PRIVMSG #c :never taken?')
        attempt('_sendIfMsgs', d._sendIfMsgs)
        state(d)
        irc.queue('PRIVMSG #c :queued after first flush')
        attempt('die', d.die)
        state(d)
        ev('dead', sorted(drivers._deadDrivers))
        for step in range(40):
            attempt('_sendIfMsgs', d._sendIfMsgs)
            state(d)
            if sock._closed:
                break
        ev('wire', sock.wire, [str(m) for m in irc.q])
    cleanup()
    d, irc, sock = mkdriver()
    d.conn = None
    d.zombie = True
    attempt('_reallyDie-noconn', d._reallyDie)
    attempt('_sendIfMsgs-zombie-noconn', d._sendIfMsgs)

    # ------------------------------------------------------------------
    section('read path')
    streams = [
        b'PING :a\r\n',
        b'PING :a\r\n:n!u@h PRIVMSG #c :hi there\r\nPING :b\r\n',
        ':n!u@h PRIVMSG #c :h\u00e9 \u20ac \U0001f600\r\n:x NOTICE y :\u00fc\r\n'
        .encode('utf8'),
        b'PING a\nPING b\r\n\r\n\n  \r\nPING c\r\r\nPING d',
        b':onlyprefix\r\nPING ok\r\n@bad\r\n:\r\nPING ok2\r\n',
        b':n!u@h PRIVMSG #c :caf\xe9 latin1\r\nPING :\xff\xfe\r\n',
        b'PING a\rb\r\n\rPING c\r\n',
        b'',
        b'\n',
        b'\r\n\r\n',
    ]

    def partitions(data):
        n = len(data)
        yield 'whole', [data] if data else []
        yield 'bytewise', [data[i:i + 1] for i in range(n)]
        for cut in range(1, n):
            yield 'cut%d' % cut, [data[:cut], data[cut:]]
        for seed in range(4):
            r = random.Random(seed * 7 + n)
            chunks = []
            i = 0
            while i < n:
                k = r.randint(1, 7)
                chunks.append(data[i:i + k])
                i += k
            yield 'rand%d' % seed, chunks

    reference = {}
    for si, data in enumerate(streams):
        for label, chunks in partitions(data):
            cleanup()
            T_mark = len(T)
            d, irc, sock = mkdriver(FakeSock(recvs=list(chunks)))
            fed = []
            irc.onFeed = lambda irc, msg, fed=fed: fed.append(str(msg))
            for _ in chunks:
                attempt('_read', d._read)
            state(d)
            key = (tuple(fed), bytes(d.inbuffer))
            if si not in reference:
                reference[si] = key
            ev('same as whole', si, label, key == reference[si])
            if label not in ('whole', 'bytewise', 'rand0') and \
                    not label.endswith('3') and key == reference[si]:
                # keep the trace small: the per-step events of the many cut
                # points are summarised by their result
                del T[T_mark:]
                ev('summary', si, label, key)

    # long lines (> recv size), many chunks
    big = (b':n!u@h PRIVMSG #c :' + 'x\u00e9\u20ac'.encode('utf8') * 500 +
           b'\r\nPING tail\r\n') * 2
    for size in (1024, 1000, 513, 7):
        cleanup()
        chunks = [big[i:i + size] for i in range(0, len(big), size)]
        d, irc, sock = mkdriver(FakeSock(recvs=chunks))
        for _ in chunks:
            attempt('_read', d._read)
        state(d)

    # recv outcomes
    for label, outcome in [
            ('closed', b''),
            ('timeout', socket.timeout('timed out')),
            ('ssl-timeout', S.SSLError('The read operation timed out')),
            ('ssl-other', S.SSLError(1, 'decryption failed')),
            ('ssl-noargs', S.SSLError()),
            ('eagain', socket.error(11, 'EAGAIN')),
            ('reset', socket.error(104, 'Connection reset by peer')),
            ('noargs', socket.error()),
            ('blocking', BlockingIOError(11, 'x')),
            ('valueerror', ValueError('boom')),
            ('bytearray', bytearray(b'PING ba\r\nPI')),
            ('str', 'PING text\r\n'),
    ]:
        cleanup()
        d, irc, sock = mkdriver(
            FakeSock(recvs=[b'PING a\r\nPAR', outcome, b'T b\r\n', outcome]))
        irc.onFeed = lambda irc, msg: irc.queue('PONG :' + msg.args[-1])
        ev('case', label)
        for _ in range(4):
            attempt('_read', d._read)
            state(d)
        ev('wire', sock.wire)

    # eagain counter on the read side
    cleanup()
    d, irc, sock = mkdriver(FakeSock(
        recvs=[socket.error(11, 'EAGAIN')] * 3 + [b'PING x\r\n'] +
        [socket.error(11, 'EAGAIN')] * 123))
    for i in range(127):
        attempt('_read', d._read)
        if i < 6 or i > 120:
            state(d)

    # handlers that reconnect / die / zombie in the middle of a batch
    def feed_reconnect(irc, msg):
        if msg.args[-1] == 'two':
            ev('hook: reconnect')
            irc.driver.reconnect()

    def feed_wait(irc, msg):
        if msg.args[-1] == 'two':
            ev('hook: reconnect(wait)')
            irc.driver.reconnect(wait=True)

    def feed_zombie(irc, msg):
        irc.queue('PONG :' + msg.args[-1])
        if msg.args[-1] == 'two':
            irc.zombie = True

    def feed_noirc(irc, msg):
        if msg.args[-1] == 'two':
            irc.driver.irc = None

    def feed_raise(irc, msg):
        if msg.args[-1] == 'two':
            raise socket.error(104, 'raised by a handler')

    def feed_raise2(irc, msg):
        if msg.args[-1] == 'two':
            raise KeyError('raised by a handler')

    def feed_sameconn(irc, msg):
        # reconnect that yields the very same socket object
        if msg.args[-1] == 'two':
            Net.socks.insert(0, irc.driver.conn)
            irc.driver.reconnect()

    for hook in (feed_reconnect, feed_wait, feed_zombie, feed_noirc,
                 feed_raise, feed_raise2, feed_sameconn):
        cleanup()
        d, irc, sock = mkdriver(FakeSock(
            recvs=[b'PING one\r\nPING two\r\nPING three\r\nPING fo',
                   b'ur\r\n']))
        sock2 = FakeSock(recvs=[b'PING five\r\n'])
        Net.socks.append(sock2)
        irc.onFeed = hook
        ev('case', hook.__name__)
        attempt('_read', d._read)
        state(d)
        if d.irc is None:
            d.irc = irc
        if d.connected:
            attempt('_read', d._read)
            state(d)
        ev('wires', sock.wire, sock2.wire)

    # ------------------------------------------------------------------
    section('connection lifecycle')

    def lifecycle(label, socks, addresses=(), runs=6, step=11.0,
                  selects=(), queue=()):
        cleanup()
        ev('case', label)
        Net.socks = list(socks)
        Net.addresses = list(addresses)
        selshim.script = list(selects)
        irc = StubIrc()
        irc.queue(*queue)
        d = attempt('SocketDriver', S.SocketDriver, irc)
        if d is None:
            return None, irc
        irc.driver = d
        state(d)
        for i in range(runs):
            Clock.now += step
            attempt(('run', i), d.run)
            state(d)
        return d, irc

    conf.supybot.drivers.maxReconnectWait.setValue(25)
    lifecycle('plain', [FakeSock()], queue=['NICK a', 'USER b'], runs=2)
    lifecycle('loopback', [FakeSock()], addresses=['127.0.0.1'], runs=1)
    lifecycle('loopback6', [FakeSock()], addresses=['::1'], runs=1)
    lifecycle('gaierror x4',
              [FakeSock()],
              addresses=[socket.gaierror(-2, 'Name or service not known'),
                         socket.error(101, 'unreachable'),
                         socket.gaierror(-3, 'Temporary failure'),
                         socket.error('x')],
              runs=12)
    lifecycle('getSocket error',
              [socket.error('Something wonky happened.'), FakeSock()],
              runs=3)
    lifecycle('refused',
              [FakeSock(connect_exc=socket.error(111, 'refused')),
               FakeSock(connect_exc=socket.timeout('timed out')),
               FakeSock()], runs=6)
    lifecycle('in progress, writable',
              [FakeSock(connect_exc=socket.error(115, 'in progress'))],
              runs=8, selects=['allw'], queue=['NICK x'])
    lifecycle('in progress, not writable',
              [FakeSock(connect_exc=socket.error(115, 'in progress')),
               FakeSock()], runs=8, selects=['none'])
    lifecycle('connect ValueError',
              [FakeSock(connect_exc=ValueError('bad address'))], runs=1)
    conf.supybot.drivers.maxReconnectWait.setValue(300)
    conf.supybot.drivers.poll.setValue(0.25)
    conf.supybot.protocols.irc.vhost.setValue('192.0.2.7')
    d, irc = lifecycle('non-default poll/vhost', [FakeSock()], runs=1)
    attempt('setTimeout', d.setTimeout)
    conf.supybot.drivers.poll.setValue(2.5)   # triggers the callback
    d.conn.settimeout = None
    attempt('setTimeout-broken', d.setTimeout)
    conf.supybot.drivers.poll.setValue(1.0)
    conf.supybot.protocols.irc.vhost.setValue('')

    # several servers, rotation and explicit server
    conf.supybot.networks.test.servers.setValue(
        ['one.example', 'two.example:7000', '[2001:db8::1]:6697'])
    d, irc = lifecycle('rotation', [FakeSock() for _ in range(20)], runs=0)
    for i in range(3):
        attempt(('reconnect', i), d.reconnect)
        state(d)
    attempt('reconnect-server', d.reconnect,
            server=drivers.Server('explicit.example', 6660, None, False))
    state(d)
    attempt('reconnect-wait-server', d.reconnect, wait=True,
            server=drivers.Server('later.example', 6661, None, False))
    state(d)
    attempt('scheduleReconnect-twice', d.scheduleReconnect)
    state(d)
    world.dying = True
    d.nextReconnectTime = None
    attempt('scheduleReconnect-dying', d.scheduleReconnect)
    world.dying = False
    state(d)
    Clock.now += 1000
    attempt('run-due', d.run)
    state(d)
    attempt('connect-kw', d.connect,
            server=drivers.Server('kw.example', 1, 9, False))
    state(d)
    ev('getDelay', [d.getDelay() for _ in range(7)])
    attempt('resetDelay', d.resetDelay)
    ev('getDelay', [d.getDelay() for _ in range(2)])
    ev('name', d.name())
    d.conn.shutdown_exc = socket.error(107, 'not connected')
    attempt('reconnect-shutdown-fails', d.reconnect, reset=False)
    state(d)
    d.conn.close_exc = socket.error(9, 'EBADF')
    attempt('reconnect-close-fails', d.reconnect)
    state(d)
    d.conn.close_exc = None
    attempt('reconnect-after-close-failed', d.reconnect)
    state(d)
    conf.supybot.networks.test.servers.setValue([])
    d.servers = []
    attempt('reconnect-no-servers', d.reconnect)
    conf.supybot.networks.test.servers.setValue(['irc.example.org:6667'])

    # _checkAndWriteOrReconnect directly
    cleanup()
    d, irc, sock = mkdriver()
    selshim.script = ['allw', 'none']
    Net.socks.append(FakeSock())
    d.writeCheckTime = 5
    attempt('_check', d._checkAndWriteOrReconnect)
    state(d)
    d.writeCheckTime = 5
    attempt('_check', d._checkAndWriteOrReconnect)
    state(d)

    # STS policies
    net = ircdb.networks.getNetwork('test')
    for label, policy, last in [
            ('valid', 'duration=100,port=6697', None),
            ('valid-recent', 'port=6697,duration=100', Clock.now - 50),
            ('expired', 'duration=100,port=6697', Clock.now - 5000),
            ('edge', 'duration=100,port=6697', None),
    ]:
        cleanup()
        ev('case sts', label)
        net.stsPolicies['irc.example.org'] = policy
        if last is not None:
            net.lastDisconnectTimes['irc.example.org'] = last
        if label == 'edge':
            net.lastDisconnectTimes['irc.example.org'] = Clock.now - 100
        Net.socks = [FakeSock()]
        irc = StubIrc()
        d = attempt('SocketDriver', S.SocketDriver, irc)
        if d is not None:
            state(d)
        ev('sts after', sorted(net.stsPolicies.items()),
           sorted(net.lastDisconnectTimes.items()))
    cleanup()
    net.stsPolicies['irc.example.org'] = 'port=6697'
    Net.socks = [FakeSock()]
    attempt('SocketDriver-bad-policy', S.SocketDriver, StubIrc())
    cleanup()

    # TLS
    certfile = os.path.join(base, 'client.pem')
    open(certfile, 'w').close()
    netconf = conf.supybot.networks.test
    for label, settings in [
            ('ssl default', {}),
            ('ssl verify', {'verify': True}),
            ('ssl fingerprints', {'fp': 'AA:BB'}),
            ('ssl ca', {'ca': certfile}),
            ('ssl certfile', {'cert': certfile}),
            ('ssl missing certfile', {'cert': certfile + '.missing'}),
            ('ssl global certfile', {'gcert': certfile}),
            ('ssl certificate error', {'exc': S.ssl.CertificateError(
                'hostname mismatch')}),
            ('ssl ssl error', {'exc': S.ssl.SSLError(1, 'handshake')}),
            ('ssl value error', {'exc': ValueError('x')}),
    ]:
        cleanup()
        ev('case', label)
        netconf.ssl.setValue(True)
        conf.supybot.protocols.ssl.verifyCertificates.setValue(
            settings.get('verify', False))
        netconf.ssl.serverFingerprints.setValue(
            [settings['fp']] if 'fp' in settings else [])
        netconf.ssl.authorityCertificate.setValue(settings.get('ca', ''))
        netconf.certfile.setValue(settings.get('cert', ''))
        conf.supybot.protocols.irc.certfile.setValue(
            settings.get('gcert', ''))
        Wrap.exc = settings.get('exc')
        Net.socks = [FakeSock(), FakeSock()]
        irc = StubIrc()
        d = attempt('SocketDriver', S.SocketDriver, irc)
        if d is not None:
            state(d)
            attempt('anyCertValidationEnabled', d.anyCertValidationEnabled)
            Wrap.exc = None
    netconf.ssl.setValue(False)
    conf.supybot.protocols.ssl.verifyCertificates.setValue(False)
    netconf.ssl.serverFingerprints.setValue([])
    netconf.ssl.authorityCertificate.setValue('')
    netconf.certfile.setValue('')
    conf.supybot.protocols.irc.certfile.setValue('')
    # STS forces TLS on a non-ssl network
    for verify in (False, True):
        cleanup()
        conf.supybot.protocols.ssl.verifyCertificates.setValue(verify)
        net.stsPolicies['irc.example.org'] = 'duration=100,port=6697'
        Net.socks = [FakeSock()]
        d = attempt('SocketDriver-sts-tls', S.SocketDriver, StubIrc())
        state(d)
    conf.supybot.protocols.ssl.verifyCertificates.setValue(False)
    cleanup()
    # requireStarttls silences the plain-text warning
    netconf.requireStarttls.setValue(True)
    Net.socks = [FakeSock()]
    d = attempt('SocketDriver-requireStarttls', S.SocketDriver, StubIrc())
    netconf.requireStarttls.setValue(False)
    # no ssl module
    cleanup()
    netconf.ssl.setValue(True)
    saved_ssl = S.__dict__.pop('ssl')
    d = attempt('SocketDriver-no-ssl-module', S.SocketDriver, StubIrc())
    state(d)
    S.ssl = saved_ssl
    netconf.ssl.setValue(False)

    # socks proxy
    import types
    cleanup()
    netconf.socksproxy.setValue('proxy.example:1080')
    sys.modules['socks'] = None
    Net.socks = [FakeSock()]
    d = attempt('SocketDriver-socks-missing', S.SocketDriver, StubIrc())
    sys.modules['socks'] = types.ModuleType('socks')
    cleanup()
    Net.socks = [FakeSock()]
    d = attempt('SocketDriver-socks-present', S.SocketDriver, StubIrc())
    if d is not None:
        state(d)
    del sys.modules['socks']
    netconf.socksproxy.setValue('')

    # die
    cleanup()
    d, irc, sock = mkdriver()
    d.nextReconnectTime = 5
    d.writeCheckTime = 6
    attempt('die', d.die)
    state(d)
    ev('dead', sorted(drivers._deadDrivers),
       len(conf.supybot.drivers.poll._callbacks),
       sorted(net.lastDisconnectTimes.items()))
    attempt('die-again', d.die)
    state(d)

    # ------------------------------------------------------------------
    section('_select and run')
    cleanup()
    d1, irc1, s1 = mkdriver(FakeSock(recvs=[b'PING d1\r\nPI', b'NG d1b\r\n']))
    irc2 = StubIrc('other')
    d2, irc2, s2 = mkdriver(FakeSock(recvs=[b'PING d2\r\n', b'']), irc=irc2)
    d3, irc3, s3 = mkdriver(FakeSock(sends=[3, 3, 3]))
    for irc in (irc1, irc2, irc3):
        irc.onFeed = lambda irc, msg: irc.queue('PONG :' + msg.args[-1])
    irc3.queue('PRIVMSG #c :from d3 \u00e9')
    ev('instances', [x.conn.name for x in S.SocketDriver._instances])
    selshim.script = [([s1, s2], [], []), ([s2], [], []), 'none',
                      _realselect.error(errno.EINTR, 'Interrupted'),
                      ([s1], [], [])]
    for i in range(5):
        attempt(('_select', i), S.SocketDriver._select)
        for d in (d1, d2, d3):
            state(d)
        ev('instances', [x.conn.name for x in S.SocketDriver._instances])
    ev('wires', s1.wire, s2.wire, s3.wire)
    selshim.script = [_realselect.error(errno.EBADF, 'Bad fd'),
                      ValueError('fd'), socket.error()]
    for i in range(3):
        attempt(('_select-error', i), S.SocketDriver._select)
    ev('lock free', S.SocketDriver._selecting.acquire(False))
    S.SocketDriver._selecting.release()
    # closed / invalid connections
    s1._closed = True
    s3._fileno = -1
    s3new = FakeSock()
    Net.socks.append(s3new)
    irc3.zombie = True
    irc3.queue('PRIVMSG #c :zombie irc, not sent')
    for i in range(2):
        attempt(('_select-closed', i), S.SocketDriver._select)
        for d in (d1, d2, d3):
            state(d)
        ev('instances', [x.conn.name for x in S.SocketDriver._instances])
    ev('instances', [x.conn.name for x in S.SocketDriver._instances])
    d3.connected = False
    attempt('_select-disconnected', S.SocketDriver._select)
    ev('instances', [x.conn.name for x in S.SocketDriver._instances])
    attempt('_select-empty', S.SocketDriver._select)
    # lock held elsewhere
    cleanup()
    d, irc, sock = mkdriver()
    S.SocketDriver._selecting.acquire()
    irc.queue('PRIVMSG #c :while locked')
    attempt('_select-locked', S.SocketDriver._select)
    ev('lock state', S.SocketDriver._selecting.locked())
    if S.SocketDriver._selecting.locked():
        S.SocketDriver._selecting.release()
    state(d)
    ev('wire', sock.wire)
    # poll is read at every call
    conf.supybot.drivers.poll.setValue(0.125)
    attempt('_select-poll', S.SocketDriver._select)
    conf.supybot.drivers.poll.setValue(1.0)
    # irc detached
    d.irc = None
    attempt('_select-noirc', S.SocketDriver._select)
    d.irc = irc

    # run(): full cycle with fragmentation on both sides
    cleanup()
    text = (':s 001 test :Welcome \u00e9\r\n:n!u@h PRIVMSG test :h\u00e9llo '
            '\u20ac\r\nPING :k\u00e9y\r\n').encode('utf8')
    chunks = [text[i:i + 5] for i in range(0, len(text), 5)]
    d, irc, sock = mkdriver(FakeSock(recvs=chunks,
                                     sends=[1, 2, 3, socket.error(11, 'e')]
                                     * 40))
    irc.onFeed = lambda irc, msg: irc.queue(
        'PRIVMSG #c :got %s \u00fc' % msg.args[-1])
    irc.queue('NICK test', 'USER t 0 * :t\u00e9st')
    selshim.script = ['allr'] * len(chunks)
    for i in range(len(chunks) + 60):
        Clock.now += 0.5
        attempt(('run', i), d.run)
        if not d.outbuffer and not irc.q and i > len(chunks):
            break
    state(d)
    ev('wire', sock.wire)
    # through the driver loop
    for i in range(3):
        attempt(('drivers.run', i), drivers.run)
    loopstate()
    attempt('die', d.die)
    attempt('drivers.run', drivers.run)
    loopstate()
    ev('detached', d.irc, irc.driver)
    cleanup()

    # ------------------------------------------------------------------
    section('real socketpair')
    # The same driver over a real (AF_UNIX) socket with a small send buffer
    # and the real select: the kernel decides how writes and reads are
    # split, so only the end result (which must not depend on the split) is
    # recorded.
    cleanup()

    class PairSock(socket.socket):
        name = 'pair'

        def connect(self, addr):
            pass

    left, peer = socket.socketpair()
    conn = PairSock(fileno=left.detach())
    conn.setsockopt(socket.SOL_SOCKET, socket.SO_SNDBUF, 4096)
    peer.setsockopt(socket.SOL_SOCKET, socket.SO_RCVBUF, 4096)
    S.select = _realselect
    S.time = _realtime
    conf.supybot.drivers.poll.setValue(0.5)
    out_msgs = [ircmsgs.privmsg('#chan', 'line %d \u00e9\u20ac\U0001f600 %s'
                                % (i, 'z\u00fc' * (i % 150)))
                for i in range(400)]
    expected_wire = b''.join(str(m).encode('utf8') for m in out_msgs)
    in_lines = [':n!u@h PRIVMSG #chan :msg %d caf\u00e9 \u20ac %s.' %
                (i, '\u65e5' * (i % 40)) for i in range(300)]
    in_stream = ''.join(l + '\r\n' for l in in_lines).encode('utf8')
    got = []
    sent_all = threading.Event()

    def peer_thread():
        r = random.Random(5)
        i = 0
        peer.settimeout(0.001)
        received = 0
        while received < len(expected_wire) or i < len(in_stream):
            if i < len(in_stream):
                k = r.randint(1, 30)
                peer.settimeout(5)
                peer.sendall(in_stream[i:i + k])
                peer.settimeout(0.001)
                i += k
                if i >= len(in_stream):
                    sent_all.set()
            try:
                data = peer.recv(r.randint(1, 3000))
            except socket.timeout:
                continue
            if not data:
                break
            got.append(data)
            received += len(data)

    Net.socks = [conn]
    irc = StubIrc()
    fed = []
    irc.onFeed = lambda irc, msg: fed.append(msg.args[-1])
    before = len(T)
    d = S.SocketDriver(irc)
    irc.driver = d
    irc.q.extend(out_msgs)
    th = threading.Thread(target=peer_thread)
    th.daemon = True
    th.start()
    deadline = _realtime.time() + 60
    while _realtime.time() < deadline and d.connected and (
            len(fed) < len(in_lines) or d.outbuffer or irc.q):
        if sent_all.is_set() and len(fed) >= len(in_lines):
            d._sendIfMsgs()
        else:
            d.run()
    th.join(30)
    del T[before:]
    ev('real connected', d.connected, bytes(d.inbuffer), bytes(d.outbuffer))
    ev('real wire', b''.join(got) == expected_wire, len(b''.join(got)),
       len(expected_wire))
    ev('real fed', fed == [l.split(' :', 1)[1] for l in in_lines], len(fed))
    attempt('die', d.die)
    d._sendIfMsgs()
    ev('real closed', conn._closed)
    peer.close()
    S.select = selshim
    S.time = shim
    conf.supybot.drivers.poll.setValue(1.0)
    cleanup()

    # ------------------------------------------------------------------
    section('newDriver')
    for mod in (None, 'default', 'Socket', 'supybot.drivers.Socket'):
        cleanup()
        Net.socks = [FakeSock()]
        irc = StubIrc()
        d = attempt(('newDriver', mod), drivers.newDriver, irc, mod)
        ev('newDriver', type(d).__name__, irc.driver is d,
           [n for (n, _) in drivers._newDrivers])
    attempt('newDriver-bad', drivers.newDriver, StubIrc(), 'NoSuchDriver')
    ev('Driver alias', S.Driver is S.SocketDriver)
    cleanup()

    # ------------------------------------------------------------------
    digest = hashlib.sha256('\n'.join(T).encode('utf8', 'backslashreplace'))
    digest = digest.hexdigest()
    if '--dump' in sys.argv:
        with open(sys.argv[sys.argv.index('--dump') + 1], 'w',
                  errors='backslashreplace') as fd:
            fd.write('\n'.join(T) + '\n')
    bounds = sections + [('end', len(T))]
    for (name, start), (_, end) in zip(bounds, bounds[1:]):
        h = hashlib.sha256('\n'.join(T[start:end]).encode(
            'utf8', 'backslashreplace')).hexdigest()[:12]
        print('  %-24s %6d events  %s' % (name, end - start, h))
    print('events: %d  digest: %s' % (len(T), digest))
    if digest == EXPECTED:
        print('PASS')
        return 0
    print('FAIL: expected digest %s' % EXPECTED)
    return 1


if __name__ == '__main__':
    code = 1
    try:
        code = main()
    except BaseException:
        import traceback
        traceback.print_exc()
        print('FAIL: demo crashed')
        code = 2
    sys.stdout.flush()
    sys.stderr.flush()
    os._exit(code)
