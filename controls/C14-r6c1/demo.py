"""Equivalence demo for a behaviour-preserving refactor of the nested-command
evaluation and plugin dispatch code (src/callbacks.py, plugins/Owner).

Drives the real bot in-process through a long, deterministic scenario, records
every observable result (messages handed to the network, the order in which
commands ran, every log call with its format string and arguments, return
values and exceptions of the public functions called directly, registry values)
and compares a digest of that record with the one recorded on the unmodified
tree.

    python demo.py            -> PASS / FAIL
    python demo.py --record   -> prints the digest of this tree
    python demo.py --dump F   -> also writes the whole record to F
"""
import os, sys, re, json, hashlib, tempfile, threading, time, getopt, logging
sys.path.insert(0, os.getcwd())

EXPECTED = 'c6aefa9ef618bc4bc3488f00272b09e4d26ecbf0cb21cc9253392b35b93be6db'

# ---------------------------------------------------------------- bootstrap
scratch = tempfile.mkdtemp(prefix='mut6c14_')
for d in ('data', 'conf', 'logs', 'backup'):
    os.mkdir(os.path.join(scratch, d))
regfile = os.path.join(scratch, 'bot.conf')
with open(regfile, 'w') as fd:
    fd.write("""
supybot.directories.data: %(s)s/data
supybot.directories.conf: %(s)s/conf
supybot.directories.log: %(s)s/logs
supybot.directories.backup: %(s)s/backup
supybot.reply.whenNotCommand: True
supybot.log.stdout: False
supybot.log.level: CRITICAL
supybot.log.plugins.individualLogfiles: False
supybot.protocols.irc.throttleTime: 0
supybot.reply.whenAddressedBy.chars: @
supybot.abuse.flood.command: False
supybot.abuse.flood.command.invalid: False
supybot.nick: bot
""" % {'s': scratch})

import supybot.registry as registry
registry.open_registry(regfile)
import supybot.log as log
import supybot.conf as conf
conf.supybot.flush.setValue(False)
import supybot.world as world
import supybot.utils as utils
import supybot.ircdb as ircdb
import supybot.irclib as irclib
import supybot.ircmsgs as ircmsgs
import supybot.ircutils as ircutils
import supybot.callbacks as callbacks
import supybot.plugin as plugin

TRACE = []        # the whole record
STEP = []         # record of the current step
RAN = []
USER = 'user!u@host.example'
OWNER = 'own!o@owner.example'
BOB = 'bob!b@bob.example'
CARL = 'carl!c@carl.example'


def clean(x, depth=0):
    """A printable, address-free picture of a logged / returned value."""
    if x is None or isinstance(x, (bool, int, float, str)):
        return x
    if isinstance(x, bytes):
        return 'bytes:' + x.decode('latin1')
    if isinstance(x, (list, tuple)):
        return [type(x).__name__] + [clean(y, depth + 1) for y in x]
    if isinstance(x, (set, frozenset)):
        return ['set'] + sorted(clean(y, depth + 1) for y in x)
    if isinstance(x, dict):
        return ['dict'] + sorted([clean(k), clean(v, depth + 1)]
                                 for (k, v) in x.items())
    if isinstance(x, ircmsgs.IrcMsg):
        return 'IrcMsg:' + str(x).rstrip('\r\n')
    if isinstance(x, callbacks.Commands):
        return 'CB:' + x.name()
    if isinstance(x, BaseException):
        return 'EXC:%s:%s' % (type(x).__name__, x)
    if callable(x) and hasattr(x, '__name__'):
        owner = getattr(x, '__self__', None)
        return 'FN:%s:%s' % (clean(owner) if owner is not None else '',
                             x.__name__)
    return re.sub(r'0x[0-9a-fA-F]+', '0x', repr(x))


class Recorder(logging.Handler):
    def emit(self, record):
        exc = None
        if record.exc_info and record.exc_info[0] is not None:
            exc = '%s:%s' % (record.exc_info[0].__name__, record.exc_info[1])
        text = re.sub(r'0x[0-9a-fA-F]+', '0x', str(record.msg))
        if 'Locals by frame' in text:
            # log.exception's dump of every frame with its line number and
            # local variables: describes the source text, not the behaviour.
            text = '<dump of the locals of each frame>'
        STEP.append(('log', threading.current_thread().name,
                     record.levelname, record.name, text,
                     clean(record.args), exc))
recorder = Recorder()
recorder.setLevel(0)
log._logger.addHandler(recorder)


def newIrc(network):
    conf.registerNetwork(network)
    irc = irclib.Irc(network)
    while irc.takeMsg():
        pass
    def capture(kind):
        def f(m):
            STEP.append(('out', threading.current_thread().name, kind,
                         str(m).rstrip('\r\n')))
            return True
        return f
    irc.queueMsg = capture('queue')
    irc.sendMsg = capture('send')
    irc.feedMsg(ircmsgs.IrcMsg(':srv 001 bot :Welcome'))
    return irc


def waitThreads():
    deadline = time.time() + 20
    while time.time() < deadline:
        alive = [t for t in threading.enumerate()
                 if t.name.startswith('Thread #')]
        if not alive:
            return
        time.sleep(0.005)
    STEP.append(('stuck threads', sorted(t.name for t in alive)))


def endStep(label):
    """Closes the current step.  Entries of one thread keep their order;
    threads are listed one after the other (what two threads log at the same
    time has no defined order)."""
    waitThreads()
    entries = list(STEP)
    del STEP[:]
    order = []
    for e in entries:
        t = e[1] if e[0] in ('log', 'out') else ''
        if t not in order:
            order.append(t)
    entries.sort(key=lambda e: order.index(e[1] if e[0] in ('log', 'out')
                                           else ''))
    TRACE.append([label, entries, [list(map(clean, r)) for r in RAN]])
    del RAN[:]


def say(irc, text, prefix=USER, to=None, label=None):
    irc.feedMsg(ircmsgs.privmsg(to or irc.nick, text, prefix=prefix))
    endStep(label or ('say', prefix.split('!')[0], to, text))
    return TRACE[-1]


def call(label, f, *args, **kwargs):
    """Records the value or the exception of a direct call."""
    try:
        r = ('value', clean(f(*args, **kwargs)))
    except BaseException as e:
        r = ('raised', type(e).__name__, str(e))
    STEP.append(('call', r))
    endStep(label)
    return r


def regState():
    d = conf.supybot.commands.defaultPlugins
    STEP.append(('registry',
                 sorted(conf.supybot.commands.disabled()),
                 sorted((k, v()) for (k, v) in d.getValues(fullNames=False)),
                 clean(callbacks.Commands._disabled.d)))


def makePlugin(name, replying=(), silent=(), erroring=(), threaded=False):
    ns = {'threaded': threaded}
    def mk(cmd, kind):
        def f(self, irc, msg, args):
            """<args>

            Synthetic command, with a second line of help."""
            RAN.append((self.name(), cmd, tuple(args),
                        world.isMainThread()))
            if kind == 'reply':
                irc.reply('%s.%s(%s)' % (self.name(), cmd, ','.join(args)))
            elif kind == 'silent':
                irc.noReply()
            else:
                irc.error('%s.%s failed' % (self.name(), cmd))
        f.__name__ = cmd
        return f
    for c in replying:
        ns[c] = mk(c, 'reply')
    for c in silent:
        ns[c] = mk(c, 'silent')
    for c in erroring:
        ns[c] = mk(c, 'error')
    return type(name, (callbacks.Plugin,), ns)


def special(cls, name, body, doc='<args>\n\nSynthetic command.'):
    def f(self, irc, msg, args):
        RAN.append((self.name(), name, tuple(args), world.isMainThread()))
        return body(self, irc, msg, args)
    f.__name__ = name
    f.__doc__ = doc
    setattr(cls, name, f)


# ------------------------------------------------------------------ the bot
irc = newIrc('neta')
ownerCb = plugin.loadPluginClass(irc, plugin.loadPluginModule('Owner'))
for (name, mask, caps) in [('own', OWNER, ['owner']),
                           ('bob', BOB, ['-pluga.one', '-plugc.grp.sub']),
                           ('carl', CARL, ['-two', '-plugc'])]:
    u = ircdb.users.newUser()
    u.name = name
    for c in caps:
        u.addCapability(c)
    u.addHostmask(mask)
    ircdb.users.setUser(u)
misc = plugin.loadPluginClass(irc, plugin.loadPluginModule('Misc'))


class grp(callbacks.Commands):
    def sub(self, irc, msg, args):
        """<args>

        Synthetic command in a group."""
        RAN.append(('PlugC', 'grp sub', tuple(args), world.isMainThread()))
        irc.reply('PlugC.grp.sub(%s)' % ','.join(args))
    class deep(callbacks.Commands):
        def leaf(self, irc, msg, args):
            """<args>

            Synthetic command in a group in a group."""
            RAN.append(('PlugC', 'grp deep leaf', tuple(args),
                        world.isMainThread()))
            irc.reply('PlugC.grp.deep.leaf(%s)' % ','.join(args))

A = makePlugin('PlugA', replying=('vcmd', 'cat', 'one', 'pluga', 'onlya', 'tri'),
               silent=('quiet',), erroring=('boom',))
B = makePlugin('PlugB', replying=('vcmd', 'two', 'pluga', 'misccmd', 'tri'),
               silent=('quiett',), erroring=('boomt',), threaded=True)
C = makePlugin('PlugC', replying=('three', 'cat', 'tri'))
C.grp = grp
A.notcmd = 5
A.helper = lambda self, x: x
def Bad_Name(self, irc, msg, args):
    """never a command"""
A.Bad_Name = Bad_Name

def raiser(exc):
    def body(self, irc, msg, args):
        raise exc(*args)
    return body
special(A, 'raiseerr', raiser(callbacks.Error))
special(A, 'raisesilent', raiser(callbacks.SilentError))
special(A, 'raisearg', raiser(callbacks.ArgumentError))
special(A, 'raisegetopt', raiser(getopt.GetoptError))
special(A, 'raisesyntax', raiser(SyntaxError))
special(A, 'raisevalue', raiser(ValueError))
special(B, 'raisevaluet', raiser(ValueError))
special(A, 'nodoc', raiser(callbacks.ArgumentError), doc=None)
special(A, 'errraise',
        lambda self, irc, msg, args: irc.error('raised ' + ' '.join(args),
                                               Raise=True))
special(A, 'errempty', lambda self, irc, msg, args: irc.error(''))
def twice(self, irc, msg, args):
    irc.reply('first')
    irc.reply('second')
special(A, 'twice', twice)
def tagignored(self, irc, msg, args):
    msg.tag('ignored', True)
    irc.reply('dropped')
special(A, 'tagignored', tagignored)
special(A, 'multi', lambda self, irc, msg, args: irc.replies(['m1', 'm2', 'm3']))
special(A, 'multione', lambda self, irc, msg, args:
        irc.replies(['m1', 'm2', 'm3'], oneToOne=True))
special(A, 'act', lambda self, irc, msg, args: irc.reply('waves', action=True))
special(A, 'priv', lambda self, irc, msg, args: irc.reply('psst', private=True))
special(A, 'noti', lambda self, irc, msg, args: irc.reply('hear', notice=True))
special(A, 'toother', lambda self, irc, msg, args: irc.reply('yo', to='other'))
special(A, 'noprefix', lambda self, irc, msg, args:
        irc.reply('bare', prefixNick=False))
special(A, 'imm', lambda self, irc, msg, args:
        irc.reply('now', sendImmediately=True))
special(A, 'nonstr', lambda self, irc, msg, args: irc.reply(42))
special(A, 'long', lambda self, irc, msg, args:
        irc.reply(' '.join('w%03i' % i for i in range(400))))
special(A, 'longnocheck', lambda self, irc, msg, args:
        irc.reply('y' * 300, noLengthCheck=True))
special(A, 'succ', lambda self, irc, msg, args: irc.replySuccess())
special(A, 'reterr', lambda self, irc, msg, args: irc.replyError())
def where(self, irc, msg, args):
    t = threading.current_thread()
    RAN.append(('thread', world.isMainThread(), t.daemon, t.name))
    irc.reply('main' if world.isMainThread() else 'thread')
special(A, 'where', where)
special(B, 'wheret', where)
misc.__class__.misccmd = makePlugin('X', replying=('misccmd',)).misccmd


class InvA(callbacks.Plugin):
    def invalidCommand(self, irc, msg, tokens):
        RAN.append(('InvA', 'invalidCommand', tuple(tokens),
                    world.isMainThread()))
        if tokens and tokens[0] == 'inva':
            irc.reply('InvA took %s' % ' '.join(tokens))
        elif tokens and tokens[0] == 'invaerr':
            raise callbacks.Error('InvA error')
        elif tokens and tokens[0] == 'invaerrempty':
            raise callbacks.Error()
        elif tokens and tokens[0] == 'invaexc':
            raise KeyError('InvA exception')
        elif tokens and tokens[0] == 'invanoreply':
            irc.noReply()

class InvT(callbacks.Plugin):
    threaded = True
    def invalidCommand(self, irc, msg, tokens):
        RAN.append(('InvT', 'invalidCommand', tuple(tokens),
                    world.isMainThread()))
        if tokens and tokens[0] == 'invt':
            irc.reply('InvT took %s' % ' '.join(tokens))

def fixOrder(names):
    """Irc.addCallback sorts with sets of callbacks (hashed by address): the
    order among unconstrained callbacks changes from run to run.  Pin it."""
    assert sorted(names) == sorted(cb.name() for cb in irc.callbacks)
    irc.callbacks[:] = [irc.getCallback(n) for n in names]

cbA = A(irc); cbB = B(irc); cbC = C(irc); cbInvA = InvA(irc)
for cb in (cbA, cbB, cbC, cbInvA):
    irc.addCallback(cb)
fixOrder(['Owner', 'PlugA', 'PlugB', 'PlugC', 'InvA', 'Misc'])
STEP.append(('callbacks', [cb.name() for cb in irc.callbacks]))
endStep('setup')

irc.feedMsg(ircmsgs.IrcMsg(':bot!b@bot.example JOIN #chan'))
irc.feedMsg(ircmsgs.IrcMsg(':srv 353 bot = #chan :bot user bob carl other'))
irc.feedMsg(ircmsgs.IrcMsg(':other!o@other.example JOIN #chan'))
endStep('join')

PRECALLS = []
def precb(cb, command, irc_, msg, *args, **kwargs):
    PRECALLS.append((cb.name(), tuple(command)))
    return command == ['onlya']
def precb2(cb, command, irc_, msg, *args, **kwargs):
    PRECALLS.append(('second', cb.name(), tuple(command)))
    return None


def owner(text):
    say(irc, text, prefix=OWNER)
    regState()
    endStep(('registry after', text))


# ------------------------------------------------------------- the scenario
def evaluation():
    for text in [
        'cat [one x] [two y] z',
        'pluga cat [one x] [two [three y]] z',
        'pluga cat a [quiet] b [one] ""',
        'pluga cat [quiet]',
        'pluga cat [quiet] [quiett] [quiet]',
        'quiet',
        'quiett',
        'pluga cat [one a] [boom] [two b]',
        'pluga cat [two [boom]] [one]',
        'pluga cat [two [boomt]] [one]',
        'pluga cat "[one x]" -_ --',
        'pluga cat [nosuch x]',
        'pluga cat [one] [] [two]',
        'pluga cat []',
        '[one]',
        '[[one]]',
        '[one] [two]',
        '[nosuch]',
        '',
        ' ',
        'nosuch',
        'nosuch [one] [two]',
        'pluga cat [three [two [one [three [two [one deep]]]]]]',
        'pluga cat [one 1] [one 2] [one 3] [one 4] [one 5] [one 6] [one 7]',
        'plugc cat [pluga cat [one] [two]] [plugb pluga [three]]',
        'pluga cat [twice] end',
        'twice',
        'pluga cat [tagignored] kept',
        'pluga cat a [tagignored]',
        'pluga cat [multi] x',
        'pluga cat [multione] x',
        'multi',
        'multione',
        'pluga cat [act] [priv] [noti]',
        'pluga cat [toother]',
        'pluga cat [noprefix] [imm] [nonstr] [succ]',
        'pluga cat [reterr] after',
        'act', 'priv', 'noti', 'toother', 'noprefix', 'imm', 'nonstr',
        'long', 'longnocheck', 'pluga cat [long]', 'pluga cat [longnocheck]',
        'succ', 'reterr', 'errempty', 'pluga cat [errempty] [one]',
        'one |', '| one', 'one | cat',
        'pluga cat [one', 'pluga cat one]', 'pluga cat "one',
        'pluga cat "\\ud800"',
    ]:
        say(irc, text)


def channel():
    for text in ['@pluga cat [one x] [two y]', 'bot: pluga cat [three]',
                 'bot, act', '@priv', '@noti', '@toother', '@noprefix',
                 '@long', '@pluga cat [boom]', '@nosuch', 'pluga cat [one]',
                 '@cat x', '@', '@[', '@pluga cat [where] [wheret]']:
        say(irc, text, to='#chan')
    for text in ['@pluga cat [one] [three]', '@plugc grp sub x',
                 '@grp deep leaf']:
        say(irc, text, prefix=BOB, to='#chan')


def errors():
    for detailed in (False, True):
        conf.supybot.reply.error.detailed.setValue(detailed)
        for text in ['raiseerr custom message', 'raiseerr', 'raisesilent x',
                     'raisearg', 'raisearg x', 'raisegetopt bad', 'nodoc',
                     'raisesyntax syn', 'raisevalue oops', 'raisevaluet oops',
                     'errraise a b', 'pluga cat [raiseerr inner] [one]',
                     'pluga cat [raisesilent] [one]',
                     'pluga cat [raisearg] [one]',
                     'pluga cat [raisevalue v] [one]',
                     'pluga cat [two [raisevaluet v]] [one]',
                     'pluga cat [errraise deep] [one]',
                     'pluga cat [one', 'pluga cat "\\ud800"']:
            say(irc, text)
    conf.supybot.reply.error.detailed.setValue(False)
    conf.supybot.reply.showSimpleSyntax.setValue(True)
    for text in ['raisearg', 'pluga cat [raisegetopt x]']:
        say(irc, text)
    conf.supybot.reply.showSimpleSyntax.setValue(False)


def threads():
    for text in ['pluga cat [where] [wheret] [where]', 'wheret', 'where',
                 'plugb pluga [where]', 'pluga cat [plugb pluga [wheret]]']:
        say(irc, text)
    conf.supybot.debug.threadAllCommands.setValue(True)
    for text in ['pluga cat [where] [one]', 'where', 'nosuch',
                 'pluga cat [boom] [one]']:
        say(irc, text)
    conf.supybot.debug.threadAllCommands.setValue(False)
    STEP.append(('threaded flags', cbA.threaded, cbB.threaded, cbC.threaded))
    endStep('threaded flags')


def invalid():
    for text in ['inva x y', 'invaerr', 'invaerrempty', 'invaexc',
                 'invanoreply', 'pluga cat [inva z] [one]',
                 'pluga cat [invaerr] [one]', 'pluga cat [invanoreply] [one]',
                 'pluga cat [invaexc] [one]', 'invt a']:
        say(irc, text)
    cbInvT = InvT(irc)
    irc.addCallback(cbInvT)
    fixOrder(['Owner', 'PlugA', 'PlugB', 'PlugC', 'InvA', 'InvT', 'Misc'])
    STEP.append(('callbacks', [cb.name() for cb in irc.callbacks]))
    for text in ['invt a b', 'inva first', 'nosuch', 'invaexc', 'invaerr',
                 'pluga cat [invt q] [one]', 'pluga cat [nosuch] [one]', '']:
        say(irc, text)
    irc.removeCallback('InvT')
    fixOrder(['Owner', 'PlugA', 'PlugB', 'PlugC', 'InvA', 'Misc'])
    conf.supybot.reply.whenNotCommand.setValue(False)
    for text in ['nosuch', 'pluga cat [nosuch]', 'inva still']:
        say(irc, text)
    conf.supybot.reply.whenNotCommand.setValue(True)


def dispatch():
    for text in ['vcmd', 'plugb vcmd q', 'PLUG_A vcmd q', 'pluga',
                 'pluga pluga', 'pluga nosuch', 'plugb pluga z', 'plugb',
                 'plugc', 'plugc nosuch', 'grp sub 1', 'plugc grp sub 1',
                 'grp', 'grp nosuch', 'grp deep leaf 2',
                 'plugc grp deep leaf 3', 'deep leaf', 'plugc deep leaf',
                 'misccmd', 'cat', 'plugc cat [cat]', 'Bad_Name', 'badname',
                 'helper', 'notcmd', 'name', 'die', 'V-C_MD', 'pluga V_cmd']:
        say(irc, text)
    imp = conf.supybot.commands.defaultPlugins.importantPlugins
    imp.setValue(['Misc', 'Plug_B'])
    for text in ['misccmd', 'vcmd', 'cat', 'tri', 'pluga cat [tri]']:
        say(irc, text)
    imp.setValue(['Misc', 'PlugA', 'PlugB'])
    for text in ['misccmd', 'vcmd', 'cat', 'tri', 'pluga cat [tri]']:
        say(irc, text)
    imp.setValue([])
    for text in ['misccmd', 'vcmd', 'tri']:
        say(irc, text)
    imp.setValue(['Misc'])
    owner('defaultplugin vcmd PlugA')
    for text in ['vcmd', 'plugc cat [vcmd] [plugb vcmd]']:
        say(irc, text)
    owner('defaultplugin vcmd')
    owner('defaultplugin cat PlugB')
    owner('defaultplugin nosuch PlugB')
    owner('defaultplugin nosuch')
    owner('defaultplugin cat')
    owner('defaultplugin pluga PlugB')
    say(irc, 'pluga')
    say(irc, 'pluga x')
    owner('defaultplugin --remove pluga')
    conf.supybot.commands.defaultPlugins.get('vcmd').setValue('PlugC')
    say(irc, 'vcmd')
    conf.supybot.commands.defaultPlugins.get('vcmd').setValue('NoSuchPlugin')
    say(irc, 'vcmd')
    conf.supybot.commands.defaultPlugins.get('vcmd').setValue('')
    say(irc, 'vcmd')
    conf.supybot.commands.defaultPlugins.get('vcmd').setValue('plugb')
    say(irc, 'vcmd')
    owner('defaultplugin --remove vcmd')
    owner('defaultplugin --remove vcmd')
    say(irc, 'vcmd')
    say(irc, 'defaultplugin vcmd PlugA')       # not the owner


def disabled():
    owner('disable PlugA vcmd')
    for text in ['vcmd', 'pluga vcmd', 'plugb vcmd', 'list PlugA']:
        say(irc, text)
    owner('disable PlugA nosuch')
    owner('disable v-cmd')
    for text in ['vcmd', 'plugb vcmd', 'plugc cat [plugb vcmd]',
                 'plugc cat [vcmd] [three]', 'list PlugB']:
        say(irc, text)
    owner('enable PlugB vcmd')
    owner('enable vcmd')
    say(irc, 'vcmd')
    owner('enable vcmd')
    owner('enable PlugA vcmd')
    say(irc, 'vcmd')
    owner('disable enable')
    owner('disable PlugC grp')
    owner('disable sub')
    for text in ['grp sub x', 'plugc grp sub x', 'grp deep leaf']:
        say(irc, text)
    owner('enable sub')
    owner('disable PlugC cat')
    for text in ['cat x', 'plugc cat x', 'pluga cat [plugc cat y]']:
        say(irc, text)
    owner('enable PlugC cat')
    owner('disable one')
    say(irc, 'pluga cat [one] x')
    owner('enable one')
    say(irc, 'pluga cat [one] x')


def nesting():
    mx = conf.supybot.commands.nested.maximum
    for n in (1, 2, 3):
        mx.setValue(n)
        for text in ['pluga cat [one]', 'pluga cat [pluga cat [one]]',
                     'pluga cat [one] [pluga cat [pluga cat [two]]] [three]',
                     'pluga cat [pluga cat [pluga cat [pluga cat [one]]]] z',
                     'pluga cat [two [two [two x]]]']:
            say(irc, text)
    mx.setValue(10)
    conf.supybot.commands.nested.setValue(False)
    for text in ['pluga cat [one] [two', 'pluga cat one | two', '[one]']:
        say(irc, text)
    conf.supybot.commands.nested.setValue(True)
    conf.supybot.commands.nested.pipeSyntax.setValue(True)
    for text in ['one a | pluga cat b', 'one | two | pluga cat', 'one |',
                 '| one', 'boom | pluga cat', 'quiet | pluga cat x']:
        say(irc, text)
    conf.supybot.commands.nested.pipeSyntax.setValue(False)
    conf.supybot.commands.nested.brackets.setValue('<>')
    for text in ['pluga cat <one> [two]', 'pluga cat <one']:
        say(irc, text)
    conf.supybot.commands.nested.brackets.get('#chan').setValue('{}')
    for text in ['@pluga cat {one} <two> [x]']:
        say(irc, text, to='#chan')
    conf.supybot.commands.nested.brackets.get('#chan').setValue('[]')
    conf.supybot.commands.nested.brackets.setValue('[]')
    conf.supybot.commands.quotes.setValue("'")
    for text in ["pluga cat '[one]' \"[two]\""]:
        say(irc, text)
    conf.supybot.commands.quotes.setValue('"')
    for (s, ch, net) in [('a [b [c]] d', None, None), ('a | b', '#chan', 'neta'),
                         ('a ]', None, None), ('[', None, None),
                         ('"\\ud800"', None, None), ('"\\x41" \'q\'', '#x', 'n')]:
        call(('tokenize', s, ch, net), callbacks.tokenize, s, channel=ch,
             network=net)


def capabilities():
    for text in ['pluga cat [one] x', 'one', 'pluga one', 'plugc grp sub x',
                 'grp sub', 'grp deep leaf', 'three', 'two']:
        say(irc, text, prefix=BOB)
    for text in ['pluga cat [one] [two]', 'two', 'plugb two', 'three',
                 'plugc cat x', 'grp sub', 'pluga cat [three]', 'cat']:
        say(irc, text, prefix=CARL)
    chan = ircdb.channels.getChannel('#chan')
    chan.addCapability('-plugc.three')
    chan.addCapability('-one')
    ircdb.channels.setChannel('#chan', chan)
    for text in ['@three', '@pluga cat [one]', '@pluga cat [two] [three]']:
        say(irc, text, to='#chan')
    say(irc, 'pluga cat [one] [three]')
    chan.removeCapability('-plugc.three')
    chan.removeCapability('-one')
    chan.setDefaultCapability(False)
    ircdb.channels.setChannel('#chan', chan)
    for text in ['@one', '@pluga cat [one]']:
        say(irc, text, to='#chan')
        say(irc, text, prefix=OWNER, to='#chan')
    chan.addCapability('pluga.one')
    ircdb.channels.setChannel('#chan', chan)
    say(irc, '@one', to='#chan')
    chan.setDefaultCapability(True)
    chan.removeCapability('pluga.one')
    ircdb.channels.setChannel('#chan', chan)
    conf.supybot.capabilities.default.setValue(False)
    for text in ['one', 'pluga cat [one]']:
        say(irc, text)
        say(irc, text, prefix=OWNER)
    conf.supybot.capabilities.default.setValue(True)
    m = ircmsgs.privmsg('#chan', 'x', prefix=BOB)
    irc._setMsgChannel(m)
    m2 = ircmsgs.privmsg('bot', 'x', prefix=USER)
    irc._setMsgChannel(m2)
    for (mm, cb, name) in [(m, cbA, 'one'), (m, cbA, ['pluga', 'one']),
                           (m, cbA, ['pluga']), (m, cbA, ['wrong', 'one']),
                           (m, cbC, ['plugc', 'grp', 'sub']), (m2, cbA, 'one'),
                           (m2, cbC, ['plugc', 'grp']), (m2, cbB, 'two')]:
        call(('checkCommandCapability', mm.prefix, cb.name(), name),
             callbacks.checkCommandCapability, mm, cb, name)


def precallbacks():
    callbacks.Commands.pre_command_callbacks.append(precb)
    callbacks.Commands.pre_command_callbacks.append(precb2)
    for text in ['onlya x', 'pluga cat [onlya] [one]', 'one']:
        say(irc, text)
    del callbacks.Commands.pre_command_callbacks[:]
    STEP.append(('precalls', clean(PRECALLS)))
    endStep('precalls')
    say(irc, 'onlya x')


def direct():
    for cb in (cbA, cbB, cbC, ownerCb):
        call(('listCommands', cb.name()), cb.listCommands)
        call(('listCommands+', cb.name()), cb.listCommands, ['zz', 'one'])
    for cb in (cbA, cbC):
        for name in ['one', 'vcmd', 'notcmd', 'helper', 'Bad_Name', 'badname',
                     '__init__', 'name', 'die', 'getCommand', 'grp', 'nosuch',
                     'callCommand', 'invalidCommand', 'sub', 'pluga', '']:
            call(('isCommandMethod', cb.name(), name), cb.isCommandMethod, name)
            call(('isCommand', cb.name(), name), cb.isCommand, name)
        for args in [['one'], ['pluga'], ['pluga', 'one'], ['pluga', 'pluga'],
                     ['pluga', 'nosuch'], ['nosuch'], ['grp'], ['grp', 'sub'],
                     ['grp', 'sub', 'x'], ['plugc', 'grp', 'sub', 'x'],
                     ['plugc', 'grp', 'deep', 'leaf'], ['grp', 'deep'],
                     ['grp', 'deep', 'leaf', 'y'], ['plugc', 'plugc'],
                     ['plugc', 'cat'], ['cat', 'plugc'], ['Pluga'], []]:
            call(('getCommand', cb.name(), args), cb.getCommand, args)
            call(('getCommand nostrip', cb.name(), args), cb.getCommand, args,
                 stripOwnName=False)
            call(('isCommand', cb.name(), args), cb.isCommand, args)
            call(('getCommandMethod', cb.name(), args), cb.getCommandMethod,
                 args)
        call(('getCommandMethod str', cb.name()), cb.getCommandMethod, 'one')
    for simple in (None, True, False):
        call(('help', simple), cbA.getCommandHelp, ['one'], simple)
        call(('help', simple), cbA.getCommandHelp, ['pluga', 'cat'], simple)
        call(('help', simple), cbC.getCommandHelp, ['grp', 'sub'], simple)
        call(('help nodoc', simple), cbA.getCommandHelp, ['nodoc'], simple)
    m = ircmsgs.privmsg('bot', 'x', prefix=USER)
    proxy = callbacks.NestedCommandsIrcProxy(irc, m, [])
    endStep('proxy with no args')
    for args in [['one'], ['vcmd'], ['cat'], ['pluga'], ['pluga', 'vcmd'],
                 ['plugb', 'vcmd', 'x'], ['PLUG_B', 'V-cmd'], ['grp', 'sub'], ['tri'],
                 ['plugc', 'grp', 'deep', 'leaf', 'x'], ['misccmd'],
                 ['nosuch'], ['plugc'], ['list'], ['help'], ['owner', 'list'],
                 ['pluga', 'nosuch'], ['grp', 'nosuch']]:
        call(('findCallbacksForArgs', args), proxy.findCallbacksForArgs, args)
    call(('findCallbacksForArgs str',), proxy.findCallbacksForArgs, 'one')
    call(('proxy with str args',), callbacks.NestedCommandsIrcProxy, irc, m,
         'one')
    call(('proxy eq', ), lambda: (proxy == irc, irc == proxy, proxy != irc,
                                   hash(proxy) == hash(irc),
                                   proxy.getRealIrc() is irc,
                                   proxy.nested, proxy.finalEvaled))
    p2 = callbacks.NestedCommandsIrcProxy(irc, m, ['pluga', 'cat', ['one'],
                                                  ['two', ['three']]])
    endStep('proxy built by hand')
    STEP.append(('p2', p2.args, p2.counter, p2.finalEvaled, p2.nested))
    endStep('proxy state')
    t = callbacks.CommandThread(target=cbA._callCommand,
                                args=(['one'], proxy, m, ['x']))
    STEP.append(('thread', t.name, t.daemon, cbA.threaded,
                 t.originalThreaded, clean(t.command), clean(t.cb)))
    t.start()
    t.join()
    STEP.append(('after thread', cbA.threaded))
    endStep('CommandThread by hand')
    d = callbacks.DisabledCommands()
    def dstate():
        return clean(d.d)
    for (op, a) in [('disabled', ('x',)), ('add', ('x',)),
                    ('disabled', ('X',)), ('disabled', ('x', 'P')),
                    ('add', ('x', 'P')), ('add', ('y', 'Q')),
                    ('disabled', ('y',)), ('disabled', ('y', 'q')),
                    ('disabled', ('y', 'R')), ('remove', ('x',)),
                    ('disabled', ('x', 'p')), ('disabled', ('x', 'q')),
                    ('remove', ('x',)), ('remove', ('x', 'P')),
                    ('remove', ('x', 'P')), ('remove', ('y',)),
                    ('remove', ('y', 'R')), ('remove', ('y', 'Q')),
                    ('remove', ('z',)), ('add', ('a-b_c',)),
                    ('disabled', ('ABC',))]:
        call(('DisabledCommands', op, a), getattr(d, op), *a)
        STEP.append(('d', dstate()))
        endStep('DisabledCommands state')


def ownerFront():
    irc.feedMsg(ircmsgs.privmsg('bot', '\x01VERSION\x01', prefix=USER))
    endStep('ctcp')
    say(irc, 'one', prefix='irc.server.example')
    say(irc, 'one', prefix='nickonly')
    ircdb.ignores.add('*!*@ignored.example')
    say(irc, 'one', prefix='ign!i@ignored.example')
    say(irc, 'one x', to='#chan')                  # not addressed
    conf.supybot.abuse.flood.command.setValue(True)
    conf.supybot.abuse.flood.command.maximum.setValue(2)
    for i in range(4):
        say(irc, 'one %i' % i, prefix='fl!f@flood.example')
    conf.supybot.abuse.flood.command.notify.setValue(False)
    for i in range(4):
        say(irc, 'one %i' % i, prefix='fm!f@flood2.example')
    for i in range(4):
        say(irc, 'one %i' % i, prefix=OWNER)
    conf.supybot.abuse.flood.command.setValue(False)
    conf.supybot.abuse.flood.command.notify.setValue(True)
    for i in range(4):
        say(irc, 'one %i' % i, prefix='fn!f@flood3.example')


for part in (evaluation, channel, errors, threads, invalid, dispatch, disabled,
             nesting, capabilities, precallbacks, direct, ownerFront):
    try:
        part()
    except BaseException as e:
        import traceback
        traceback.print_exc()
        STEP.append(('scenario part failed', part.__name__, repr(e)))
        endStep('failure')

blob = json.dumps(TRACE, sort_keys=True, ensure_ascii=True, indent=1,
                  default=clean)
blob = blob.replace(scratch, '<scratch>')
digest = hashlib.sha256(blob.encode()).hexdigest()
if '--dump' in sys.argv:
    with open(sys.argv[sys.argv.index('--dump') + 1], 'w') as fd:
        fd.write(blob)
sanity = [
    # the record is not empty nonsense: a few facts every tree must show
    any(e[0] == 'out' and 'PlugA.cat(PlugA.one(x),PlugB.two(PlugC.three(y)),z)'
        in e[3] for step in TRACE for e in step[1]),
    any('available in the PlugA and PlugB plugins' in e[3]
        for step in TRACE for e in step[1] if e[0] == 'out'),
    any('more nesting than is currently allowed' in e[3]
        for step in TRACE for e in step[1] if e[0] == 'out'),
    not any(e[0] in ('scenario part failed', 'stuck threads')
            for step in TRACE for e in step[1]),
    len(TRACE) > 600,
]
sys.stdout.flush()
if '--record' in sys.argv:
    print(digest, len(TRACE), sanity)
    sys.stdout.flush()
    os._exit(0)
if digest == EXPECTED and all(sanity):
    print('PASS')
    sys.stdout.flush()
    os._exit(0)
print('FAIL: digest %s, expected %s, sanity %r' % (digest, EXPECTED, sanity))
sys.stdout.flush()
os._exit(1)
