#!/usr/bin/env python
"""Equivalence demo for the C12 controls (long replies / 'more').

Drives the pure helpers (utils.str.splitBytes / byteTextWrap, ircutils.wrap,
FormatParser, FormatContext, safeArgument, ...), callbacks._makeReply and a
real in-process bot (Owner + Misc + a synthetic plugin) through
NestedCommandsIrcProxy.reply and Misc.more, under many configurations, and
compares a digest of every observable result (return values, exceptions,
messages put on the wire, the _mores table, log calls) with the one recorded
on the unmodified tree.

  cd <worktree> && /venv/bin/python _mutants/cN/demo.py            -> PASS / FAIL
  ... demo.py --record      prints the digest
  ... demo.py --dump FILE   also writes every observation to FILE (json lines)
"""
import os
import sys
import json
import types
import random
import shutil
import hashlib
import logging
import tempfile
import traceback

EXPECTED = '34150:453c152217ac4a26ee58f9955fbe8376bf245a0dc591fde9faa2a1f355affaff'

ROOT = os.path.dirname(os.path.dirname(os.path.dirname(os.path.abspath(__file__))))
os.chdir(ROOT)
sys.path.insert(0, ROOT)

BASE = tempfile.mkdtemp(prefix='c12ctl')
for d in ('data', 'conf', 'logs', 'backup', 'tmp'):
    os.mkdir(os.path.join(BASE, d))
registryFilename = os.path.join(BASE, 'conf', 'test.conf')
with open(registryFilename, 'w') as fd:
    fd.write("""
supybot.directories.data: %(b)s/data
supybot.directories.conf: %(b)s/conf
supybot.directories.log: %(b)s/logs
supybot.directories.backup: %(b)s/backup
supybot.directories.data.tmp: %(b)s/tmp
supybot.directories.plugins: %(r)s/plugins
supybot.reply.whenNotCommand: True
supybot.log.stdout: False
supybot.log.level: DEBUG
supybot.log.format: %%(levelname)s %%(message)s
supybot.log.plugins.individualLogfiles: False
supybot.protocols.irc.throttleTime: 0
supybot.reply.whenAddressedBy.chars: @
supybot.networks.test.server: should.not.need.this
supybot.networks.test.ssl: False
supybot.nick: bot
supybot.ident: botident
supybot.abuse.flood.command: False
supybot.abuse.flood.command.invalid: False
supybot.databases.users.allowUnregistration: True
""" % {'b': BASE, 'r': ROOT})

import supybot.registry as registry
registry.open_registry(registryFilename)
import supybot.log as log
import supybot.conf as conf
conf.supybot.flush.setValue(False)
import supybot.i18n as i18n
i18n.import_conf()
import supybot.utils as utils
import supybot.world as world
import supybot.ircdb as ircdb
import supybot.irclib as irclib
import supybot.ircmsgs as ircmsgs
import supybot.ircutils as ircutils
import supybot.plugin as plugin
import supybot.callbacks as callbacks
from supybot.commands import wrap

assert os.path.realpath(callbacks.__file__).startswith(os.path.realpath(ROOT)), \
    callbacks.__file__

OBS = []          # every observation, in order


def note(*rec):
    OBS.append(json.dumps(rec, sort_keys=True, ensure_ascii=True, default=repr))


def attempt(f, *args, **kwargs):
    """Result or exception of f(*args), as something JSON can hold."""
    try:
        return ['ok', f(*args, **kwargs)]
    except BaseException as e:
        return ['exc', type(e).__name__, repr(e.args)]


# --------------------------------------------------------------------------
# log calls
class Capture(logging.Handler):
    def __init__(self):
        logging.Handler.__init__(self, level=logging.DEBUG)
        self.records = []

    def emit(self, record):
        if record.levelno < logging.INFO:
            return
        if record.funcName in ('flush', 'upkeep'):
            return
        msg = str(record.msg)
        if msg.startswith('Exception id: '):
            msg = 'Exception id: (a hash of the traceback, line numbers included)'
        exc = None
        if record.exc_info:
            exc = [record.exc_info[0].__name__, repr(record.exc_info[1].args)]
        self.records.append([record.levelname, msg, repr(record.args),
                             record.funcName, exc])

    def take(self):
        (r, self.records) = (self.records, [])
        return r

CAPTURE = Capture()
log._logger.addHandler(CAPTURE)


# --------------------------------------------------------------------------
# Part A: the pure helpers
def partA():
    rnd = random.Random(20260930)
    alphabet = ['a', 'b', 'Z', ' ', ' ', '  ', '-', '\t', 'é', 'ß', '€', '日', '本',
                '😀', '\U0001f468‍\U0001f469', 'word', 'hyphen-ated', '\n',
                '\x02', '\x16', '\x1f', '\x0f', '\x03', '\x034', '\x0304', '\x0300',
                '\x030', '\x03,5', '\x034,5', '\x0315,15', '\x0316', '\x03123',
                '\x031,123', '\x03\xb2', '1', ',', '0', '\x1d', '\x01']

    def randtext(n):
        return ''.join(rnd.choice(alphabet) for _ in range(n))

    # splitBytes
    words = ['abcdef', 'é' * 5, '€' * 4, '😀' * 3, 'a😀b€cé', '', 'x']
    for w in words:
        b = w.encode()
        for size in range(-6, len(b) + 3):
            r = attempt(utils.str.splitBytes, b, size)
            if r[0] == 'ok':
                r[1] = [repr(x) for x in r[1]]
            note('splitBytes', repr(b), size, r)
    for b in (b'\xff\xff\xff\xff\xff\xff', b'ab\x80\x80\x80\x80\x80', b'\x80' * 3):
        for size in range(0, 7):
            r = attempt(utils.str.splitBytes, b, size)
            if r[0] == 'ok':
                r[1] = [repr(x) for x in r[1]]
            note('splitBytes-invalid', repr(b), size, r)

    # byteTextWrap
    fixed = ['', ' ', 'a', 'hello world', 'x' * 100, 'é' * 100, '😀' * 50,
             'foo-bar-baz ' * 20, 'a\tb\tc ' * 10, '  leading and trailing  ',
             ' '.join('w%d' % i for i in range(120)),
             'line one\nline two\n\nline four', 'tab\there', '日本語のテキスト' * 30,
             'mixed ascii and 日本語 and émoji 😀 ' * 12]
    for t in fixed + [randtext(rnd.randint(0, 200)) for _ in range(250)]:
        for size in (-3, 0, 1, 3, 4, 5, 7, 10, 16, 33, 64, 120, 400, 5000):
            note('byteTextWrap', t, size, attempt(utils.str.byteTextWrap, t, size))
        note('byteTextWrap-h', t,
             attempt(utils.str.byteTextWrap, t, 20, break_on_hyphens=True),
             attempt(utils.str.byteTextWrap, t, 20, True))
    for t in ('a\ud800 b\udc00 c', 'x\udcff' * 9, 'ok \ud83d'):
        for size in (2, 5, 40):
            note('byteTextWrap-surrogate', repr(t), size,
                 attempt(utils.str.byteTextWrap, t, size),
                 attempt(ircutils.wrap, t, size))
    note('splitBytes-str', attempt(utils.str.splitBytes, 'abc', 2),
         attempt(utils.str.splitBytes, None, 2), attempt(utils.str.splitBytes, b'abc', '2'),
         attempt(utils.str.splitBytes, bytearray(b'ab\xc3\xa9'), 3))
    note('byteTextWrap-bytes', attempt(utils.str.byteTextWrap, b'some bytes', 5))
    note('byteTextWrap-none', attempt(utils.str.byteTextWrap, None, 5))
    note('byteTextWrap-str-size', attempt(utils.str.byteTextWrap, 'abc def', '5'))

    # FormatContext
    for fg in (None, 0, 1, 4, 9, 10, 15, '4', 'red', 'light blue', 'nocolor', 16, 99):
        for bg in (None, 0, 5, 15, 'white', 16):
            for flags in range(8):
                c = ircutils.FormatContext()
                c.fg = fg
                c.bg = bg
                c.bold = bool(flags & 1)
                c.reverse = bool(flags & 2)
                c.underline = bool(flags & 4)
                note('FormatContext', repr(fg), repr(bg), flags,
                     attempt(c.start, 'text'), attempt(c.end, 'text'),
                     attempt(c.size), attempt(c.start, ''), attempt(c.end, ''))
                c.reset()
                note('FormatContext-reset', c.fg, c.bg, c.bold, c.reverse,
                     c.underline, c.size(), c.start('t'), c.end('t'))

    for (b, r, u) in ((1, 2, 3), (0, 0, 0), ('x', False, False), (None, None, None),
                      (1.5, True, False)):
        c = ircutils.FormatContext()
        (c.bold, c.reverse, c.underline) = (b, r, u)
        note('FormatContext-odd', repr((b, r, u)), attempt(c.size), attempt(c.start, 's'),
             attempt(c.end, 's'))

    # FormatParser
    def ctx(c):
        return [c.fg, c.bg, c.bold, c.reverse, c.underline]
    ftexts = ['', 'plain', '\x02b', '\x02b\x02', '\x16r\x1fu', '\x034red', '\x0304red',
              '\x030white', '\x0300white', '\x03,5bg', '\x034,5x', '\x0315,15x',
              '\x0316x', '\x03161', '\x03123', '\x031,123', '\x03\xb2', '\x03',
              '\x03,', '\x034,', '\x034,x', '\x02\x16\x1f\x0312,13all\x0f none',
              '\x0399', '\x031', '\x03 1', '\x03\x03', '\x034\x03', '\x0f',
              '\x02\x0f\x02', '\x0304,\x0305', '\x03٤', '\x03１']
    for t in ftexts + [randtext(rnd.randint(0, 60)) for _ in range(400)]:
        p = ircutils.FormatParser(t)
        r = attempt(p.parse)
        if r[0] == 'ok':
            r[1] = ctx(r[1])
        note('FormatParser.parse', t, r, p.max_context_size, repr(p.last), p.fd.tell())
        # the pieces, called the way a plugin could
        p = ircutils.FormatParser(t)
        r1 = attempt(p.getInt)
        st1 = [repr(p.last), p.fd.tell()]
        r2 = attempt(p.getChar)
        p.ungetChar('7')
        r3 = attempt(p.getInt)
        st3 = [repr(p.last), p.fd.tell()]
        c = ircutils.FormatContext()
        r4 = attempt(p.getColor, c)
        note('FormatParser.pieces', t, r1, st1, r2, r3, st3, r4, ctx(c),
             repr(p.last), p.fd.tell(), attempt(p.getChar), attempt(p.getChar),
             p.max_context_size)
    note('FormatParser-none', attempt(lambda: ircutils.FormatParser(None).parse().size()))
    note('FormatParser-bytes', attempt(lambda: ircutils.FormatParser(b'ab')))

    # wrap
    wtexts = fixed + ftexts + [
        '\x02' + 'bold words ' * 40, '\x0304,05' + 'coloured words ' * 40,
        '\x030' + 'white ' * 60, '\x03,7' + 'lone bg ' * 50,
        ('\x02b\x02 n \x16r\x16 \x1fu\x1f \x0312c\x03 ' * 30),
        '\x0304' + '1234567890' * 30, '\x02\x16\x1f\x0315,15' + 'x' * 300,
        'plain then \x0309green ' + '日本語' * 60 + '\x0f plain again ' * 10,
        ] + [randtext(rnd.randint(50, 400)) for _ in range(300)]
    for t in wtexts:
        for length in (-5, 0, 1, 4, 8, 15, 20, 50, 100, 256, 430, 512):
            note('wrap', t, length, attempt(ircutils.wrap, t, length))
        note('wrap-h', t, attempt(ircutils.wrap, t, 30, True),
             attempt(ircutils.wrap, t, 30, break_on_hyphens=True))
    note('wrap-none', attempt(ircutils.wrap, None, 10))
    note('wrap-strlen', attempt(ircutils.wrap, 'abc', '10'))

    # small helpers
    for t in ftexts + ['a\rb', 'a\nb', 'a\x00b', 'ok', '', 5, None, 1.5, b'by', ['l'],
                       '\x01ACTION x\x01']:
        note('safeArgument', repr(t), attempt(ircutils.safeArgument, t))
        if isinstance(t, str):
            note('isValidArgument', t, attempt(ircutils.isValidArgument, t))
            note('strip', t, ircutils.stripFormatting(t), ircutils.stripColor(t),
                 ircutils.bold(t), ircutils.underline(t), ircutils.reverse(t),
                 ircutils.italic(t))
    for fg in (None, 0, 4, 15, 'red', 'light blue', 'bogus', 16, 123, '12'):
        for bg in (None, 0, 7, 'white', 'bogus'):
            note('mircColor', repr(fg), repr(bg), attempt(ircutils.mircColor, 's', fg, bg))
    for m in (ircmsgs.privmsg('#c', 'x', prefix='a!b@c'),
              ircmsgs.privmsg('bot', 'x', prefix='a!b@c'),
              ircmsgs.notice('&c', 'x', prefix='a!b@c'),
              ircmsgs.privmsg('+#c', 'x', prefix='a!b@c')):
        note('replyTo', str(m), attempt(ircutils.replyTo, m))


# --------------------------------------------------------------------------
# Part B/C: the bot
PENDING = {}
RETURNS = []


def ret(x):
    if x is None:
        return None
    if isinstance(x, ircmsgs.IrcMsg):
        return ['IrcMsg', str(x), sorted((k, str(v)) for (k, v) in x.tags.items()
                                        if k != 'inReplyTo'),
                'inReplyTo' in x.tags and str(x.tags['inReplyTo']),
                sorted(x.server_tags.items())]
    return [type(x).__name__, repr(x)]


class C12Demo(callbacks.Plugin):
    """Synthetic plugin: replies whatever the demo asks for."""
    def run(self, irc, msg, args):
        """takes no arguments

        Performs the calls listed in PENDING['calls'].
        """
        for (method, a, kw) in PENDING['calls']:
            try:
                r = getattr(irc, method)(*a, **kw)
                RETURNS.append(['ok', method, ret(r)])
            except callbacks.Error as e:
                RETURNS.append(['Error', method, repr(e.args)])
                raise
            except Exception as e:
                RETURNS.append(['exc', method, type(e).__name__, repr(e.args)])
                raise
            RETURNS.append(['attrs', repr(irc.to), irc.notice, irc.action,
                            irc.private, irc.prefixNick, irc.noLengthCheck,
                            irc.repliedTo])
    run = wrap(run)

    def echo(self, irc, msg, args, text):
        """<text>

        Replies with <text>.
        """
        RETURNS.append(['echo-arg', text])
        RETURNS.append(['echo', ret(irc.reply(text, **PENDING.get('echokw', {})))])
    echo = wrap(echo, ['text'])

C12Demo.__module__ = 'C12Demo'
demoModule = types.ModuleType('C12Demo')
demoModule.Class = C12Demo
demoModule.__file__ = os.path.join(BASE, 'C12Demo', '__init__.py')
sys.modules['C12Demo'] = demoModule

ALICE = 'alice!auser@ahost.example'
BOB = 'bob!buser@bhost.example.org'
ODD = 'We[ir]d~!~o{d}d@h\\ost^.example'
SERVER = 'irc.example.net'


def makeIrc():
    irc = irclib.Irc('test')
    while irc.takeMsg():
        pass
    for name in ('Misc', 'Owner', 'Config'):
        plugin.loadPluginClass(irc, plugin.loadPluginModule(name))
    plugin.loadPluginClass(irc, demoModule)
    feed(irc, ircmsgs.IrcMsg(prefix=SERVER, command='001', args=('bot', 'Welcome')))
    feed(irc, ircmsgs.IrcMsg(prefix=SERVER, command='005',
                             args=('bot', 'CHANTYPES=#&', 'PREFIX=(ov)@+',
                                   'STATUSMSG=@+', 'CASEMAPPING=rfc1459',
                                   'are supported by this server')))
    feed(irc, ircmsgs.IrcMsg(prefix=SERVER, command='376', args=('bot', 'End of MOTD')))
    setBotMask(irc, 'bot', 'botident', 'bot.host')
    for chan in ('#chan', '&local'):
        feed(irc, ircmsgs.join(chan, prefix=irc.prefix))
        for who in (ALICE, BOB, ODD):
            feed(irc, ircmsgs.join(chan, prefix=who))
    drain(irc)
    CAPTURE.take()
    return irc


def feed(irc, msg):
    irc.feedMsg(msg)


def drain(irc):
    out = []
    while True:
        m = irc.takeMsg()
        if m is None:
            break
        out.append(str(m))
    return out


def setBotMask(irc, nick, user, host):
    if irc.nick != nick:
        feed(irc, ircmsgs.IrcMsg(prefix=irc.prefix, command='NICK', args=(nick,)))
    feed(irc, ircmsgs.IrcMsg(prefix=irc.prefix, command='CHGHOST', args=(user, host)))
    assert irc.prefix == '%s!%s@%s' % (nick, user, host), irc.prefix


def moresSnapshot(irc):
    table = callbacks.NestedCommandsIrcProxy._mores
    snap = []
    ids = {}
    for (k, v) in sorted(table.items()):
        if isinstance(v, tuple):
            (private, L) = v
            snap.append([k, 'nick-entry', private, type(L).__name__,
                         ids.setdefault(id(L), len(ids)), [str(m) for m in L]])
        else:
            snap.append([k, 'mask-entry', type(v).__name__,
                         ids.setdefault(id(v), len(ids)), [str(m) for m in v]])
    return snap


CONF_DEFAULTS = {}


def setConf(irc, settings):
    """settings: {dotted name: value} or {(dotted name, channel): value}."""
    for (name, value) in settings.items():
        channel = None
        if isinstance(name, tuple):
            (name, channel) = name
        group = conf.supybot
        for part in registry.split(name)[1:]:
            group = group.get(part)
        if channel is not None:
            group = group.get(channel)
        key = (name, channel)
        if key not in CONF_DEFAULTS:
            CONF_DEFAULTS[key] = (group, group())
        group.setValue(value)


def resetConf():
    for ((name, channel), (group, value)) in sorted(CONF_DEFAULTS.items(),
                                                   key=lambda kv: kv[0][1] is not None):
        group.setValue(value)
        if channel is not None:
            group._wasSet = False   # inherit the global value again


def command(irc, prefix, target, text):
    """Send one command to the bot; everything observable it caused."""
    del RETURNS[:]
    feed(irc, ircmsgs.privmsg(target, text, prefix=prefix))
    out = drain(irc)
    return {'out': out, 'returns': list(RETURNS), 'mores': moresSnapshot(irc),
            'log': CAPTURE.take()}


def relayedSizes(irc, out):
    return [len((':%s %s' % (irc.prefix, line)).encode()) for line in out]


def case(irc, label, settings, botmask, prefix, target, text, calls,
         followups, echokw=None):
    resetConf()
    callbacks.NestedCommandsIrcProxy._mores.clear()
    setBotMask(irc, *botmask)
    drain(irc)
    CAPTURE.take()
    setConf(irc, settings)
    PENDING.clear()
    PENDING['calls'] = calls
    PENDING['echokw'] = echokw or {}
    note('case', label, sorted((repr(k), repr(v)) for (k, v) in settings.items()),
         botmask, prefix, target, text, repr(calls))
    r = command(irc, prefix, target, text)
    note('result', label, r, relayedSizes(irc, r['out']))
    for (fprefix, ftarget, ftext, repeat) in followups:
        for i in range(repeat):
            before = r['mores']
            r = command(irc, fprefix, ftarget, ftext)
            note('followup', label, fprefix, ftarget, ftext, i, r,
                 relayedSizes(irc, r['out']))
            if not r['out'] or r['mores'] == before:
                break   # nothing was released: asking again gives the same


TEXTS = None


def texts():
    global TEXTS
    if TEXTS is None:
        TEXTS = {
            'short': 'a short reply',
            'empty': '',
            'ascii': ' '.join('w%d' % i for i in range(420)),
            'ascii-huge': ' '.join('word%d' % i for i in range(6000)),
            'accents': 'héllo wörld çà et là ' * 90,
            'cjk': '日本語のテキストです' * 120,
            'emoji': '😀😁😂 ' * 200 + '😀' * 300,
            'unbreakable': 'x' * 2500,
            'hyphens': 'foo-bar-baz qux--quux ' * 90,
            'tabs': 'a\tb\t\tc  d   e ' * 120,
            'newline': 'line one\nline two ' * 60,
            'bold': '\x02' + 'bold words here ' * 80,
            'colour': '\x0304,05' + 'coloured words ' * 80,
            'colour0': '\x030' + 'white on default ' * 70 + '\x03 normal ' * 30,
            'lonebg': '\x03,7' + 'lone background ' * 70,
            'toggles': '\x02b\x02 n \x16r\x16 \x1fu\x1f \x0312c\x03 \x0f' * 70,
            'digits-after-colour': '\x0304' + '1234567890 ' * 90,
            'allfmt': '\x02\x16\x1f\x0315,15' + 'y' * 900 + ' tail' * 50,
            'ctcp': '\x01' + 'ACTION waves a lot ' * 60 + '\x01',
            'near': 'n' * 400 + ' ' + 'm' * 60,
        }
    return TEXTS


def partB(irc):
    """callbacks._makeReply, directly."""
    msgs = [ircmsgs.privmsg('#chan', '@x', prefix=ALICE),
            ircmsgs.privmsg('bot', 'x', prefix=ALICE),
            ircmsgs.privmsg('@#chan', '@x', prefix=BOB),
            ircmsgs.notice('&local', '@x', prefix=ODD)]
    tagged = ircmsgs.IrcMsg(server_tags={'msgid': 'abc123'}, prefix=ALICE,
                            command='PRIVMSG', args=('#chan', '@x'))
    irc._tagMsg(tagged) if hasattr(irc, '_tagMsg') else None
    msgs.append(tagged)
    kwsets = [{}, {'prefixNick': False}, {'prefixNick': True}, {'private': True},
              {'private': True, 'to': 'bob'}, {'to': 'bob'}, {'to': '#other'},
              {'to': '+#chan'}, {'to': '#other', 'private': True},
              {'notice': True}, {'notice': True, 'private': True},
              {'action': True}, {'action': True, 'notice': True},
              {'action': True, 'to': 'bob', 'private': True},
              {'error': True}, {'error': True, 'private': False, 'notice': False},
              {'stripCtcp': False}, {'stripCtcp': True, 'prefixNick': False}]
    confsets = [{}, {'supybot.reply.withNotice': True},
                {'supybot.reply.inPrivate': True},
                {'supybot.reply.withNickPrefix': False},
                {'supybot.reply.error.withNotice': True},
                {'supybot.reply.error.inPrivate': True},
                {'supybot.reply.withNoticeWhenPrivate': False},
                {('supybot.reply.withNickPrefix', '#chan'): False,
                 ('supybot.reply.withNotice', '#chan'): True},
                {'supybot.protocols.irc.experimentalExtensions': True}]
    payloads = ['hello', '', '\x01VERSION\x01', 'two\nlines', 'é' * 10]
    for (ci, cs) in enumerate(confsets):
        resetConf()
        setConf(irc, cs)
        for caps in ((), ('message-tags',)):
            saved = set(irc.state.capabilities_ack)
            irc.state.capabilities_ack.update(caps)
            for m in msgs:
                for kw in kwsets:
                    for s in payloads:
                        m2 = ircmsgs.IrcMsg(msg=m)
                        r = attempt(callbacks._makeReply, irc, m2, s, **kw)
                        if r[0] == 'ok':
                            r[1] = ret(r[1])
                        note('_makeReply', ci, caps, str(m), kw, s, r,
                             sorted(k for k in m2.tags if k != 'receivedAt'))
                        if 'error' not in kw:
                            m3 = ircmsgs.IrcMsg(msg=m)
                            r = attempt(callbacks._makeErrorReply, irc, m3, s, **kw)
                            if r[0] == 'ok':
                                r[1] = ret(r[1])
                            note('_makeErrorReply', ci, caps, str(m), kw, s, r,
                                 sorted(k for k in m3.tags if k != 'receivedAt'))
            irc.state.capabilities_ack.clear()
            irc.state.capabilities_ack.update(saved)
    resetConf()
    note('_makeReply-log', CAPTURE.take())


def partC(irc):
    T = texts()
    rnd = random.Random(12)
    masks = [('bot', 'botident', 'bot.host'),
             ('b', 'i', 'h'),
             ('averyveryverylongnickname', '~longident', 'a.very.long.host.name.' * 3 + 'example.org'),
             ('bot', 'bé', 'hôte.example')]
    moreA = (ALICE, '#chan', '@more', 70)
    # hand-made cases -------------------------------------------------------
    n = [0]

    def simple(text, settings=None, kw=None, target='#chan', prefix=ALICE,
               followups=None, mask=0, method='reply', cmd='@run', echokw=None):
        n[0] += 1
        if followups is None:
            ftarget = target if target != 'bot' else irc.nick
            followups = [(prefix, ftarget, '@more' if ftarget[0] in '#&@+' else 'more', 70)]
        if target == 'bot':
            target = masks[mask][0]
            cmd = cmd.lstrip('@')
            followups = [(p, masks[mask][0] if t == 'bot' else t, x, c)
                         for (p, t, x, c) in followups]
        case(irc, 'h%d' % n[0], settings or {}, masks[mask], prefix, target, cmd,
             [(method, (text,), kw or {})], followups, echokw=echokw)

    for (name, t) in sorted(T.items()):
        simple(t)
        simple(t, {'supybot.reply.mores.length': 80, 'supybot.reply.mores.maximum': 7})
    for mask in range(len(masks)):
        for name in ('ascii', 'cjk', 'toggles', 'unbreakable', 'colour0'):
            simple(T[name], mask=mask)
            simple(T[name], mask=mask, target='bot')
    for length in (0, 1, 45, 46, 53, 60, 64, 100, 200, 450, 512, 600):
        for name in ('ascii', 'emoji', 'colour'):
            simple(T[name], {'supybot.reply.mores.length': length})
    for maximum in (1, 2, 3, 10, 50, 200):
        for name in ('ascii', 'ascii-huge', 'cjk', 'near'):
            simple(T[name], {'supybot.reply.mores.maximum': maximum})
            simple(T[name], {'supybot.reply.mores.maximum': maximum,
                             'supybot.reply.mores.length': 70})
    for instant in (1, 2, 3, 5, 60):
        for name in ('ascii', 'accents', 'short'):
            simple(T[name], {'supybot.reply.mores.instant': instant})
            simple(T[name], {'supybot.reply.mores.instant': instant,
                             'supybot.reply.mores.maximum': 4})
            simple(T[name], {'supybot.reply.mores.instant': instant},
                   kw={'sendImmediately': True})
    simple(T['ascii'], {'supybot.reply.mores': False})
    simple(T['cjk'], {'supybot.reply.mores': False, 'supybot.reply.mores.length': 100})
    simple(T['ascii'], {('supybot.reply.mores.length', '#chan'): 90,
                        ('supybot.reply.mores.instant', '#chan'): 2,
                        ('supybot.reply.mores.maximum', '#chan'): 5,
                        'supybot.reply.mores.length': 300})
    simple(T['ascii'], {('supybot.reply.mores.length', '#chan'): 90}, target='&local')
    simple(T['ascii'], {'supybot.plugins.Misc.mores': 3})
    simple(T['ascii'], {('supybot.plugins.Misc.mores', '#chan'): 4,
                        'supybot.reply.mores.length': 100})
    simple(T['ascii'], {'supybot.plugins.Misc.mores': 100})
    for kw in ({'prefixNick': False}, {'prefixNick': True}, {'private': True},
               {'notice': True}, {'notice': True, 'private': True}, {'to': 'bob'},
               {'to': 'bob', 'private': True}, {'to': 'nobody', 'private': True},
               {'to': '#other'}, {'to': '&local'}, {'action': True},
               {'noLengthCheck': True}, {'sendImmediately': True},
               {'stripCtcp': False}, {'to': 'We[ir]d~', 'private': True},
               {'to': 'we{ir}d^', 'private': True}):
        for name in ('ascii', 'ctcp', 'toggles'):
            fol = [moreA, (BOB, '#chan', '@more', 70), (BOB, 'bot', 'more', 70),
                   (ODD, 'bot', 'more', 70), (ALICE, 'bot', 'more', 3)]
            simple(T[name], kw=kw, followups=fol)
            simple(T[name], kw=kw, followups=fol, target='bot')
            simple(T[name], kw=kw, followups=fol, target='@#chan')
    for cs in ({'supybot.reply.withNotice': True}, {'supybot.reply.inPrivate': True},
               {'supybot.reply.withNickPrefix': False},
               {'supybot.reply.withNoticeWhenPrivate': False},
               {'supybot.reply.error.withNotice': True},
               {'supybot.reply.error.inPrivate': True},
               {'supybot.reply.maximumLength': 300},
               {'supybot.language': 'fr'}, {'supybot.language': 'fi'},
               {'supybot.language': 'fr', 'supybot.reply.mores.length': 48}):
        for name in ('ascii', 'accents'):
            simple(T[name], cs)
            simple(T[name], cs, target='bot')
            simple(T[name], cs, method='error')
    conf.supybot.language.setValue('en')
    # errors and other reply methods
    simple(T['ascii'], method='error')
    simple(T['ascii'], method='error', kw={'Raise': True})
    simple(T['ascii'], method='replySuccess')
    simple(T['ascii'], method='replyError')
    simple(12345)
    simple(None)
    simple(1.5, kw={'prefixNick': False})
    simple(['a', 'list'])
    simple(ircmsgs.privmsg('#chan', 'old code'))
    n[0] += 1
    case(irc, 'h%d' % n[0], {}, masks[0], ALICE, '#chan', '@run',
         [('replies', ([T['ascii'][:600], T['cjk'][:300], 'third'],), {}),
          ], [moreA])
    n[0] += 1
    case(irc, 'h%d' % n[0], {'supybot.reply.oneToOne': False}, masks[0], ALICE, '#chan',
         '@run', [('replies', ([T['ascii'][:900], T['cjk'][:600], 'third'],),
                   {'prefixer': 'P: ', 'onlyPrefixFirst': True})], [moreA])
    # two replies in one invocation, attribute leakage between them
    for (kw1, kw2) in (({'noLengthCheck': True}, {}), ({'private': True}, {}),
                       ({'notice': True}, {'prefixNick': False}),
                       ({'action': True}, {}), ({'to': 'bob'}, {'to': 'alice'}),
                       ({}, {})):
        n[0] += 1
        case(irc, 'h%d' % n[0], {'supybot.reply.mores.length': 120}, masks[0], ALICE,
             '#chan', '@run', [('reply', (T['accents'],), kw1),
                               ('reply', (T['ascii'],), kw2)],
             [moreA, (ALICE, 'bot', 'more', 70)])
    # nested commands
    for name in ('ascii', 'cjk', 'toggles', 'short', 'empty'):
        for ekw in ({}, {'prefixNick': False}, {'private': True}):
            n[0] += 1
            case(irc, 'h%d' % n[0], {'supybot.reply.mores.length': 150}, masks[0],
                 ALICE, '#chan', '@echo pre [run] post',
                 [('reply', (T[name],), {})], [moreA, (ALICE, 'bot', 'more', 70)],
                 echokw=ekw)
            n[0] += 1
            case(irc, 'h%d' % n[0], {'supybot.reply.maximumLength': 700}, masks[0],
                 ALICE, '#chan', '@echo [echo [run]] [run]',
                 [('reply', (T[name],), {'notice': True})], [moreA], echokw=ekw)
    # nested commands that do not reply, or reply after declining to
    for calls in ([('noReply', (), {})],
                  [('noReply', (), {}), ('reply', (T['ascii'][:700],), {})],
                  [('reply', ('inner',), {}), ('noReply', (), {})],
                  []):
        for text in ('@echo pre [run] post', '@echo [run]', '@echo [echo a [run] b] c',
                     '@run'):
            n[0] += 1
            case(irc, 'h%d' % n[0], {'supybot.reply.mores.length': 200}, masks[0],
                 ALICE, '#chan', text, calls, [moreA])
    # the 'more' command on its own
    n[0] += 1
    case(irc, 'h%d' % n[0], {}, masks[0], ALICE, '#chan', '@more', [],
         [(ALICE, '#chan', '@more bob', 1), (ALICE, '#chan', '@more nosuchnick', 1),
          (ALICE, 'bot', 'more', 1), (ALICE, '#chan', '@more alice', 1)])
    # somebody else's mores, public and private
    for (target, kw) in (('#chan', {}), ('#chan', {'private': True}), ('bot', {}),
                         ('#chan', {'to': 'bob'}), ('#chan', {'to': 'bob', 'private': True})):
        for mores in (1, 2):
            n[0] += 1
            t = target
            case(irc, 'h%d' % n[0], {'supybot.reply.mores.length': 100,
                                     'supybot.reply.mores.maximum': 9,
                                     'supybot.plugins.Misc.mores': mores},
                 masks[0], ALICE, t, '@run' if t != 'bot' else 'run',
                 [('reply', (T['ascii'],), kw)],
                 [(ALICE, '#chan', '@more', 2), (BOB, '#chan', '@more alice', 2),
                  (BOB, '#chan', '@more', 2), (ODD, '#chan', '@more ALICE', 1),
                  (ODD, 'bot', 'more', 3), (BOB, '#chan', '@more bob', 2),
                  (ALICE, '#chan', '@more', 20), (BOB, '#chan', '@more', 20),
                  (BOB, '#chan', '@more alice', 2), (ODD, 'bot', 'more', 20)])
    # requester with rfc1459-foldable characters, and a second request
    # replacing the first
    n[0] += 1
    case(irc, 'h%d' % n[0], {'supybot.reply.mores.length': 100}, masks[0], ODD, '#chan',
         '@run', [('reply', (T['ascii'],), {})],
         [(ODD, '#chan', '@more', 3),
          ('we{ir}d^!~o{d}d@h\\ost^.example', '#chan', '@more', 2),
          ('other!~o{d}d@h|ost~.EXAMPLE', '#chan', '@more', 2),
          (ALICE, '#chan', '@more we{ir}d^', 2), (ALICE, '#chan', '@more', 2),
          (ODD, '#chan', '@run', 1), (ODD, '#chan', '@more', 70)])

    # random cases ----------------------------------------------------------
    names = sorted(T)
    for i in range(260):
        name = rnd.choice(names)
        t = T[name]
        if rnd.random() < 0.5:
            start = rnd.randrange(0, max(1, len(t) // 2))
            t = t[start:start + rnd.randrange(1, 3000)]
        settings = {}
        if rnd.random() < 0.6:
            settings['supybot.reply.mores.length'] = rnd.choice(
                [0, 0, 46, 55, 64, 80, 123, 256, 400, 470, 512])
        if rnd.random() < 0.5:
            settings['supybot.reply.mores.maximum'] = rnd.choice([1, 2, 3, 5, 8, 50, 100])
        if rnd.random() < 0.4:
            settings['supybot.reply.mores.instant'] = rnd.choice([1, 2, 3, 4, 10])
        if rnd.random() < 0.1:
            settings['supybot.reply.mores'] = False
        if rnd.random() < 0.3:
            settings['supybot.reply.withNickPrefix'] = False
        if rnd.random() < 0.2:
            settings['supybot.plugins.Misc.mores'] = rnd.choice([2, 3, 10])
        if rnd.random() < 0.1:
            settings['supybot.reply.withNotice'] = True
        if rnd.random() < 0.1:
            settings['supybot.reply.inPrivate'] = True
        kw = {}
        for (k, vals, p) in (('prefixNick', [True, False], 0.3),
                             ('private', [True, False], 0.2),
                             ('notice', [True, False], 0.2),
                             ('to', ['bob', 'alice', 'nobody', '#other', 'We[ir]d~'], 0.2),
                             ('sendImmediately', [True], 0.15),
                             ('action', [True, False], 0.05),
                             ('noLengthCheck', [True, False], 0.05)):
            if rnd.random() < p:
                kw[k] = rnd.choice(vals)
        mask = rnd.randrange(len(masks))
        prefix = rnd.choice([ALICE, BOB, ODD])
        target = rnd.choice(['#chan', '#chan', '&local', 'bot', '@#chan', '+&local'])
        fol = None
        if rnd.random() < 0.3:
            other = rnd.choice([ALICE, BOB, ODD])
            fol = [(prefix, '#chan', '@more', rnd.randrange(1, 4)),
                   (other, '#chan', '@more ' + prefix.split('!')[0], 2),
                   (other, '#chan', '@more', 70), (prefix, '#chan', '@more', 70)]
        simple(t, settings, kw, target=target, prefix=prefix, mask=mask,
               followups=fol, method=rnd.choice(['reply'] * 9 + ['error']))
    resetConf()


def main():
    args = sys.argv[1:]
    import time
    t0 = time.time()
    def lap(what):
        if '--time' in args:
            sys.stderr.write('%s: %.1fs, %d observations\n' % (what, time.time() - t0, len(OBS)))
    partA()
    lap('A')
    irc = makeIrc()
    note('setup-log', CAPTURE.take())
    partB(irc)
    lap('B')
    partC(irc)
    lap('C')
    h = hashlib.sha256()
    for line in OBS:
        h.update(line.encode())
        h.update(b'\n')
    digest = '%d:%s' % (len(OBS), h.hexdigest())
    if '--dump' in args:
        with open(args[args.index('--dump') + 1], 'w') as fd:
            for line in OBS:
                fd.write(line + '\n')
    if '--record' in args:
        print(digest)
        return 0
    if digest == EXPECTED:
        print('PASS')
        return 0
    print('FAIL: digest %s, expected %s' % (digest, EXPECTED))
    return 1


if __name__ == '__main__':
    code = 2
    try:
        code = main()
    except BaseException:
        traceback.print_exc()
        print('FAIL: exception')
    finally:
        sys.stdout.flush()
        sys.stderr.flush()
        shutil.rmtree(BASE, ignore_errors=True)
        os._exit(code)
