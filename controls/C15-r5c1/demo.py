"""C15 control c1: the refactored code paths (open_registry / close / split /
getValues / _setValue / String quoting / list parsing / NormalizedString
wrapping / conf.register{Network,Channel}Value / InsensitivePreservingDict)
still satisfy the property, and write byte-for-byte the same file as before.

Run:  cd /tmp/mut5_C15 && timeout 120 /venv/bin/python _mutants/c1/demo.py
"""
import os
import sys
import hashlib
import tempfile
import traceback

sys.path.insert(0, os.getcwd())

# sha256 of the file written for the deterministic part of the demo, taken on
# the unmodified tree: a behaviour-preserving refactor must reproduce it.
GOLDEN = 'bd3e4f79aa1ca8efa70fa54cc3c76f87dfe302e28ac3382a97d5210af3f981db'

code = 1
problems = []
try:
    import supybot
    assert os.path.realpath(supybot.__file__).startswith(
        os.path.realpath(os.getcwd())), supybot.__file__
    import supybot.conf as conf
    import supybot.utils as utils
    import supybot.registry as registry
    InvalidRegistryValue = registry.InvalidRegistryValue

    d = tempfile.mkdtemp(prefix='c15c1')
    for n in ('conf', 'data', 'backup', 'log'):
        p = os.path.join(d, n)
        os.mkdir(p)
        getattr(conf.supybot.directories, n).setValue(p)
    os.mkdir(os.path.join(d, 'data', 'tmp'))
    conf.supybot.directories.data.tmp.setValue(os.path.join(d, 'data', 'tmp'))

    problems = []
    nchecks = [0]
    def check(what, got, want):
        nchecks[0] += 1
        if got != want or type(got) is not type(want):
            problems.append('%s: got %r, expected %r' % (what, got, want))

    def observe(v):
        """Everything observable of a value."""
        x = v()
        if hasattr(x, 'pattern'):
            x = ('re', x.pattern, x.flags)
        text = str(v)
        if isinstance(x, (set, frozenset)) and len(x) > 1 and \
                not getattr(v, 'sorted', False):
            # the order of the items of an unsorted set is not specified
            text = sorted(v.splitter(text))
        return (x, text, v._wasSet)

    ###
    # 1. pure functions
    ###
    names = ['foo', 'foo.bar', 'foo:bar', '#a.b', ':net', 'a\\', 'a\\.b',
             '\\', '.', ':', 'x\xe9y', '#日本', 'tab\there', '',
             '..', 'a\\\\.b.']
    for a in names:
        check('unescape(escape(%r))' % a,
              registry.unescape(registry.escape(a)), a)
        for b in names:
            for c in ('supybot', b):
                L = [c, a, b]
                check('split(join(%r))' % L,
                      registry.split(registry.join(L)), L)
    check('split plain', registry.split('supybot.a.b'), ['supybot', 'a', 'b'])
    check('split escaped', registry.split('a\\.b.c\\:d'), ['a.b', 'c:d'])
    check('split empty parts', registry.split('a..b.'), ['a', '', 'b', ''])

    ipd = utils.InsensitivePreservingDict({'Foo': 1, 'BAR': 2})
    ipd['foo'] = 3
    check('ipd keys', sorted(ipd.keys()), ['BAR', 'foo'])
    check('ipd items', sorted(ipd.items()), [('BAR', 2), ('foo', 3)])
    check('ipd get', (ipd['FOO'], 'bar' in ipd, 'baz' in ipd, len(ipd)),
          (3, True, False, 2))

    ###
    # 2. all the value types, on all levels
    ###
    class Brackets(registry.OnlySomeStrings):
        validStrings = ('', '[]', '<>', '{}', '()')
    class Templated(registry.TemplatedString):
        requiredTemplates = ['text']

    long1 = ('Sorry, #chan: that is \\ not possible; ask in #help or read '
             'http://example.org/a-very-long-url-that-cannot-be-broken-'
             'anywhere-at-all-because-it-has-no-space-in-it/index.html '
             'then try again -- the caf\xe9 日本 is closed: # \\')
    long2 = ' '.join('w%d\\' % i for i in range(40))
    long3 = ' '.join(['#x'] * 60)
    strings = ['', ' ', '  lead', 'trail  ', ' both ', 'a: b', '#hash',
               'k: v # c', 'caf\xe9', '日本語', '\U0001f600',
               'tab\there', '\ttab', 'nl\nmid', '\nlead nl', 'trail nl\n',
               '\r', 'back\\slash', 'trail\\', '\\\\', '\\n', '"', "'",
               '"quoted"', "'q'", '"a', 'a"', '"\'', '\'"\'', '\x00\x01\x7f',
               '\x0b\x0c', '\x85 ', ' \xa0 ', 'x' * 300, 'True', '0',
               '[1, 2]', '"a" "b"', 'a\\', ' \\ ']
    S = 'set'
    V = 'setValue'
    specs = [
        ('str', lambda: registry.String('dflt', 'A string.'), V, strings),
        ('strp', lambda: registry.String('', 'Parsed strings.'), S,
         ['"dq"', "'sq'", 'plain', '"un', ' lead', '"a\\nb"', "'\\\\'",
          '', '"\\x00"', 'caf\xe9', '"  "']),
        ('bool', lambda: registry.Boolean(False, 'A boolean.'), V,
         [True, False]),
        ('boolp', lambda: registry.Boolean(True, 'Parsed booleans.'), S,
         ['on', 'Off', 'toggle', ' true ', '0', 'ENABLED']),
        ('int', lambda: registry.Integer(0, 'An integer.'), V,
         [0, -5, 10**30, 7]),
        ('intp', lambda: registry.Integer(0, 'Parsed integers.'), S,
         ['12', ' -3 ', '1_000', '+4']),
        ('nnint', lambda: registry.NonNegativeInteger(0, 'x'), V, [0, 7]),
        ('pint', lambda: registry.PositiveInteger(1, 'x'), V, [1, 2**40]),
        ('float', lambda: registry.Float(0.0, 'A float.'), V,
         [0.0, -1.5, 1e300, 0.1 + 0.2, float('inf'), 5e-324, 3]),
        ('floatp', lambda: registry.Float(0.0, 'Parsed floats.'), S,
         ['1', '-2.50', '1e3', ' .5 ', 'inf']),
        ('pfloat', lambda: registry.PositiveFloat(1.0, 'x'), V, [1e-9, 2.5]),
        ('prob', lambda: registry.Probability(0.5, 'x'), V, [0, 1, 0.25]),
        ('re', lambda: registry.Regexp(None, 'A regexp.'), S,
         ['', 'm/foo/', '/a\\/b/i', 'm{x y}', '/: #/', '/caf\xe9\\s+"/s',
          'm/ lead and trail /']),
        ('norm', lambda: registry.NormalizedString('d', 'Normalized.'), V,
         [long1, long2, long3, 'short', '', ' a  b\t\nc ', 'x' * 200,
          'caf\xe9 ' * 30]),
        ('normp', lambda: registry.NormalizedString('d', 'Normalized.'), S,
         ['"foo   bar"', long1, "'q'"]),
        ('sss', lambda: registry.StringSurroundedBySpaces('x', 'x'), V,
         ['||', ' a', 'b ', '', ' ']),
        ('swsr', lambda: registry.StringWithSpaceOnRight('x', 'x'), V,
         ['>', 'a ', '', ' b']),
        ('brackets', lambda: Brackets('[]', 'Brackets.'), V,
         ['', '<>', '()', '[]']),
        ('tmpl', lambda: Templated('$text', 'Templated.'), V,
         ['$text', 'a: ${text} #', ' $text\\']),
        ('ssl', lambda: registry.SpaceSeparatedListOfStrings([], 'x'), V,
         [[], ['a'], ['a:', '#b', 'caf\xe9', '"q"', '\\', 'a:'],
          ['x'] * 50]),
        ('sslp', lambda: registry.SpaceSeparatedListOfStrings([], 'x'), S,
         ['', ' a  b\tc ', '"q" \\ #', ' ']),
        ('sss1', lambda: registry.SpaceSeparatedSetOfStrings([], 'x'), V,
         [set(), set(['one'])]),
        ('csl', lambda: registry.CommaSeparatedListOfStrings([], 'x'), V,
         [[], ['a b', 'c'], ['#x: y', 'z\\'], ['caf\xe9']]),
        ('cslp', lambda: registry.CommaSeparatedListOfStrings([], 'x'), S,
         ['a , b,c', ',a,,b,', '', ' ']),
        ('css1', lambda: registry.CommaSeparatedSetOfStrings([], 'x'), V,
         [set(), set(['one two'])]),
        ('json', lambda: registry.Json(None, 'Some JSON.'), V,
         [None, 1, 'str', ' spaced ', [], {},
          {'a': [1, 2.5, None, 'caf\xe9\n', True], 'b': {'c': '"\\'}},
          '"', "'x'", '\U0001f600']),
        ('jsonp', lambda: registry.Json(None, 'Parsed JSON.'), S,
         ['{"a": [1, 2]}', ' "x" ', 'null', '"\\u00e9"']),
        ('nick', lambda: conf.ValidNick('bot', 'x'), V, ['foo', 'a[b]`']),
        ('nickoe', lambda: conf.ValidNickOrEmpty('', 'x'), V, ['', 'foo']),
        ('nicks', lambda: conf.ValidNicksAllowingPercentS([], 'x'), V,
         [['%s_', '%s`'], []]),
        ('chan', lambda: conf.ValidChannel('#a', 'x'), V,
         ['#chan', '#chan,key', '&x:y.z', '#caf\xe9']),
        ('hostmask', lambda: conf.ValidHostmask('a!b@c', 'x'), V,
         ['n!u@h', '*!*@*.example.org']),
        ('chans', lambda: conf.SpaceSeparatedSetOfChannels([], 'x'), V,
         [['#B', '#a,key', '#c.d'], [], ['#x']]),
        ('nets', lambda: conf.Networks([], 'x'), V, [['Libera'], []]),
        ('servers', lambda: conf.Servers([], 'x'), V,
         [['irc.example.org:6697', 'other'], ['[::1]:6667']]),
        ('prefix', lambda: conf.ValidPrefixChars('', 'x'), V,
         ['"', '\\', '!@', "'", '', '#:']),
        ('quotes', lambda: conf.ValidQuotes('"', 'x'), V, ['"`', '', "'"]),
        ('ip', lambda: conf.IP('', 'x'), V, ['::1', '', '10.0.0.1']),
        ('ips', lambda: conf.ListOfIPs([], 'x'), V, [['0.0.0.0', '::0'], []]),
        ('dbs', lambda: conf.Databases([], 'x'), V, [['flat', 'cdb'], []]),
        ('banmask', lambda: conf.Banmask(['host'], 'x'), V,
         [['host'], ['exact']]),
        ('agents', lambda: conf.HttpUserAgents([], 'x'), V,
         [['Mozilla/5.0 (X11; Linux)', 'curl/8'], []]),
        ('lang', lambda: conf.HttpRequestLanguage('', 'x'), V,
         ['fr', '', 'en-GB;q=0.5']),
        ('socks', lambda: conf.SocksProxy('h:1', 'x'), V, ['localhost:9050']),
        ('sasl', lambda: conf.SpaceSeparatedListOfSaslMechanisms([], 'x'), V,
         [['plain', 'external'], []]),
    ]
    # unordered multi-element sets: checked for round trip, not hashed
    uspecs = [
        ('sssN', lambda: registry.SpaceSeparatedSetOfStrings([], 'x'), V,
         [set(['a', 'b:', '#c', 'caf\xe9']), set(['x'])]),
        ('cssN', lambda: registry.CommaSeparatedSetOfStrings([], 'x'), V,
         [set(['a b', 'c', '#d: e']), set()]),
        ('banmaskN', lambda: conf.Banmask(['host'], 'x'), V,
         [['host', 'user'], ['nick', 'user', 'host']]),
        ('netsN', lambda: conf.Networks([], 'x'), V,
         [['Libera', 'OFTC', 'x[y]']]),
    ]

    LEVELS = [(), (':netA',), ('#chan',), (':netA', '#chan'), ('#a.b',),
              (':n\\',), ('#c:d',), ('#caf\xe9',), (':netB', '&x.y')]

    def node(v, level):
        for part in level:
            v = v.get(part)
        return v

    def build(root, allspecs):
        """Registers every variable, one sub-variable per value so that each
        value is seen on each level; returns {(name, level): observation}."""
        expected = {}
        for (name, factory, how, values) in allspecs:
            grp = conf.registerGroup(root, name)
            for (i, value) in enumerate(values):
                v = conf.registerChannelValue(grp, 'v%d' % i, factory())
                for (j, level) in enumerate(LEVELS):
                    val = values[(i + j) % len(values)]
                    getattr(node(v, level), how)(val)
                    expected[(name, i, level)] = observe(node(v, level))
                # an inherited child, never set
                check('%s.v%d inherited' % (name, i),
                      observe(v.get('#follower'))[:2] + (False,),
                      observe(v)[:2] + (False,))
        return expected

    def verify(root, expected, when):
        for ((name, i, level), want) in expected.items():
            v = node(root.get(name).get('v%d' % i), level)
            try:
                got = observe(v)
            except Exception as e:
                got = 'raised %r; text in the file: %r' % (
                    e, registry._cache.get(v._name))
            check('%s %s' % (v._name, when), got, want)

    root = conf.registerGroup(conf.supybot, 'demoC1')
    uroot = conf.registerGroup(conf.supybot, 'demoC1u')
    expected = build(root, specs)
    uexpected = build(uroot, uspecs)

    ###
    # 3. rejected values leave the previous one in force, on every level
    ###
    rejects = [
        ('bool', 'maybe'), ('int', '1.5'), ('int', ''), ('nnint', '-1'),
        ('pint', '0'), ('float', 'abc'), ('pfloat', '0'), ('pfloat', '-1'),
        ('prob', '1.5'), ('re', 'foo'), ('re', 'm/(/'), ('re', '/x/z'),
        ('brackets', '[)'), ('tmpl', 'no template'), ('str', '"a" + "b"'),
        ('str', '"""'), ('json', '{not json'), ('json', ''),
        ('nick', 'bad nick'), ('chan', 'nochan'), ('chan', '#a,b,c'),
        ('hostmask', 'nohostmask'), ('chans', '#ok notachannel'),
        ('prefix', 'abc'), ('quotes', 'x'), ('ip', '999.1.1.1'),
        ('ips', '::1 nope'), ('banmask', 'host bogus'), ('socks', 'noport'),
        ('sasl', 'plain rot13'), ('nicks', 'ok b!d'),
    ]
    for (name, text) in rejects:
        for level in LEVELS[:4] + [('#follower',)]:
            v = node(root.get(name).get('v0'), level)
            before = observe(v)
            try:
                v.set(text)
            except (InvalidRegistryValue, ValueError):
                pass
            else:
                problems.append('%s accepted %r' % (v._name, text))
            check('%s after rejected %r' % (v._name, text),
                  observe(v), before)
    for (name, bad) in [('nnint', -1), ('pint', 0), ('prob', 2),
                        ('pfloat', 0.0), ('re', 'm/x/'), ('brackets', 'x'),
                        ('ssl', ['a b']), ('csl', ['a,b']), ('csl', [' a']),
                        ('ssl', [''])]:
        v = root.get(name).get('v0').get('#chan')
        before = observe(v)
        try:
            v.setValue(bad)
        except (InvalidRegistryValue, ValueError):
            pass
        else:
            problems.append('%s accepted value %r' % (v._name, bad))
        check('%s after rejected value %r' % (v._name, bad),
              observe(v), before)

    ###
    # 4. inheritance: set / reset sequences
    ###
    inh = conf.registerChannelValue(root, 'inherit',
                                    registry.String('g0', 'Inheritance.'))
    a = inh.get('#a'); b = inh.get('#b')
    n = inh.get(':net'); na = n.get('#a'); nb = n.get('#b')
    check('inh start', [x() for x in (inh, a, b, n, na, nb)], ['g0'] * 6)
    inh.setValue('g1')
    check('inh follow', [x() for x in (inh, a, b, n, na, nb)], ['g1'] * 6)
    a.set('A'); n.set('N')
    check('inh own', [x() for x in (inh, a, b, n, na, nb)],
          ['g1', 'A', 'g1', 'N', 'N', 'N'])
    na.set('NA'); inh.set('g2')
    check('inh general change', [x() for x in (inh, a, b, n, na, nb)],
          ['g2', 'A', 'g2', 'N', 'NA', 'N'])
    n.set('N2')
    check('inh network change', [x() for x in (inh, a, b, n, na, nb)],
          ['g2', 'A', 'g2', 'N2', 'NA', 'N2'])
    a._setValue(inh.value, inherited=True)      # what 'config reset' does
    na._setValue(n.value, inherited=True)
    inh.set('g3')
    check('inh after reset', [x() for x in (inh, a, b, n, na, nb)],
          ['g3', 'g3', 'g3', 'N2', 'N2', 'N2'])
    n._setValue(inh.value, inherited=True)
    inh.set('g4'); b.set('B')
    check('inh after network reset', [x() for x in (inh, a, b, n, na, nb)],
          ['g4', 'g4', 'B', 'g4', 'g4', 'g4'])
    check('inh flags', [x._wasSet for x in (inh, a, b, n, na, nb)],
          [True, False, True, False, False, False])
    with inh.context('tmp'):
        check('inh context', [inh(), a(), b()], ['tmp', 'tmp', 'B'])
    check('inh context left', [inh(), a(), b()], ['g4', 'g4', 'B'])
    expected_inh = [x() for x in (inh, a, b, n, na, nb)]
    check('getValues short',
          [k for (k, _) in inh.getValues(fullNames=False)], ['#b'])
    check('getValues full', [k for (k, _) in inh.getValues(getChildren=True)],
          ['supybot.demoC1.inherit.#b'])

    ###
    # 5. save, clobber, reload
    ###
    f1 = os.path.join(d, 'conf', 'one.conf')
    u1 = os.path.join(d, 'conf', 'uone.conf')
    registry.close(root, f1)
    registry.close(uroot, u1)
    text1 = open(f1, encoding='utf8').read()
    check('file is ASCII', text1.isascii(), True)
    check('followers are not written', '#follower' in text1, False)
    digest = hashlib.sha256(text1.encode('utf8')).hexdigest()

    def clobber(r, allspecs):
        for (name, factory, how, values) in allspecs:
            if name == 're':
                # Regexp.__call__ does not look at a reloaded file (it does
                # so on the unmodified tree too): left alone here, and read
                # from the file in the "restart" part below.
                continue
            for i in range(len(values)):
                v = r.get(name).get('v%d' % i)
                for level in LEVELS:
                    node(v, level)._setValue(factory().value, inherited=False)
    clobber(root, specs); clobber(uroot, uspecs)
    for x in (inh, b):   # the ones that have a value of their own
        x.set('clobbered')
    registry.open_registry(f1)
    registry.open_registry(u1)
    verify(root, expected, 'after reload')
    verify(uroot, uexpected, 'after reload')
    check('inh after reload', [x() for x in (inh, b)], ['g4', 'B'])
    f2 = os.path.join(d, 'conf', 'two.conf')
    registry.close(root, f2)
    check('second save is identical',
          open(f2, encoding='utf8').read() == text1, True)

    ###
    # 6. "restart": forget the variables, load the file, register them anew
    ###
    for (name, factory, how, values) in specs + [('inherit',) + (None,) * 3]:
        root.unregister(name)
    for (name, factory, how, values) in uspecs:
        uroot.unregister(name)
    registry.open_registry(f1, clear=True)
    registry.open_registry(u1)
    def rebuild(r, allspecs):
        for (name, factory, how, values) in allspecs:
            grp = conf.registerGroup(r, name)
            for i in range(len(values)):
                v = conf.registerChannelValue(grp, 'v%d' % i, factory())
                # the specific values of the file exist without being asked
                for level in LEVELS[1:]:
                    kids = v._children
                    for part in level:
                        check('%s has %s' % (v._name, part),
                              part in kids, True)
                        kids = kids[part]._children if part in kids else {}
                check('%s has no follower' % v._name,
                      '#follower' in v._children, False)
    rebuild(root, specs); rebuild(uroot, uspecs)
    inh = conf.registerChannelValue(root, 'inherit',
                                    registry.String('g0', 'Inheritance.'))
    check('inherit children after restart', sorted(inh._children.keys()),
          ['#b'])
    f3 = os.path.join(d, 'conf', 'three.conf')
    registry.close(root, f3)
    check('save after restart is identical',
          open(f3, encoding='utf8').read() == text1, True)
    verify(root, expected, 'after restart')
    verify(uroot, uexpected, 'after restart')
    check('inh after restart',
          [inh(), inh.get('#a')(), inh.get('#b')(), inh.get(':net')(),
           inh.get(':net').get('#a')()], ['g4', 'g4', 'B', 'g4', 'g4'])
    inh.set('g5')
    check('inh follows after restart',
          [inh.get('#a')(), inh.get('#b')(), inh.get(':net').get('#a')()],
          ['g5', 'B', 'g5'])

    ###
    # 7. files that must not load
    ###
    for (i, body) in enumerate(['no separator here\n', 'key:value\n',
                                'supybot.x: bad \\x escape\n']):
        bad = os.path.join(d, 'conf', 'bad%d.conf' % i)
        with open(bad, 'w') as fd:
            fd.write(body)
        try:
            registry.open_registry(bad)
        except registry.InvalidRegistryFile:
            pass
        else:
            problems.append('bad file %d was loaded' % i)
    ok = os.path.join(d, 'conf', 'ok.conf')
    with open(ok, 'w') as fd:
        fd.write('# comment\n\n   \nsupybot.k1: a\\\n   b\\\\\n'
                 'supybot.k2:  x: y \nsupybot.k3: dangling\\\n')
    registry.open_registry(ok)
    check('hand-written file', (registry._cache['supybot.k1'],
                                registry._cache['SUPYBOT.K2'],
                                'supybot.k3' in registry._cache),
          ('a   b\\', ' x: y ', False))

    if GOLDEN != '@@' + 'GOLDEN@@':
        check('file contents digest', digest, GOLDEN)
    else:
        print('digest:', digest)

    if problems:
        for p in problems[:15]:
            print('  ' + p[:300])
        print('FAIL: %d of %d checks failed' % (len(problems), nchecks[0]))
        code = 1
    else:
        print('PASS: %d checks' % nchecks[0])
        code = 0
except BaseException:
    traceback.print_exc()
    for p in problems[:15]:
        print('  ' + p[:300])
    print('FAIL (exception)')
    code = 1
sys.stdout.flush()
sys.stderr.flush()
os._exit(code)
