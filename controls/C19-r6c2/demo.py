#!/usr/bin/env python
"""Equivalence demo for the C19 controls (outgoing queue of irclib.Irc).

Drives IrcMsgQueue and Irc.queueMsg/sendMsg/takeMsg/die/reset through a few
hundred deterministic pseudo-random scripts under a virtual clock, with
non-default configuration, outFilters that drop / rewrite / queue / raise,
over-long and tagged messages, error paths (bad arguments, missing driver,
STARTTLS refusal, double death).  Every observable result (return values,
exceptions, messages handed to the "driver", messages fed back as echoes,
log calls, driver calls, clock reads, public attributes after each step) is
appended to a transcript whose SHA-256 is compared with the one recorded on
the unmodified tree.
"""
import os
import sys
import json
import time
import random
import shutil
import hashlib
import tempfile
import traceback

EXPECTED = '091941fc7c0f2ebb9ca102ab901d73bc2f70b2873249a698f93fdbc5000eab48'

os.environ['TZ'] = 'UTC'
time.tzset()
sys.path.insert(0, os.path.join(os.getcwd(), 'src'))
sys.path.insert(0, os.getcwd())


def main():
    base = tempfile.mkdtemp(prefix='c19demo')
    for d in ('data', 'conf', 'logs'):
        os.mkdir(os.path.join(base, d))
    regfile = os.path.join(base, 'conf', 'demo.conf')
    with open(regfile, 'w') as fd:
        fd.write("""
supybot.directories.data: %(b)s/data
supybot.directories.conf: %(b)s/conf
supybot.directories.log: %(b)s/logs
supybot.log.stdout: False
supybot.log.level: CRITICAL
supybot.log.plugins.individualLogfiles: False
supybot.networks.test.server: should.not.need.this
supybot.networks.test.ssl: False
supybot.nick: demo
supybot.ident: demoid
supybot.user: demo user
""" % {'b': base})
    import supybot.registry as registry
    registry.open_registry(regfile)
    import supybot.log as log
    import supybot.conf as conf
    conf.supybot.flush.setValue(False)
    import supybot.world as world
    import supybot.irclib as irclib
    import supybot.ircmsgs as ircmsgs
    import supybot.ircutils as ircutils
    from supybot.utils.structures import smallqueue, TimeoutQueue
    conf.registerNetwork('test')

    obs = []

    def rec(*a):
        obs.append(a)

    def norm(x):
        """A stable, address-free rendering of any value."""
        if isinstance(x, ircmsgs.IrcMsg):
            return ('IrcMsg', str(x), repr(x), x.channel,
                    sorted((k, v is True or str(v))
                           for (k, v) in x.tags.items()
                           if k not in ('receivedBy',)),
                    x._len)
        if isinstance(x, (list, tuple, smallqueue)):
            return [type(x).__name__] + [norm(y) for y in x]
        if isinstance(x, (str, int, float, bool, type(None))):
            return x
        if isinstance(x, irclib.Irc):
            return ('Irc', str(x), repr(x))
        if isinstance(x, BaseException):
            return ('EXC', type(x).__name__, str(x))
        return ('OBJ', type(x).__name__)

    # ---- log calls -------------------------------------------------------
    def mklog(level):
        def f(fmt, *args, **kw):
            if isinstance(fmt, str) and fmt.startswith('Irc object killed'):
                args = ('<stack>',)       # contains file names / line numbers
            exc = None
            if level == 'exception':
                e = sys.exc_info()[1]
                exc = norm(e) if e else None
            rec('log', level, fmt if isinstance(fmt, str) else norm(fmt),
                [norm(a) for a in args], sorted(kw), exc)
        return f
    for level in ('debug', 'info', 'warning', 'error', 'critical',
                  'exception'):
        setattr(log, level, mklog(level))

    # ---- clock -------------------------------------------------------------
    class Clock(object):
        def __init__(self):
            self.now = 1000000.0
            self.reads = 0
            self.step = 0.0

        def time(self):
            self.reads += 1
            self.now += self.step
            return self.now
    clock = Clock()
    irclib.time = clock

    labels = [0]

    def makeLabel():
        labels[0] += 1
        rec('makeLabel', labels[0])
        return 'label%d' % labels[0]
    ircutils.makeLabel = makeLabel

    # ---- driver ------------------------------------------------------------
    class Driver(object):
        def __init__(self, name):
            self.name = name

        def die(self):
            rec('driver.die', self.name)

        def reconnect(self, *a, **kw):
            rec('driver.reconnect', self.name, norm(list(a)), sorted(kw))

    class NoDieDriver(object):
        def reconnect(self, *a, **kw):
            rec('nodie.reconnect')

    # ---- callbacks ---------------------------------------------------------
    class Cb(irclib.IrcCallback):
        def __init__(self, name, mode, rng):
            self._name = name
            self.mode = mode
            self.rng = rng
            self.budget = 6

        def name(self):
            return self._name

        def reset(self):
            rec('cb.reset', self._name)
            if self.mode == 'badreset':
                raise ValueError('reset of %s' % self._name)

        def die(self):
            rec('cb.die', self._name)

        def inFilter(self, irc, msg):
            rec('cb.inFilter', self._name, norm(msg))
            return msg

        def __call__(self, irc, msg):
            rec('cb.call', self._name, norm(msg))

        def outFilter(self, irc, msg):
            rec('cb.outFilter', self._name, self.mode, norm(msg))
            m = self.mode
            if m == 'pass':
                return msg
            if m == 'dropnotice':
                return None if msg.command == 'NOTICE' else msg
            if m == 'dropodd':
                return None if len(str(msg)) % 2 else msg
            if m == 'dropall':
                return None
            if m == 'rewrite':
                if msg.command == 'PRIVMSG':
                    return ircmsgs.IrcMsg(command='NOTICE',
                                          args=(msg.args[0],
                                                msg.args[1].upper()))
                return msg
            if m == 'requeue':
                # keeps queuing messages that it then drops
                if msg.command == 'WHO' and self.budget > 0:
                    self.budget -= 1
                    rec('requeue.q', irc.queueMsg(ircmsgs.who('#again%d'
                                                              % self.budget)))
                    irc.sendMsg(ircmsgs.IrcMsg(command='WHO',
                                               args=('#fast%d'
                                                     % self.budget,)))
                    return None
                return msg
            if m == 'raise':
                if msg.command == 'TOPIC':
                    raise RuntimeError('outFilter of %s' % self._name)
                return msg
            if m == 'badreset':
                return msg
            raise AssertionError(m)

    # ---- messages ----------------------------------------------------------
    class NoCommand(object):
        def __str__(self):
            return 'nocommand'

    def mkmsg(rng):
        k = rng.randrange(30)
        n = rng.randrange(4)
        chan = '#c%d' % n
        if k == 0:
            return ircmsgs.mode(chan, ('+o', 'n%d' % n))
        if k == 1:
            return ircmsgs.kick(chan, 'n%d' % n, 'bye')
        if k == 2:
            return ircmsgs.pong('p%d' % n)
        if k == 3:
            return ircmsgs.nick('nick%d' % n)
        if k == 4:
            return ircmsgs.IrcMsg(command='PASS', args=('pw%d' % n,))
        if k == 5:
            return ircmsgs.IrcMsg(command='REMOVE', args=(chan, 'n%d' % n))
        if k == 6:
            return ircmsgs.IrcMsg(command='CAPAB', args=('x',))
        if k in (7, 8, 9):
            return ircmsgs.privmsg(chan, 'hello %d' % rng.randrange(3))
        if k == 10:
            return ircmsgs.ping('t%d' % n)
        if k in (11, 12):
            return ircmsgs.who(chan)
        if k in (13, 14):
            return ircmsgs.notice('n%d' % n, 'note %d' % rng.randrange(3))
        if k in (15, 16, 17, 18):
            return ircmsgs.join(chan)
        if k == 19:
            return ircmsgs.topic(chan, 'topic %d' % n)
        if k == 20:
            return ircmsgs.part(chan)
        if k == 21:
            return ircmsgs.IrcMsg(command='TAGMSG', args=(chan,),
                                  server_tags={'+typing': 'active'})
        if k == 22:
            # over-long, multi-byte; the cut falls inside a character
            return ircmsgs.privmsg(chan, 'x' * rng.randrange(3)
                                   + 'é€' * 200)
        if k == 23:
            return ircmsgs.IrcMsg(command='PRIVMSG',
                                  args=('@' + chan, 'to ops ' + 'y' * 600),
                                  server_tags={'+draft/reply': 'abc',
                                               'label': 'mine'})
        if k == 24:
            return ircmsgs.IrcMsg(command='privmsg', args=(chan, 'lower'))
        if k == 25:
            return ircmsgs.IrcMsg(command='NOTICE', args=('+' + chan, 'v'),
                                  server_tags={'k': 'v'})
        if k == 26:
            return ircmsgs.IrcMsg(command='QUIT', args=('gone',))
        if k == 27:
            return ircmsgs.IrcMsg(command='JOIN', args=(chan, 'key'))
        if k == 28:
            return ircmsgs.IrcMsg(command='CAP', args=('REQ', 'echo-message'))
        return ircmsgs.IrcMsg(command='WHO', args=('n%d' % n,))

    def attempt(label, f, *a):
        try:
            r = f(*a)
        except Exception as e:
            rec(label, 'raised', norm(e))
            return None
        rec(label, 'returned', norm(r))
        return r

    def snapshot(irc):
        q = irc.queue
        rec('snap', len(q), bool(q), repr(q), str(q), q.lastJoin,
            norm(list(q.highpriority)), norm(list(q.normal)),
            norm(list(q.lowpriority)),
            len(irc.fastqueue), repr(irc.fastqueue), irc.lastTake,
            irc.lastping, irc.outstandingPing, irc.zombie,
            irc.afterConnect, irc in world.ircs, len(world.ircs),
            len(irc.state.history), clock.reads, clock.now,
            [cb.name() for cb in irc.callbacks], irc.nick, irc.prefix)

    irc_conf = conf.supybot.protocols.irc

    def configure(rng):
        irc_conf.throttleTime.setValue(rng.choice([0.0, 0.0, 0.5, 1.0, 2.5]))
        irc_conf.queuing.rateLimit.join.setValue(
            rng.choice([0.0, 1.0, 3.0, 10.0]))
        irc_conf.queuing.duplicates.setValue(rng.choice([False, True, True]))
        irc_conf.ping.setValue(rng.choice([True, True, False]))
        irc_conf.ping.interval.setValue(rng.choice([5, 30, 120]))
        irc_conf.strictRfc.setValue(rng.choice([False, False, True]))
        rec('conf', irc_conf.throttleTime(), irc_conf.queuing.rateLimit.join(),
            irc_conf.queuing.duplicates(), irc_conf.ping(),
            irc_conf.ping.interval(), irc_conf.strictRfc())

    modes = ['pass', 'dropnotice', 'dropodd', 'dropall', 'rewrite',
             'requeue', 'raise', 'badreset']

    # ---- 1. IrcMsgQueue on its own ----------------------------------------
    def queue_script(seed):
        rng = random.Random(seed)
        rec('queue_script', seed)
        configure(rng)
        clock.step = rng.choice([0.0, 0.25])
        pool = [mkmsg(rng) for _ in range(12)]
        q = attempt('ctor', irclib.IrcMsgQueue,
                    [rng.choice(pool) for _ in range(rng.randrange(5))])
        for i in range(60):
            op = rng.randrange(12)
            if op < 5:
                attempt('enqueue', q.enqueue, rng.choice(pool))
            elif op < 8:
                attempt('dequeue', q.dequeue)
            elif op == 8:
                attempt('contains', q.__contains__, rng.choice(pool))
                attempt('contains2', q.__contains__,
                        ircmsgs.IrcMsg(msg=rng.choice(pool)))
            elif op == 9:
                clock.now += rng.choice([0.1, 1.0, 4.0, 20.0])
            elif op == 10:
                if rng.random() < 0.3:
                    attempt('qreset', q.reset)
                else:
                    configure(rng)
            else:
                attempt('enqueue-bad', q.enqueue,
                        rng.choice([None, NoCommand(), 'PRIVMSG']))
            rec('q', len(q), bool(q), q.__nonzero__(), repr(q), str(q),
                q.lastJoin, len(q.highpriority), len(q.normal),
                len(q.lowpriority), clock.reads)
        while q:
            clock.now += 0.7
            attempt('drain', q.dequeue)
        attempt('dequeue-empty', q.dequeue)
        rec('q-end', repr(q), q.lastJoin, clock.reads,
            sorted(irclib.IrcMsgQueue.__slots__))

    # ---- 2. whole Irc objects ---------------------------------------------
    def irc_script(seed):
        rng = random.Random(seed)
        rec('irc_script', seed)
        configure(rng)
        world.testing = rng.random() < 0.5
        clock.step = rng.choice([0.0, 0.0, 0.125])
        cbs = [Cb('cb%d' % i, rng.choice(modes), rng)
               for i in range(rng.randrange(4))]
        if rng.random() < 0.1:
            cbs = []
        irc = irclib.Irc('test', callbacks=cbs)
        irc.driver = Driver('d%d' % seed)
        if rng.random() < 0.5:
            irc.afterConnect = True
        if rng.random() < 0.3:
            irc.state.capabilities_ack.add('labeled-response')
        if rng.random() < 0.3:
            irc.state.capabilities_ack.add('echo-message')
        snapshot(irc)
        pool = [mkmsg(rng) for _ in range(10)]
        sent = []
        dead = 0
        for i in range(rng.randrange(20, 90)):
            if irc not in world.ircs:
                dead += 1
                if dead > 4:
                    break
            op = rng.randrange(100)
            if op < 30:
                m = rng.choice(pool) if rng.random() < 0.4 else mkmsg(rng)
                attempt('queueMsg', irc.queueMsg, m)
            elif op < 40:
                m = rng.choice(pool) if rng.random() < 0.4 else mkmsg(rng)
                attempt('sendMsg', irc.sendMsg, m)
            elif op < 75:
                m = attempt('takeMsg', irc.takeMsg)
                if m is not None:
                    sent.append(str(m))
            elif op < 83:
                clock.now += rng.choice([0.05, 0.5, 1.0, 3.0, 11.0, 200.0])
                rec('advance', clock.now)
            elif op < 85:
                attempt('die', irc.die)
            elif op < 89:
                attempt('reset', irc.reset)
            elif op < 92:
                configure(rng)
            elif op < 94:
                irc.afterConnect = not irc.afterConnect
                rec('afterConnect', irc.afterConnect)
            elif op < 96:
                irc.outstandingPing = False
                rec('pong')
            elif op < 97:
                attempt('queueMsg-bad', irc.queueMsg,
                        rng.choice([None, NoCommand()]))
            elif op < 98:
                attempt('sendMsg-bad', irc.sendMsg, rng.choice([None, '']))
            elif op < 99:
                irc.driver = rng.choice([None, NoDieDriver(),
                                         Driver('late%d' % seed)])
                rec('driver', type(irc.driver).__name__)
            else:
                attempt('_takeMsg', irc._takeMsg)
            snapshot(irc)
        # quit: everything that is still queued must come out
        if not isinstance(irc.driver, Driver):
            irc.driver = Driver('final%d' % seed)
        attempt('die-final', irc.die)
        for i in range(400):
            if irc not in world.ircs:
                break
            clock.now += 1.5
            m = attempt('drain', irc.takeMsg)
            if m is not None:
                sent.append(str(m))
        snapshot(irc)
        attempt('after-death-take', irc.takeMsg)
        attempt('after-death-queue', irc.queueMsg, mkmsg(rng))
        attempt('after-death-send', irc.sendMsg, mkmsg(rng))
        attempt('after-death-reset', irc.reset)
        attempt('after-death-die', irc.die)
        snapshot(irc)
        rec('sent', sent)
        while irc in world.ircs:
            world.ircs.remove(irc)

    # ---- 3. fixed scenarios -----------------------------------------------
    def fixed():
        rec('fixed')
        world.testing = False
        clock.step = 0.0
        irc_conf.throttleTime.setValue(1.0)
        irc_conf.queuing.rateLimit.join.setValue(5.0)
        irc_conf.queuing.duplicates.setValue(True)
        irc_conf.ping.setValue(True)
        irc_conf.ping.interval.setValue(10)
        irc_conf.strictRfc.setValue(False)
        # a) priorities, FIFO, JOIN overtaken but not dropped, throttle
        irc = irclib.Irc('test', callbacks=[Cb('only', 'pass', None)])
        irc.driver = Driver('fixed-a')
        while irc.fastqueue:
            attempt('a-connect', irc.takeMsg)
        for m in (ircmsgs.join('#a'), ircmsgs.join('#b'),
                  ircmsgs.privmsg('#a', '1'), ircmsgs.topic('#a', 't'),
                  ircmsgs.mode('#a', ('+v', 'x')), ircmsgs.join('#a'),
                  ircmsgs.privmsg('#a', '1'), ircmsgs.part('#z'),
                  ircmsgs.kick('#a', 'x'), ircmsgs.notice('x', '2')):
            attempt('a-queue', irc.queueMsg, m)
        snapshot(irc)
        for i in range(40):
            clock.now += 0.6
            attempt('a-take', irc.takeMsg)
            snapshot(irc)
        # b) ping: sent, unanswered -> error fed + reconnect
        irc.afterConnect = True
        for i in range(6):
            clock.now += 6
            attempt('b-take', irc.takeMsg)
            snapshot(irc)
        # c) die while JOINs are rate-limited; sendMsg refused afterwards
        irc.outstandingPing = False
        for c in 'pqr':
            attempt('c-queue', irc.queueMsg, ircmsgs.join('#' + c))
        attempt('c-die', irc.die)
        attempt('c-queue-zombie', irc.queueMsg, ircmsgs.join('#no'))
        attempt('c-send-zombie', irc.sendMsg, ircmsgs.join('#no'))
        for i in range(30):
            clock.now += 1.01
            attempt('c-take', irc.takeMsg)
            snapshot(irc)
            if irc not in world.ircs:
                break
        attempt('c-take-dead', irc.takeMsg)
        attempt('c-reallyDie-again', irc._reallyDie)
        # d) no callbacks at all; zombie before connection; reset of zombie
        irc = irclib.Irc('test', callbacks=[])
        irc.driver = Driver('fixed-d')
        attempt('d-take', irc.takeMsg)
        attempt('d-die', irc.die)
        snapshot(irc)
        attempt('d-reset', irc.reset)
        snapshot(irc)
        # e) two Ircs sharing callbacks: only the last one kills them
        shared = [Cb('s1', 'pass', None), Cb('s2', 'dropnotice', None)]
        i1 = irclib.Irc('test', callbacks=shared)
        i2 = irclib.Irc('test', callbacks=shared)
        i1.driver = Driver('e1')
        i2.driver = NoDieDriver()
        attempt('e-die1', i1.die)
        snapshot(i1)
        snapshot(i2)
        i2.afterConnect = True
        attempt('e-die2', i2.die)
        for i in range(8):
            clock.now += 2
            attempt('e-take2', i2.takeMsg)
        snapshot(i2)
        # f) STARTTLS refusal on reset
        net = conf.supybot.networks.test
        irc = irclib.Irc('test', callbacks=[Cb('f', 'badreset', None)])
        irc.driver = Driver('fixed-f')
        attempt('f-reset-ok', irc.reset)
        net.requireStarttls.setValue(True)
        attempt('f-reset', irc.reset)
        snapshot(irc)
        attempt('f-ctor', irclib.Irc, 'test', [])
        net.requireStarttls.setValue(False)
        del world.ircs[:]
        # g) password, label, echo emulation outside of tests
        net.password.setValue('sekrit')
        irc = irclib.Irc('test', callbacks=[Cb('g', 'rewrite', None)])
        net.password.setValue('')
        irc.driver = Driver('fixed-g')
        irc.state.capabilities_ack.add('labeled-response')
        m = ircmsgs.privmsg('#g', 'again')
        for i in range(8):
            clock.now += 2
            attempt('g-take', irc.takeMsg)
            if i in (3, 5):
                attempt('g-requeue-same-object', irc.queueMsg, m)
        snapshot(irc)
        # h) _truncateMsg directly
        for m in (ircmsgs.privmsg('#h', 'z' * 600),
                  ircmsgs.IrcMsg(command='PRIVMSG', args=('#h', 'w' * 505),
                                 server_tags={'a': 'b'}),
                  ircmsgs.IrcMsg(command='PRIVMSG',
                                 args=('#h', 'q' * 499 + '\U0001f600' * 3)),
                  ircmsgs.privmsg('#h', 'short')):
            attempt('h-trunc', irc._truncateMsg, m)
            rec('h', norm(m), len(str(m).encode('utf-8')))
        del world.ircs[:]
        # i) structures
        sq = smallqueue()
        for i in range(5):
            sq.enqueue(i)
        rec('sq', repr(sq), sq.peek(), sq.dequeue(), list(sq), len(sq),
            bool(sq))
        sq.reset()
        rec('sq2', repr(sq), bool(sq), attempt('sq-empty', sq.dequeue),
            attempt('sq-peek-empty', sq.peek))
        real = time.time()
        class Five(object):
            def __call__(self):
                return 5

            def __repr__(self):
                return 'Five()'
        for timeout in (5, Five()):
            tq = TimeoutQueue(timeout)
            tq.enqueue('old', at=real - 100)
            tq.enqueue('new', at=real + 1000)
            tq.enqueue('newer', at=real + 2000)
            rec('tq', list(tq), len(tq), tq.dequeue(), len(tq),
                repr(tq).replace(repr(real + 2000), 'T'))
            tq.setTimeout(10 ** 9)
            tq.reset()
            rec('tq2', len(tq), list(tq), attempt('tq-empty', tq.dequeue))

    try:
        for seed in range(60):
            queue_script(seed)
        for seed in range(400):
            irc_script(1000 + seed)
        fixed()
        ok = True
    except BaseException:
        traceback.print_exc()
        ok = False
    finally:
        shutil.rmtree(base, ignore_errors=True)

    blob = json.dumps(obs, sort_keys=True, default=repr).encode('utf-8')
    digest = hashlib.sha256(blob).hexdigest()
    kinds = {}
    for o in obs:
        key = o[0] if o[0] != 'log' else 'log:' + str(o[2])[:40]
        kinds[key] = kinds.get(key, 0) + 1
    if '--dump' in sys.argv:
        with open(sys.argv[sys.argv.index('--dump') + 1], 'w') as fd:
            for o in obs:
                fd.write(json.dumps(o, sort_keys=True, default=repr) + '\n')
    if '--kinds' in sys.argv:
        for k in sorted(kinds):
            print('%6d %s' % (kinds[k], k))
    print('observations: %d  digest: %s' % (len(obs), digest))
    if ok and digest == EXPECTED:
        print('PASS')
        return 0
    print('FAIL (expected %s)' % EXPECTED)
    return 1


if __name__ == '__main__':
    code = 1
    try:
        code = main()
    except BaseException:
        traceback.print_exc()
    sys.stdout.flush()
    sys.stderr.flush()
    os._exit(code)
