# Self-contained equivalence demo for the C06 controls ("every message handed
# to the network is exactly one well-formed line").
#
# It drives the real code (message classes, builders, wrapping helpers, the
# queue, Irc.takeMsg, the reply machinery with real plugins, the Socket
# driver over a fake socket), records every observable result (return values,
# exceptions, messages taken by the driver, bytes written on the socket, log
# calls), and compares a digest of the whole record with the one recorded on
# the unmodified tree.
#
#   cd <worktree> && python _mutants/cN/demo.py      -> PASS / FAIL
#   DEMO_DUMP=/some/file python _mutants/cN/demo.py   -> also writes the record
import os, sys, re, time, tempfile, hashlib, logging, traceback, itertools

if os.environ.get('PYTHONHASHSEED') != '0':
    # Set iteration order must be the same in the recording and in the
    # comparing run.
    os.environ['PYTHONHASHSEED'] = '0'
    os.execv(sys.executable, [sys.executable] + sys.argv)

EXPECTED = '2ae78d3844f65430e1dbcaa921e353def87b732f046d3b734bf368b77a3056e0'

sys.path.insert(0, os.getcwd())
_d = tempfile.mkdtemp(prefix='c06demo')
_regf = os.path.join(_d, 'test.conf')
with open(_regf, 'w') as f:
    for (k, v) in [('data', 'data'), ('conf', 'conf'), ('log', 'log'),
                   ('backup', 'backup'), ('data.tmp', 'tmp'),
                   ('data.web', 'web')]:
        f.write('supybot.directories.%s: %s\n' % (k, os.path.join(_d, v)))
    f.write('supybot.log.stdout: False\n')
    f.write('supybot.log.level: CRITICAL\n')
    f.write('supybot.reply.whenAddressedBy.chars: @\n')
    f.write('supybot.abuse.flood.command: False\n')
    f.write('supybot.abuse.flood.command.invalid: False\n')
    f.write('supybot.protocols.irc.throttleTime: 0.0\n')
    f.write('supybot.nick: bot\n')
    f.write('supybot.networks.test.servers: irc.example:6667\n')
    f.write('supybot.networks.test.ssl: False\n')
import supybot.registry as registry
registry.open_registry(_regf)
import supybot.log as log
import supybot.conf as conf
import supybot.world as world
import supybot.utils as utils
import supybot.ircdb as ircdb
import supybot.irclib as irclib
import supybot.ircmsgs as ircmsgs
import supybot.ircutils as ircutils
import supybot.callbacks as callbacks
import supybot.plugin as plugin
import supybot.drivers as drivers
import supybot.drivers.Socket as Socket
from supybot.commands import wrap

conf.registerNetwork('test')
conf.supybot.networks.test.ssl.setValue(False)

###
# The record.
###
RECORD = []
_addrRe = re.compile(r'0x[0-9a-fA-F]+')
_tmpRe = re.compile(re.escape(_d))
_stampRe = re.compile(r'\d{4}-\d\d-\d\dT\d\d:\d\d:\d\d')
def scrub(s):
    if 'Reconnecting to' in s:
        s = _stampRe.sub('<time>', s)
    return _tmpRe.sub('<tmp>', _addrRe.sub('0x?', s))
def rec(*items):
    RECORD.append(scrub(repr(items)))

class Capture(logging.Handler):
    """Every log call is part of the record (level, format, arguments)."""
    skip = ('Exception id',
            'findCallbacksForArgs', 'Locals by frame')
    def emit(self, record):
        try:
            text = record.getMessage()
        except Exception as e:
            text = 'unformattable %r %r' % (record.msg, record.args)
        if record.exc_info:
            text += ' / exc=%s: %s' % (record.exc_info[0].__name__,
                                       record.exc_info[1])
        for s in self.skip:
            if s in text:
                return
        rec('LOG', record.levelname, text)
_capture = Capture()
_capture.setLevel(logging.DEBUG)
log._logger.addHandler(_capture)
log._logger.setLevel(logging.DEBUG)

def attempt(label, f, *args, **kwargs):
    """Records the result or the exception of a call."""
    try:
        r = f(*args, **kwargs)
    except BaseException as e:
        rec(label, 'RAISED', type(e).__name__, str(e))
        return None
    rec(label, 'RETURNED', describe(r))
    return r

def describe(x):
    if isinstance(x, ircmsgs.IrcMsg):
        return ('IrcMsg', str(x), x.prefix, x.command, x.args,
                sorted(x.server_tags.items(), key=repr), x.nick, x.user,
                x.host, repr(x), len(x),
                sorted((k, describe(v)) for (k, v) in x.tags.items()
                       if k not in ('receivedAt', 'receivedBy')))
    if isinstance(x, (list, tuple)):
        return type(x).__name__, [describe(y) for y in x]
    if isinstance(x, irclib.Irc):
        return 'Irc'
    return repr(x)

###
# A strictly increasing clock for irclib (the throttle compares with <=).
###
class Clock(object):
    def __init__(self, real):
        self._real = real
        self.now = 1700000000.0
    def time(self):
        self.now += 0.25
        return self.now
    def __getattr__(self, attr):
        return getattr(self._real, attr)
irclib.time = Clock(time)

###
# Part A: message class, builders, helpers.
###
NASTY = ['', 'x', 'hello world', ' lead', 'trail ', ':colon', 'a:b', 'a\nb',
         'a\rb', 'a\x00b', 'a\r\nQUIT :x', '\x02bold\x02', '\x0304,05col\x03',
         'éè', '\U0001f600 face', 'x' * 600, '€' * 300,
         '\x01ACTION x\x01', '\ud800']

def partA():
    # -- constructor / __str__ / parsing
    prefixes = ['', 'nick', 'nick!user@host', 'irc.server.example']
    argsets = [(), ('a',), ('',), ('a', 'b'), ('a', 'b c'), ('a', ''),
               ('a', ':b'), ('#c', 'x', 'y z'), ('a b', 'c'), ['l', 'm'],
               ('a', ['nonstring']), ('a', 5), (5,), ('a', None), ('a', b'b')]
    tagsets = [None, {}, {'k': None}, {'k': 'v'}, {'a': 'x y;z\\w\r\n', 'b': None},
               {'+draft/reply': 'id1', 'time': '2020-01-01T00:00:00.000Z'}]
    for (p, a, t) in itertools.product(prefixes, argsets, tagsets):
        for cmd in ('PRIVMSG', 'FOO'):
            m = attempt(('ctor', p, a, t, cmd), ircmsgs.IrcMsg, prefix=p,
                        command=cmd, args=a, server_tags=t)
            if m is not None:
                attempt(('str', p, a, t, cmd), str, m)
                attempt(('str2', p, a, t, cmd), str, m)
                attempt(('len', p, a, t, cmd), len, m)
                try:
                    line = str(m)
                except Exception:
                    continue
                m2 = attempt(('reparse', line), ircmsgs.IrcMsg, line)
                if m2 is not None:
                    rec('eq', line, m == m2, m != m2, hash(m) == hash(m2))
                    attempt(('reduce', line),
                            lambda: (m2.__reduce__()[0].__name__,
                                     m2.__reduce__()[1]))
    for s in NASTY:
        for a in [(s,), ('#chan', s), (s, 'x')]:
            attempt(('ctor-nasty', a), ircmsgs.IrcMsg, command='PRIVMSG',
                    args=a)
            base = ircmsgs.IrcMsg(prefix='n!u@h', command='PRIVMSG',
                                  args=('#chan', 'base'))
            base.tag('t', 1)
            attempt(('ctor-msg-nasty', a), ircmsgs.IrcMsg, msg=base, args=a)
    base = ircmsgs.IrcMsg('@msgid=abc;x :n!u@h PRIVMSG #chan :hello there')
    base.tag('inReplyTo', 'x')
    base.reply_env = {'k': 'v'}
    for kw in [{}, {'prefix': 'p!q@r'}, {'command': 'NOTICE'},
               {'args': ('#other', 'text')}, {'reply_env': {'z': 'y'}},
               {'prefix': 'a', 'command': 'B', 'args': ('c',)}]:
        m = attempt(('ctor-msg', sorted(kw.items())), ircmsgs.IrcMsg,
                    msg=base, **kw)
        if m is not None:
            rec('ctor-msg-env', m.reply_env, m.reply_env is base.reply_env,
                m.tags is base.tags, m.server_tags is base.server_tags,
                m.time == base.time)
    attempt('ctor-none', ircmsgs.IrcMsg)
    attempt('ctor-both', ircmsgs.IrcMsg, 'PING x', msg=base)
    raw = ['PING', 'PING :x', ':srv 001 bot :Welcome', ':srv 001 bot :', ':', '',
           ' ', ':onlyprefix', ':p  CMD   a   b  :c  d ', 'CMD a b\r\n',
           'CMD a :b\r', 'CMD a :b\n', 'CMD :a :b', '@a=b CMD', '@a=b', '@ CMD',
           '@a=b;c;d=;e=\\s\\:\\\\\\r\\n\\x\\ :p!u@h CMD x :y z',
           '@time=2021-02-03T04:05:06.789Z CMD a', '@time CMD a',
           '@time=bad CMD a', '@time=2021-02-03T04:05:06Z CMD a',
           'CMD a\x00b :c\rd', 'CMD ::', 'CMD : ', ':p CMD', ':p',
           'PRIVMSG #c :\x01ACTION waves\x01', 'privmsg #c ::-)']
    for s in raw:
        m = attempt(('parse', s), ircmsgs.IrcMsg, s)
        if m is not None:
            rec('parse-time', s, m.time if 'time' in m.server_tags else 'now')
    for t in ['a', 'a=b', 'a=', 'a=b=c', '', ';', 'a;b=\\', 'x=\\s\\:\\\\\\r\\n',
              'k=\\q', '+c/d=v v']:
        attempt(('parse_tags', t), ircmsgs._parse_server_tags, t)
    for d in [{}, {'a': None}, {'a': ''}, {'a': 'b c', 'd': None, 'e': ';\\\r\n'}]:
        attempt(('format_tags', sorted(d.items(), key=repr)),
                ircmsgs._format_server_tags, d)
    # -- builders, both strictRfc settings
    chans = ['#chan', '#a,#b', 'nochan', '#bad chan', '']
    nicks = ['nick', 'bad nick', 'n\nQUIT', '']
    texts = ['', 'reason', 'multi word', 'x\nQUIT', 'x\rQUIT', 'x\x00y',
             'é' * 10]
    im = ircmsgs
    base = im.IrcMsg(':q!w@e PRIVMSG #chan :orig')
    for strict in (False, True):
        conf.supybot.protocols.irc.strictRfc.setValue(strict)
        for msgkw in ({}, {'msg': base}, {'prefix': 'me!i@h'},
                      {'msg': base, 'prefix': 'me!i@h'}):
            tag = ('strict', strict, sorted(msgkw))
            for (c, n, t) in itertools.product(chans, nicks, texts):
                attempt((tag, 'kick', c, n, t), im.kick, c, n, t, **msgkw)
                attempt((tag, 'kicks', c, n, t), im.kicks, [c], [n, 'o'], t,
                        **msgkw)
            attempt((tag, 'kicks-empty'), im.kicks, [], ['n'], 'x', **msgkw)
            attempt((tag, 'kicks-str'), im.kicks, '#chan', ['n'], **msgkw)
            for (c, t) in itertools.product(chans + ['nick', 'a,b'], texts):
                attempt((tag, 'privmsg', c, t), im.privmsg, c, t, **msgkw)
                attempt((tag, 'notice', c, t), im.notice, c, t, **msgkw)
                attempt((tag, 'action', c, t), im.action, c, t, **msgkw)
                attempt((tag, 'part', c, t), im.part, c, t, **msgkw)
                attempt((tag, 'parts', c, t), im.parts, [c, '#z'], t, **msgkw)
                attempt((tag, 'topic', c, t), im.topic, c, t, **msgkw)
                attempt((tag, 'join', c, t), im.join, c, t, **msgkw)
                attempt((tag, 'joins', c, t), im.joins, [c, '#z'], [t],
                        **msgkw)
                attempt((tag, 'invite', c, t), im.invite, t, c, **msgkw)
                attempt((tag, 'mode', c, t), im.mode, c, t, **msgkw)
                attempt((tag, 'mode2', c, t), im.mode, c, ['+l', 5, t],
                        **msgkw)
                attempt((tag, 'modes', c, t), im.modes, c,
                        [('+o', t), ('-v', 'x'), ('+m', None)], **msgkw)
                attempt((tag, 'ban', c, t), im.ban, c, 'a!b@c', t, **msgkw)
                attempt((tag, 'who', c, t), im.who, c, args=(t,), **msgkw)
            for c in chans + [None]:
                attempt((tag, 'topic-none', c), im.topic, c, **msgkw)
                attempt((tag, 'join-nokey', c), im.join, c, **msgkw)
                attempt((tag, 'names', c), im.names, c, **msgkw)
                attempt((tag, 'part-default', c), im.part, c, **msgkw)
            attempt((tag, 'names-default'), im.names, **msgkw)
            attempt((tag, 'joins-nokeys'), im.joins, ['#a', '#b'], **msgkw)
            attempt((tag, 'joins-toomany'), im.joins, ['#a'], ['k', 'l'],
                    **msgkw)
            attempt((tag, 'join-key-high'), im.join, '#a', 'ké', **msgkw)
            attempt((tag, 'joins-key-space'), im.joins, ['#a'], ['k k'],
                    **msgkw)
            for t in texts + [None, 5]:
                attempt((tag, 'quit', t), im.quit, t, **msgkw)
                attempt((tag, 'nick', t), im.nick, t, **msgkw)
                attempt((tag, 'user', t), im.user, 'ident', t, **msgkw)
                attempt((tag, 'user2', t), im.user, t, 'Real Name', **msgkw)
                attempt((tag, 'whois', t), im.whois, 'nick', t, **msgkw)
                attempt((tag, 'whowas', t), im.whowas, t, **msgkw)
                attempt((tag, 'password', t), im.password, t, **msgkw)
                attempt((tag, 'ison', t), im.ison, t, **msgkw)
                attempt((tag, 'monitor', t), im.monitor, '+', [t, 'b'],
                        **msgkw)
                attempt((tag, 'ping', t), im.ping, t, **msgkw)
                attempt((tag, 'pong', t), im.pong, t, **msgkw)
                attempt((tag, 'error', t), im.error, t)
                attempt((tag, 'kick-type', t), im.kick, '#chan', 'n', t,
                        **msgkw)
                attempt((tag, 'part-type', t), im.part, '#chan', t, **msgkw)
                attempt((tag, 'privmsg-type', t), im.privmsg, '#chan', t,
                        **msgkw)
            attempt((tag, 'quit-default'), im.quit, **msgkw)
            attempt((tag, 'monitor-C'), im.monitor, 'C', None, **msgkw)
            attempt((tag, 'monitor-str'), im.monitor, '-', 'a,b', **msgkw)
            attempt((tag, 'dcc'), im.dcc, 'nick', 'chat', 'a', 'b',
                    prefix='p')
            attempt((tag, 'dcc-bad'), im.dcc, 'nick', 'nope')
            attempt((tag, 'op'), im.op, '#chan', 'n\nx', **msgkw)
            attempt((tag, 'ops'), im.ops, '#chan', ['a', 'b'], **msgkw)
            attempt((tag, 'unbans'), im.unbans, '#chan', ['a!b@c', 'd!e@f'],
                    **msgkw)
            attempt((tag, 'limit'), im.limit, '#chan', 10, **msgkw)
            attempt((tag, 'unlimit'), im.unlimit, '#chan', 10, **msgkw)
    conf.supybot.protocols.irc.strictRfc.setValue(False)
    # -- predicates / pretty printing
    for s in ['PRIVMSG #c :\x01ACTION waves\x01', 'PRIVMSG #c :\x01VERSION\x01',
              'PRIVMSG #c :\x01', 'NOTICE n :\x01PING 1\x01', 'PRIVMSG #c :plain',
              ':n!u@h QUIT :*.net *.split', ':n!u@h QUIT :bye', 'JOIN #c']:
        m = ircmsgs.IrcMsg(s)
        attempt(('isCtcp', s), ircmsgs.isCtcp, m)
        attempt(('isAction', s), ircmsgs.isAction, m)
        attempt(('isSplit', s), ircmsgs.isSplit, m)
        attempt(('unAction', s), ircmsgs.unAction, m)
        attempt(('pretty', s), ircmsgs.prettyPrint, m)
    # -- ircutils
    for s in NASTY + [5, None, 5.5, b'bytes', b'by\ntes', ['a'], ['\n'], ('\r',),
                      {'\x00': 1}, object]:
        attempt(('isValidArgument', repr(s)), ircutils.isValidArgument, s)
        attempt(('safeArgument', repr(s)), ircutils.safeArgument, s)
    wraptexts = ['', 'word', 'several short words here', 'x' * 1000,
                 ('lorem ipsum dolor sit amet ' * 40).strip(),
                 'é' * 500, ('€€€ ' * 200),
                 '\U0001f600' * 130, 'tab\there\tand\tthere ' * 30,
                 '\x02bold ' * 100, '\x0304,05colored text ' * 50 + '\x03plain',
                 '\x02\x1f\x16\x0312all ' + 'word ' * 200 + '\x0f none ' * 50,
                 'a-b-c-d-' * 100, '  leading and   multiple   spaces  ' * 20,
                 'line\nbreak ' * 30, '\x038,3' + 'y' * 700]
    for (t, n) in itertools.product(wraptexts,
                                    (-5, 0, 1, 3, 4, 5, 7, 10, 50, 200, 400,
                                     450, 512)):
        attempt(('wrap', t, n), ircutils.wrap, t, n)
        attempt(('byteTextWrap', t, n), utils.str.byteTextWrap, t, n)
    for (w, n) in itertools.product(['abcdef'.encode(), 'ééé'.encode(),
                                     '€€'.encode(), '\U0001f600x'.encode(),
                                     b'\xff\xfe\xfd\xfc\xfb', b'a\x80\x80\x80\x80\x80b'],
                                    range(0, 8)):
        attempt(('splitBytes', w, n), utils.str.splitBytes, w, n)
    attempt(('splitBytes-str',), utils.str.splitBytes, 'abc', 2)
    m = ircmsgs.IrcMsg(':n!u@h PRIVMSG #c :x'); m.channel = '#c'
    attempt('replyTo-chan', ircutils.replyTo, m)
    m = ircmsgs.IrcMsg(':n!u@h PRIVMSG +#c :x'); m.channel = '#c'
    attempt('replyTo-status', ircutils.replyTo, m)
    m = ircmsgs.IrcMsg(':n!u@h PRIVMSG bot :x'); m.channel = None
    attempt('replyTo-priv', ircutils.replyTo, m)

    # -- the queue
    for dup in (False, True):
        conf.supybot.protocols.irc.queuing.duplicates.setValue(dup)
        q = irclib.IrcMsgQueue()
        order = ['PRIVMSG #c :1', 'MODE #c +o x', 'FOO bar', 'PRIVMSG #c :1',
                 'KICK #c n', 'WHO #c', 'BAR', 'JOIN #a', 'JOIN #b', 'PONG x',
                 'NOTICE n :2', 'FOO bar', 'PING z', 'CAPAB x', 'REMOVE #c n',
                 'NICK n2', 'PASS p', 'MODE #c +o x', 'privmsg #c :low?']
        for s in order:
            m = ircmsgs.IrcMsg(s)
            rec('enqueue', dup, s, q.enqueue(m), len(q), bool(q), repr(q),
                m in q)
        conf.supybot.protocols.irc.queuing.rateLimit.join.setValue(0.6)
        out = []
        for i in range(40):
            m = q.dequeue()
            out.append(None if m is None else str(m))
        rec('dequeue', dup, out, len(q), bool(q), q.lastJoin)
        q = irclib.IrcMsgQueue([ircmsgs.IrcMsg('A'), ircmsgs.IrcMsg('MODE x'),
                                ircmsgs.IrcMsg('A')])
        rec('queue-init', dup, repr(q), str(q))
        q.reset()
        rec('queue-reset', dup, repr(q), q.dequeue())
    conf.supybot.protocols.irc.queuing.duplicates.setValue(False)
    conf.supybot.protocols.irc.queuing.rateLimit.join.setValue(0)

###
# Part B: the Irc object, plugins, replies.
###
class Say(callbacks.Plugin):
    """Calls the reply methods the way the demo chose."""
    text = ''
    kw = {}
    how = 'reply'
    def say(self, irc, msg, args):
        """takes no arguments

        Says the text."""
        how = Say.how
        if how == 'reply':
            r = irc.reply(Say.text, **Say.kw)
        elif how == 'error':
            r = irc.error(Say.text, **Say.kw)
        elif how == 'replies':
            r = irc.replies(Say.text, **Say.kw)
        elif how == 'replySuccess':
            r = irc.replySuccess(Say.text, **Say.kw)
        elif how == 'replyError':
            r = irc.replyError(Say.text, **Say.kw)
        elif how == 'errorInvalid':
            r = irc.errorInvalid('thing', Say.text, **Say.kw)
        elif how == 'errorNoCapability':
            r = irc.errorNoCapability(Say.text, **Say.kw)
        elif how == 'errorPossibleBug':
            r = irc.errorPossibleBug(Say.text, **Say.kw)
        elif how == 'errorNoUser':
            r = irc.errorNoUser(name=Say.text, **Say.kw)
        elif how == 'errorNotRegistered':
            r = irc.errorNotRegistered(Say.text, **Say.kw)
        elif how == 'errorRequiresPrivacy':
            r = irc.errorRequiresPrivacy(Say.text, **Say.kw)
        elif how == 'simple':
            proxy = callbacks.ReplyIrcProxy(irc.getRealIrc(), msg)
            r = proxy.reply(Say.text, **Say.kw)
        elif how == 'simple-error':
            proxy = callbacks.ReplyIrcProxy(irc.getRealIrc(), msg)
            r = proxy.error(Say.text, **Say.kw)
        elif how == 'queue':
            r = irc.queueMsg(ircmsgs.privmsg(msg.args[0], Say.text))
        elif how == 'send':
            r = irc.sendMsg(ircmsgs.notice(msg.nick, Say.text))
        elif how == 'twice':
            irc.reply(Say.text, **Say.kw)
            r = irc.reply(Say.text[::-1], **Say.kw)
        elif how == 'noReply':
            r = irc.noReply()
        rec('say-returned', how, describe(r))
    say = wrap(say)

    def raw(self, irc, msg, args, text):
        """<text>

        Replies with <text>."""
        irc.reply(text)
    raw = wrap(raw, ['text'])

def drain(irc):
    out = []
    for i in range(2000):
        m = irc.takeMsg()
        if m is None:
            m = irc.takeMsg()
            if m is None:
                break
        out.append(m)
    return out

LOADED = []
def mkirc(nick='bot', user='botuser', host='bot.example'):
    irc = irclib.Irc('test')
    drain(irc)
    irc.feedMsg(ircmsgs.IrcMsg(':srv 001 %s :Welcome' % nick))
    irc.feedMsg(ircmsgs.IrcMsg(':srv 005 %s CHANTYPES=# STATUSMSG=@+ '
                               'PREFIX=(ov)@+ :are supported' % nick))
    for name in ('Owner', 'Misc', 'Config', 'User', 'Utilities', 'Format',
                 'String', 'Reply', 'Filter', 'Channel', 'Topic', 'Anonymous',
                 'Conditional', 'Admin', 'Karma', 'Later', 'Seen',
                 'Nickometer', 'Plugin'):
        if irc.getCallback(name) is None:
            try:
                plugin.loadPluginClass(irc, plugin.loadPluginModule(name))
                LOADED.append(name)
            except Exception as e:
                rec('plugin-load-failed', name, type(e).__name__)
    irc.addCallback(Say(irc))
    irc.feedMsg(ircmsgs.IrcMsg(':%s!%s@%s JOIN #chan' % (nick, user, host)))
    irc.feedMsg(ircmsgs.IrcMsg(':srv 353 %s = #chan :@%s alice +bob carol'
                               % (nick, nick)))
    irc.feedMsg(ircmsgs.IrcMsg(':srv 366 %s #chan :End' % nick))
    for (n, u, h) in [('alice', 'au', 'ah.example'), ('bob', 'bu', 'bh.example'),
                      ('carol', 'cu', 'ch.example')]:
        irc.feedMsg(ircmsgs.IrcMsg(':%s!%s@%s PRIVMSG #chan :hi' % (n, u, h)))
    drain(irc)
    return irc

ALICE = 'alice!au@ah.example'
BOB = 'bob!bu@bh.example'

def feed(irc, label, prefix, target, text, tags=''):
    line = '%s:%s PRIVMSG %s :%s' % (tags, prefix, target, text)
    try:
        m = ircmsgs.IrcMsg(line)
    except Exception as e:
        rec(label, 'unparsable', type(e).__name__)
        return []
    irc.feedMsg(m)
    out = drain(irc)
    rec(label, 'IN', line, 'OUT', [wire(x) for x in out])
    return out

def wire(m):
    """What the driver would write, and what the message looks like."""
    return (Socket.SocketDriver._sendIfMsgs is not None and str(m),
            m.command, m.args, sorted(m.server_tags.items(), key=repr),
            sorted(k for k in m.tags if k not in ('receivedAt', 'receivedBy')))

def setconf(name, value, channel=None):
    group = conf.supybot
    for part in name.split('.'):
        group = group.get(part)
    if channel:
        group = group.get(':test').get(channel) if False else group.get(channel)
    group.setValue(value)

REPLY_OPTIONS = ['reply.withNotice', 'reply.inPrivate', 'reply.withNickPrefix',
                 'reply.error.withNotice', 'reply.error.inPrivate',
                 'reply.withNoticeWhenPrivate', 'reply.oneToOne',
                 'reply.error.noCapability']

def partB():
    irc = mkirc()
    rec('loaded', LOADED)
    world.ircs.append(irc) if irc not in world.ircs else None
    # a registered non-owner user with channel op capability (alice), bob is
    # nobody
    u = ircdb.users.newUser()
    u.name = 'alice'
    u.setPassword('pw')
    u.addHostmask('alice!au@ah.example')
    u.addCapability('#chan,op')
    ircdb.users.setUser(u)

    texts = ['plain', '"a\\nb"', '"a\\rQUIT :x"', '"x\\0y"', '"a\\x0aJOIN #evil"', 'unquoted\\nescape',
             '"quoted\\r\\nPRIVMSG #other :smuggled"', '\\x02bold\\x0f x',
             'éè€', 'x' * 700, ('word ' * 300).strip(),
             ('€€€€ ' * 150).strip(), '\U0001f600' * 200,
             '\\x0304,05' + 'colored ' * 120, '$nick $channel $botnick $who',
             '\x01ACTION smuggle\x01', '"\\ud800 lone surrogate"', '""']
    commands = ['echo %s', 'utilities echo %s', 'reply %s', 'reply action %s',
                'reply notice %s', 'reply private %s', 'format bold %s',
                'format repr %s', 'format upper [echo %s]', 'raw %s',
                'format concat [echo %s] [format reverse %s]',
                'format color red blue %s', 'rot13 %s', 'string len %s',
                'anonymous say #chan %s', 'anonymous do #chan %s',
                'anonymous tell bob %s', 'topic add %s', 'topic set %s',
                'channel kick bob %s', 'channel ban list',
                'nosuchcommand %s', 'tell bob %s', 'later tell bob %s',
                'cif [ceq a a] "echo %s" "echo no"', 'success %s',
                'ignore %s', 'apply echo %s', 'config help supybot.%s',
                'user hostmask %s', 'seen %s', 'karma %s', 'nickometer %s',
                'help %s', 'list %s', 'more %s', 'last --with %s']
    # default configuration: every command x every text, from a channel, as
    # alice (op capability) and as bob (nobody), and in private
    for (ci, c) in enumerate(commands):
        for (ti, t) in enumerate(texts):
            try:
                line = c % ((t,) * c.count('%s'))
            except TypeError:
                line = c
            feed(irc, ('cmd', ci, ti, 'alice'), ALICE, '#chan', '@' + line)
            if ti % 3 == 0:
                feed(irc, ('cmd', ci, ti, 'bob-priv'), BOB, 'bot', line)
            if ti % 4 == 0:
                feed(irc, ('cmd', ci, ti, 'more'), ALICE, '#chan', '@more')
                feed(irc, ('cmd', ci, ti, 'more-bob'), BOB, '#chan',
                     '@more alice')
    # status-prefixed channel target and msgid tag (no message-tags cap)
    feed(irc, 'statusmsg', ALICE, '@#chan', '@echo to ops')
    feed(irc, 'msgid-nocap', ALICE, '#chan', '@echo tagged', tags='@msgid=abc ')
    irc.state.capabilities_ack.add('message-tags')
    feed(irc, 'msgid-cap-noexp', ALICE, '#chan', '@echo tagged',
         tags='@msgid=abc ')
    conf.supybot.protocols.irc.experimentalExtensions.setValue(True)
    feed(irc, 'msgid-cap', ALICE, '#chan', '@echo tagged %s' % ('y' * 600),
         tags='@msgid=abc;+x=\\s\\: ')
    feed(irc, 'msgid-more', ALICE, '#chan', '@more', tags='@msgid=def ')
    conf.supybot.protocols.irc.experimentalExtensions.setValue(False)
    irc.state.capabilities_ack.discard('message-tags')

    # reply configurations x reply methods, with the Say plugin
    saytexts = ['short', 'a\nb\rc\x00d', 'z' * 900, ('wörd ' * 250).strip(),
                '', '\x01CTCP\x01', '\x02' + 'bold words ' * 90, 5, None,
                ['a', 'list'], '\ud800']
    kwsets = [{}, {'notice': True}, {'private': True}, {'action': True},
              {'prefixNick': False}, {'prefixNick': True}, {'to': 'bob'},
              {'to': '#chan'}, {'to': 'bob', 'private': True},
              {'to': 'nosuchnick', 'private': True},
              {'notice': True, 'private': True}, {'noLengthCheck': True},
              {'sendImmediately': True}, {'stripCtcp': False},
              {'action': True, 'notice': True},
              {'to': '#other'}, {'private': False, 'notice': False}]
    hows = ['reply', 'error', 'simple', 'simple-error', 'twice']
    for (ti, t) in enumerate(saytexts):
        for (ki, kw) in enumerate(kwsets):
            for how in hows:
                if how != 'reply' and ki % 3 and ti % 2:
                    continue
                kw2 = dict(kw)
                if how in ('error', 'simple-error'):
                    for k in ('noLengthCheck', 'sendImmediately'):
                        kw2.pop(k, None)
                if how == 'simple':
                    kw2.pop('sendImmediately', None)
                Say.text, Say.kw, Say.how = t, kw2, how
                feed(irc, ('say', ti, ki, how, 'chan'), ALICE, '#chan', '@say')
                if ki % 2 == 0:
                    feed(irc, ('say', ti, ki, how, 'priv'), BOB, 'bot', 'say')
                    feed(irc, ('say', ti, ki, how, 'nested'), ALICE, '#chan',
                         '@format upper [say]')
    for how in ['replies', 'replySuccess', 'replyError', 'errorInvalid',
                'errorNoCapability', 'errorPossibleBug', 'errorNoUser',
                'errorNotRegistered', 'errorRequiresPrivacy', 'queue', 'send',
                'noReply']:
        for t in (['one', 'two\nx', 'three' * 200] if how == 'replies'
                  else 'plain', 'a\nb', 'q' * 800, ''):
            for kw in ({}, {'Raise': True}, {'Raise': False},
                       {'private': True}, {'notice': True},
                       {'oneToOne': False}, {'oneToOne': True,
                                             'prefixer': 'P: ', 'joiner': '; '},
                       {'onlyPrefixFirst': True, 'prefixer': 'P: ',
                        'oneToOne': False}):
                if how != 'replies' and ('oneToOne' in kw
                                         or 'prefixer' in kw):
                    continue
                if how in ('replies', 'replySuccess', 'replyError', 'queue',
                           'send', 'noReply') and 'Raise' in kw:
                    continue
                if how in ('queue', 'send', 'noReply') and kw:
                    continue
                if how in ('replies',) and not isinstance(t, list):
                    continue
                if how != 'replies' and isinstance(t, list):
                    continue
                Say.text, Say.kw, Say.how = t, kw, how
                feed(irc, ('rich', how, repr(t)[:30], sorted(kw)), ALICE,
                     '#chan', '@say')
                feed(irc, ('rich-priv', how, repr(t)[:30], sorted(kw)), BOB,
                     'bot', 'say')
    # non-default configurations
    long1 = ('lorem ipsum é€ ' * 200).strip()
    settings = [
        [('reply.withNotice', True)],
        [('reply.inPrivate', True)],
        [('reply.withNickPrefix', False)],
        [('reply.error.withNotice', True), ('reply.error.inPrivate', True)],
        [('reply.withNoticeWhenPrivate', False)],
        [('reply.mores', False)],
        [('reply.mores.length', 100)],
        [('reply.mores.length', 45)],
        [('reply.mores.length', 3)],
        [('reply.mores.maximum', 2)],
        [('reply.mores.instant', 3)],
        [('reply.mores.instant', 3), ('reply.mores.length', 80),
         ('reply.mores.maximum', 4)],
        [('reply.maximumLength', 50)],
        [('reply.oneToOne', False)],
        [('reply.error.noCapability', True)],
        [('reply.error.detailed', True)],
        [('reply.whenNotCommand', False)],
        [('replies.success', 'Done \x02$nick\x02\nQUIT')],
        [('replies.error', '')],
        [('replies.noCapability', 'No %s for you\r\nQUIT')],
        [('replies.noCapability', 'no percent')],
        [('replies.noUser', 'no percent either')],
        [('protocols.irc.strictRfc', True)],
        [('protocols.irc.queuing.duplicates', True)],
    ]
    defaults = {}
    for group in settings:
        for (name, value) in group:
            g = conf.supybot
            for part in name.split('.'):
                g = g.get(part)
            defaults.setdefault(name, g())
            g.setValue(value)
        rec('settings', group)
        for (ti, t) in enumerate(['"a\\nb\\r\\0c"', long1,
                                  '"\\x02' + 'b ' * 400 + '"']):
            for c in ['echo %s', 'reply private %s', 'reply action %s',
                      'nosuchcommand %s', 'format upper [echo %s]',
                      'channel kick bob %s']:
                feed(irc, ('conf', ti, c, 'alice'), ALICE, '#chan',
                     '@' + c % t)
                feed(irc, ('conf', ti, c, 'bob-priv'), BOB, 'bot', c % t)
            for i in range(3):
                feed(irc, ('conf-more', ti, i), ALICE, '#chan', '@more')
            feed(irc, ('conf-more-other', ti), BOB, '#chan', '@more alice')
            feed(irc, ('conf-more-other2', ti), BOB, 'bot', 'more alice')
        for (t, kw, how) in [('z' * 900, {}, 'reply'),
                             ('z' * 900, {'private': True}, 'reply'),
                             ('z ' * 900, {'to': 'bob'}, 'reply'),
                             ('z ' * 900, {'notice': True}, 'twice'),
                             ('oops\nQUIT', {}, 'error'),
                             ('cap', {}, 'errorNoCapability'),
                             ('owner', {}, 'errorNoCapability'),
                             (['a', 'b' * 600, 'c\nd'], {}, 'replies'),
                             (['a', 'b' * 600, 'c\nd'],
                              {'prefixer': 'p ', 'onlyPrefixFirst': True},
                              'replies'),
                             ('', {}, 'replySuccess'),
                             ('detail', {}, 'replyError'),
                             ('bob', {}, 'errorNoUser')]:
            Say.text, Say.kw, Say.how = t, kw, how
            feed(irc, ('conf-say', how, sorted(kw)), ALICE, '#chan', '@say')
            feed(irc, ('conf-say-priv', how, sorted(kw)), BOB, 'bot', 'say')
            feed(irc, ('conf-say-more',), ALICE, '#chan', '@more')
        for (name, value) in group:
            g = conf.supybot
            for part in name.split('.'):
                g = g.get(part)
            g.setValue(defaults[name])
    # channel-specific values
    conf.supybot.reply.withNotice.get('#chan').setValue(True)
    conf.supybot.reply.mores.length.get('#chan').setValue(120)
    feed(irc, 'chan-specific', ALICE, '#chan', '@echo ' + long1)
    feed(irc, 'chan-specific-more', ALICE, '#chan', '@more')
    feed(irc, 'chan-specific-priv', ALICE, 'bot', 'echo ' + long1)
    conf.supybot.reply.withNotice.get('#chan').setValue(False)
    conf.supybot.reply.mores.length.get('#chan').setValue(0)

    # outFilter rewriters (Filter builds IrcMsg(msg=...))
    feed(irc, 'outfilter-on', ALICE, '#chan', '@filter outfilter rot13')
    feed(irc, 'outfilter-echo', ALICE, '#chan', '@echo hello ' + 'abc ' * 300)
    feed(irc, 'outfilter-more', ALICE, '#chan', '@more')
    feed(irc, 'outfilter-off', ALICE, '#chan', '@filter outfilter')

    # -- direct use of the Irc object: queueMsg / sendMsg / truncation
    long_msgs = [
        ircmsgs.privmsg('#chan', 'x' * 600),
        ircmsgs.privmsg('#chan', '€' * 300),
        ircmsgs.privmsg('#chan', 'ab' + '€' * 300),
        ircmsgs.privmsg('#chan', 'a' + '\U0001f600' * 200),
        ircmsgs.notice('bob', 'y' * 498),
        ircmsgs.notice('bob', 'y' * 499),
        ircmsgs.notice('bob', 'y' * 500),
        ircmsgs.notice('bob', 'y' * 501),
        ircmsgs.IrcMsg(command='PRIVMSG', args=('#chan', 'z' * 700),
                       server_tags={'+draft/reply': 'abc', 'k': 'v v'}),
        ircmsgs.IrcMsg(command='TAGMSG', args=('#chan',),
                       server_tags={'+k': 'v' * 600}),
        ircmsgs.IrcMsg(command='PRIVMSG', args=('#chan', '\ud800' * 600)),
        ircmsgs.IrcMsg(prefix='me!i@h', command='TOPIC',
                       args=('#chan', 't' * 600)),
        ircmsgs.IrcMsg('@a=b :p!u@h PRIVMSG #chan :' + 'q' * 600),
        ircmsgs.IrcMsg('FOO ' + 'a ' * 300),
        ircmsgs.kick('#chan', 'bob', 'r' * 600),
        ircmsgs.mode('#chan', ['+b'] + ['m' * 100] * 6),
    ]
    for (i, m) in enumerate(long_msgs):
        m2 = ircmsgs.IrcMsg(msg=m)
        attempt(('truncate', i), lambda: (irc._truncateMsg(m2), str(m2),
                                          len(m2), len(str(m2).encode(
                                              'utf-8', 'replace'))))
        rec('queueMsg', i, irc.queueMsg(m), irc.queueMsg(m))
        out = drain(irc)
        rec('queued-out', i, [wire(x) for x in out])
        rec('sendMsg', i, irc.sendMsg(m))
        irc.queueMsg(ircmsgs.ping('after'))
        out = drain(irc)
        rec('sent-out', i, [wire(x) for x in out])
    # fast queue before queue, priorities
    for s in ['PRIVMSG #chan :low', 'FOO normal', 'MODE #chan +v bob',
              'JOIN #x', 'JOIN #y']:
        irc.queueMsg(ircmsgs.IrcMsg(s))
    irc.sendMsg(ircmsgs.IrcMsg('PRIVMSG #chan :fast'))
    rec('priorities', [wire(x) for x in drain(irc)])
    # echo-message negotiated: no emulated echo
    irc.state.capabilities_ack.add('echo-message')
    irc.queueMsg(ircmsgs.privmsg('#chan', 'with echo-message'))
    rec('echo-message', [wire(x) for x in drain(irc)])
    irc.state.capabilities_ack.discard('echo-message')
    # an outFilter dropping messages
    class Dropper(irclib.IrcCallback):
        def name(self):
            return 'Dropper'
        def outFilter(self, irc, msg):
            if 'drop' in msg.args[-1]:
                return None
            return msg
    irc.addCallback(Dropper())
    for i in range(5):
        irc.queueMsg(ircmsgs.privmsg('#chan', 'drop %d' % i))
    irc.queueMsg(ircmsgs.privmsg('#chan', 'keep'))
    rec('dropper', [wire(x) for x in drain(irc)])
    irc.removeCallback('Dropper')
    return irc

###
# Part C: the Socket driver over a fake socket.
###
class FakeSocket(object):
    def __init__(self):
        self.sent = []
        self.limit = None
        self.fail = None
        self._closed = False
    def send(self, data):
        if self.fail is not None:
            (e, self.fail) = (self.fail, None)
            raise e
        n = len(data) if self.limit is None else min(self.limit, len(data))
        self.sent.append(bytes(data[:n]))
        return n
    def recv(self, n):
        return b''
    def close(self):
        self._closed = True
    def shutdown(self, how):
        pass
    def fileno(self):
        return 7
    def settimeout(self, t):
        pass
    def connect(self, addr):
        pass
    def bind(self, addr):
        pass

def partC(irc):
    import socket
    fake = FakeSocket()
    utils.net.getSocket = lambda *a, **k: fake
    utils.net.getAddressFromHostname = lambda *a, **k: '127.0.0.1'
    scheduled = []
    import supybot.schedule as schedule
    schedule.addEvent = lambda f, t, name=None, **k: scheduled.append(name)
    schedule.rescheduleEvent = lambda *a, **k: None
    schedule.removeEvent = lambda *a, **k: None
    irc2 = irclib.Irc('test')
    try:
        drv = Socket.SocketDriver(irc2)
    except Exception as e:
        rec('driver-init-failed', type(e).__name__, str(e))
        raise
    rec('driver-connected', drv.connected)
    irc2.driver = drv
    drv.conn = fake
    drv.connected = True
    def flush(label):
        fake.sent = []
        drv._sendIfMsgs()
        rec(label, list(fake.sent), bytes(drv.outbuffer), drv.connected,
            drv.eagains)
    flush('login')
    irc2.feedMsg(ircmsgs.IrcMsg(':srv 001 bot :Welcome'))
    flush('after-welcome')
    msgs = [ircmsgs.privmsg('#chan', 'hello'),
            ircmsgs.privmsg('#chan', 'é€\U0001f600'),
            ircmsgs.IrcMsg(command='PRIVMSG', args=('#chan', 'lone \ud800 x')),
            ircmsgs.privmsg('#chan', 'x' * 700),
            ircmsgs.IrcMsg(command='PRIVMSG', args=('#chan', 'tagged'),
                           server_tags={'+a': 'b c'}),
            ircmsgs.notice('bob', '€' * 400)]
    for (i, m) in enumerate(msgs):
        irc2.queueMsg(m)
        flush(('driver-one', i))
    for m in msgs:
        irc2.sendMsg(ircmsgs.IrcMsg(msg=m))
    fake.limit = 100
    for i in range(30):
        flush(('driver-partial', i))
        if not drv.outbuffer:
            break
    fake.limit = None
    # socket errors
    irc2.queueMsg(ircmsgs.privmsg('#chan', 'eagain'))
    fake.fail = socket.error(11, 'Resource temporarily unavailable')
    flush('driver-eagain')
    flush('driver-eagain-retry')
    irc2.queueMsg(ircmsgs.privmsg('#chan', 'broken pipe'))
    fake.fail = socket.error(32, 'Broken pipe')
    flush('driver-epipe')
    rec('driver-after-epipe', drv.connected, scheduled)
    flush('driver-disconnected')
    # EAGAIN too many times, and a closed socket (e is None)
    drv.conn = fake
    drv.connected = True
    drv.eagains = 121
    fake.fail = socket.error(11, 'Resource temporarily unavailable')
    flush('driver-eagain-121')
    rec('driver-after-eagain-121', drv.connected, scheduled, fake._closed)
    drv.conn = fake
    drv.connected = True
    drv.eagains = 0
    attempt('driver-closed', drv._handleSocketError, None)
    rec('driver-after-closed', drv.connected, drv.eagains)
    attempt('driver-error-noargs', drv._handleSocketError, socket.error())
    # ping: sent when due, time-out when not answered
    drv.conn = fake
    drv.connected = True
    drv.outbuffer = b''
    real_reconnect = drv.reconnect
    drv.reconnect = lambda *a, **k: rec('driver.reconnect', a, sorted(k))
    irc2.afterConnect = True
    irc2.outstandingPing = False
    irc2.lastping = irclib.time.now - 100000
    flush('ping-due')
    flush('ping-due2')
    rec('ping-state', irc2.outstandingPing)
    irc2.lastping -= 100000
    flush('ping-timeout')
    flush('ping-timeout2')
    conf.supybot.protocols.irc.ping.setValue(False)
    flush('ping-disabled')
    conf.supybot.protocols.irc.ping.setValue(True)
    irc2.outstandingPing = False
    irc2.lastping = irclib.time.now + 100000
    drv.reconnect = real_reconnect
    # zombie: what is buffered goes out, then the driver dies
    drv.conn = fake
    drv.connected = True
    irc2.queueMsg(ircmsgs.privmsg('#chan', 'last words'))
    rec('zombie-queue', irc2.zombie)
    irc2.zombie = True
    rec('zombie-refused', irc2.queueMsg(ircmsgs.privmsg('#chan', 'refused')),
        irc2.sendMsg(ircmsgs.privmsg('#chan', 'refused too')))
    died = []
    drv.die = lambda: died.append('driver.die')
    irc2._reallyDie = lambda: died.append('irc._reallyDie')
    flush('zombie-flush')
    flush('zombie-flush2')
    rec('zombie-died', died)
    drv.zombie = True
    drv._reallyDie = lambda: died.append('driver._reallyDie')
    drv.outbuffer = b'PENDING\r\n'
    flush('driver-zombie')
    rec('driver-zombie-died', died)

def main():
    t0 = time.time()
    partA()
    t1 = time.time()
    irc = partB()
    t2 = time.time()
    partC(irc)
    t3 = time.time()
    sys.stderr.write('times: A %.1f B %.1f C %.1f\n' % (t1-t0, t2-t1, t3-t2))
    blob = '\n'.join(RECORD).encode('utf-8', 'backslashreplace')
    digest = hashlib.sha256(blob).hexdigest()
    dump = os.environ.get('DEMO_DUMP')
    if dump:
        with open(dump, 'wb') as f:
            f.write(blob)
    print('observations: %d, digest: %s' % (len(RECORD), digest))
    if digest == EXPECTED:
        print('PASS')
        return 0
    print('FAIL (expected %s)' % EXPECTED)
    return 1

if __name__ == '__main__':
    try:
        code = main()
    except BaseException:
        traceback.print_exc()
        print('FAIL (exception)')
        code = 2
    sys.stdout.flush()
    sys.stderr.flush()
    os._exit(code)
